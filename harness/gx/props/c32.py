"""
C32  CSV import keeps every cell.

Theorems: lean/GristProps/C32.lean about GristModel/CsvPost.lean (everything after csv.reader):
  columns_equal_length (unconditional), one_entry_per_data_row_partial, csv_cells_kept_partial,
  csv_headers_kept_partial (hypotheses noPreamble / noWideLate), and the refutations of the full
  statement csv_cells_kept_full_false_late_wide_row, csv_cells_kept_full_false_preamble,
  one_entry_per_data_row_full_false (witnesses replayed here as WITNESS_A / WITNESS_B).

INTERPRETATION (decisions, see also DESIGN App. B):
 * "written as CSV with an explicitly given delimiter and quote character": the file is produced by
   Python's csv.writer (QUOTE_MINIMAL, doublequote) and the importer is told the dialect the file was
   written with: delimiter, quotechar, doublequote=True, skipinitialspace=False, lineterminator, and
   encoding='utf-8', plus the explicit include_col_names_as_headers.  (With only delimiter/quotechar
   given, `skipinitialspace` is sniffed and a sniffed True strips leading blanks of cells by design;
   that narrower reading is not demanded.)  Grids that csv.writer itself cannot express (standard
   csv.reader on the written file != grid) are skipped and counted.
 * headers setting True: row 0 of the grid is the header row, data rows are grid[1:]; False: every
   row of the grid is a data row.  Positions are relative to the grid as written: rows the importer
   drops as preamble are lost cells / a wrong row count.
 * "non-empty cell" = a cell with at least one non-whitespace character (the importer's own
   `import_utils.empty`, used for its width computation); whitespace-only cells are not demanded.
   "at its column": empty columns may be removed, so grid column c must be found in the output in
   order (order-preserving injection of the required columns into the output columns; a required
   column = non-blank header (headers on) or any non-blank data cell).  A column with a header must
   carry id == header.strip().
 * Converted values: csv.reader only yields `str`; parse_data then always picks AnyConverter
   (identity on str, type "Any").  So cells are compared as text, and the oracle additionally demands
   type == "Any" and `type(v) is str` for every returned value (numeric-looking cells are part of the
   ordinary stream, they matter for header detection only).
 * Model parameters: the rows csv.reader yields when driven exactly like the importer drives it
   (codecs.open + csv.reader with the same options), and `_is_numeric` (Python float()/int()).
   The reader is checked by oracle: rows == grid.

Known findings on the unchanged tree (known_findings.json): SIG_A, SIG_B, SIG_C below.
"""
import codecs
import csv
import itertools
import logging
import os
import shutil
import sys

from gx.common import VERIF

SIG_A = "row beyond the 100-row sample wider than every sampled row loses its extra cells"
SIG_B = "leading row with fewer non-empty cells than modal-1 (or blank, headers off) dropped as preamble"
SIG_C = "unquoted cell contains a Unicode line boundary other than CR/LF (row split by codecs readline)"

LINE_BOUNDARIES = "\x0b\x0c\x1c\x1d\x1e\x85\u2028\u2029"

WITNESS_A = {"grid": [["a"]] * 100 + [["b", "c"]], "include": False, "delimiter": ",", "quotechar": '"',
             "lineterminator": "\r\n", "tag": "lean-witness-late-wide-row"}
WITNESS_B = {"grid": [["title"], ["a", "b", "c"], ["d", "e", "f"]], "include": False, "delimiter": ",",
             "quotechar": '"', "lineterminator": "\r\n", "tag": "lean-witness-preamble"}
WITNESS_C = {"grid": [["a\u2028b", "c"], ["d", "e"]], "include": False, "delimiter": ",", "quotechar": '"',
             "lineterminator": "\r\n", "tag": "line-boundary"}

csv.field_size_limit(sys.maxsize)


# ------------------------------------------------------------------ reference notions (oracle side)
def blank(s):
  return not s.strip()


def ref_cn(row):
  """1 + index of the last non-blank cell (0 if none)."""
  n = 0
  for i, c in enumerate(row):
    if not blank(c):
      n = i + 1
  return n


def ref_modal(rows):
  cnt = {}
  for row in rows:
    n = sum(1 for c in row if not blank(c))
    if n > 1:
      cnt[n] = cnt.get(n, 0) + 1
  best = None
  for k, v in cnt.items():
    if best is None or v > cnt[best]:
      best = k
  return best or 0


def feat_late_wide(grid):
  w = max([ref_cn(r) for r in grid[:100]], default=0)
  return any(ref_cn(r) > w for r in grid[100:])


def feat_preamble(grid, include):
  if not grid:
    return False
  return ref_cn(grid[0]) + 1 < ref_modal(grid[:100]) or (not include and ref_cn(grid[0]) == 0)


def is_num(text):
  for t in (float, int):
    try:
      t(text)
      return True
    except (ValueError, OverflowError, TypeError):
      pass
  return False


def property_clauses(grid, include, cols):
  """The property's clauses on the real output `cols` = [(id, type, data)].  None or (what, detail)."""
  header = grid[0] if (include and grid) else []
  data = grid[1:] if include else grid
  for (cid, ctype, cdata) in cols:
    if ctype != "Any" or type(cid) is not str or any(type(v) is not str for v in cdata):
      return ("typed", "column %r type %r holds non-text values" % (cid, ctype))
  lens = sorted(set(len(d) for (_, _, d) in cols))
  if len(lens) > 1:
    return ("unequal", "column lengths %r" % (lens,))
  if lens and lens[0] != len(data):
    return ("rowcount", "%d entries per column for %d data rows" % (lens[0], len(data)))
  width = max([len(r) for r in grid], default=0)
  k = 0
  for c in range(width):
    hdr = header[c] if c < len(header) and not blank(header[c]) else None
    cells = [(r, row[c]) for r, row in enumerate(data) if c < len(row) and not blank(row[c])]
    if hdr is None and not cells:
      continue          # not a required column
    while k < len(cols):
      cid, _, cdata = cols[k]
      if (hdr is None or cid == hdr.strip()) and all(cdata[r] == t for r, t in cells):
        break
      k += 1
    if k == len(cols):
      what = "header %r" % hdr if hdr is not None and not cells else "cell %r" % (cells[0],) if cells else ""
      return ("lost", "grid column %d (%s%s) is not in the output at its place; output ids=%r rows=%r" % (
        c, what, ", %d non-empty cells" % len(cells), [x[0] for x in cols][:8], lens))
    k += 1
  return None


def clip_late(grid):
  w = max([ref_cn(r) for r in grid[:100]], default=0)
  return grid[:100] + [r[:w] for r in grid[100:]]


# ------------------------------------------------------------------ running the real importer
class Runner(object):
  def __init__(self):
    # scratch files for the importer: RAM-backed when available (created and removed by this run)
    base = "/dev/shm" if os.path.isdir("/dev/shm") and os.access("/dev/shm", os.W_OK) else os.path.join(VERIF, ".audit")
    self.dir = os.path.join(base, "gx_c32_%d" % os.getpid())
    os.makedirs(self.dir, exist_ok=True)
    self.n = 0
    logging.disable(logging.CRITICAL)
    from imports import import_csv
    self.import_csv = import_csv

  def close(self):
    shutil.rmtree(self.dir, ignore_errors=True)
    logging.disable(logging.NOTSET)

  def run(self, case):
    """Returns dict(std=rows by the standard reader, rows=rows as the importer's reader yields,
    cols=[(id,type,data)] or exception)."""
    self.n += 1
    path = os.path.join(self.dir, "g%d.csv" % (self.n % 4))
    d, q, lt = case["delimiter"], case["quotechar"], case["lineterminator"]
    with open(path, "w", newline="", encoding="utf-8") as f:
      w = csv.writer(f, delimiter=d, quotechar=q, doublequote=True, lineterminator=lt,
                     quoting=csv.QUOTE_MINIMAL, skipinitialspace=False)
      for row in case["grid"]:
        w.writerow(row)
    kw = dict(delimiter=d, quotechar=q, doublequote=True, skipinitialspace=False, lineterminator=lt)
    with open(path, "r", newline="", encoding="utf-8") as f:
      std = list(csv.reader(f, **kw))
    # exactly how import_csv._parse_with_encoding/_parse_open_file drive the reader
    with codecs.open(path, mode="r", encoding="utf-8", errors="strict") as f:
      rows = list(csv.reader(f, **kw))
    opts = dict(kw)
    opts["include_col_names_as_headers"] = case["include"]
    opts["encoding"] = "utf-8"
    res = {"std": std, "rows": rows}
    try:
      options, tables = self.import_csv.parse_file(path, opts)
      if len(tables) > 1:
        res["error"] = "more than one table"
      elif not tables:
        res["cols"] = []
      else:
        t = tables[0]
        if len(t["column_metadata"]) != len(t["table_data"]):
          res["error"] = "metadata/data column count differ"
        else:
          res["cols"] = [(m["id"], m["type"], dd) for m, dd in zip(t["column_metadata"], t["table_data"])]
      if options.get("WARNING"):
        res["warning"] = options["WARNING"]
    except Exception as e:   # the importer must not fail on a well-formed file
      res["error"] = "%s: %s" % (type(e).__name__, e)
    return res


def model_op(case, rows):
  """One driver op: cells interned, sent as code-point arrays."""
  table, idx = [], {}

  def ix(s):
    i = idx.get(s)
    if i is None:
      i = idx[s] = len(table)
      table.append([ord(ch) for ch in s])
    return i
  jr = [[ix(c) for c in row] for row in rows]
  nums = sorted(set(ix(c) for row in rows[:100] for c in row if is_num(c)))
  return {"m": "csvpost", "cells": table, "rows": jr, "include": case["include"], "numeric": nums}


def model_cols(mo):
  if "error" in mo:
    return None
  return [("".join(map(chr, c["id"])), [("".join(map(chr, v))) for v in c["data"]]) for c in mo["cols"]]


# ------------------------------------------------------------------ generators
PLAIN = ["a", "b", "c", "x", "y", "Name", "id", "total", "foo bar", "Zo\u00eb", "\u6f22\u5b57", "\U0001F600", "q\u0301", "A", "B"]
NUMERIC = ["1", "2", "12", "-3.5", "1e5", "inf", "nan", " 7 ", "1_000", "\u0663", "0x10", "1,5", "12abc", "+4", ".5", "1."]
BLANKS = ["", "", "", " ", "\t", "\xa0", "\u3000", "  ", "\x1f", "\u2003"]
ODD = ["\ufeff", "\x00", "a\x00b", " lead", "trail ", "\xa0pad\xa0", "\u200b", "\x7f", "'", '"', '""', "''", "`", "a\\b"]


def gen_cell(rng, d, q, lt="\r\n"):
  r = rng.random()
  if r < 0.42:
    return rng.choice(PLAIN)
  if r < 0.55:
    return rng.choice(NUMERIC)
  if r < 0.70:
    return rng.choice(BLANKS)
  if r < 0.78:
    return rng.choice(ODD)
  # structured nasties: delimiter / quote / newline inside
  parts = [rng.choice(PLAIN + NUMERIC) for _ in range(rng.randint(1, 3))]
  # csv.writer (3.12) only quotes CR / LF when they occur in its lineterminator
  nl = ["\n", "\r", "\r\n", "\n" + q] if lt == "\r\n" else [lt, lt + q]
  seps = [d, q, q + q, " ", d + " ", q + d] + nl
  s = parts[0]
  for p in parts[1:]:
    s += rng.choice(seps) + p
  if rng.random() < 0.3:
    s = rng.choice(seps) + s
  if rng.random() < 0.3:
    s += rng.choice(seps)
  return s


def nonblank_cell(rng, d, q, lt="\r\n"):
  while True:
    c = gen_cell(rng, d, q, lt)
    if not blank(c):
      return c


def gen_dialect(rng):
  d = rng.choice([",", ",", ",", ";", "\t", "|", ":", " ", "^", "\u00a7", "a"])
  q = rng.choice(['"', '"', '"', "'", "`", "$", "\u00ab"])
  lt = rng.choice(["\r\n", "\r\n", "\n", "\r"])
  return d, q, lt


def gen_rows_count(rng, tier):
  r = rng.random()
  if r < 0.45:
    return rng.randint(0, 6)
  if r < 0.70:
    return rng.randint(7, 40)
  if r < 0.93:
    return rng.randint(97, 104)
  return rng.randint(105, 180 if tier == "quick" else 1200)


def gen_case(rng, tier):
  d, q, lt = gen_dialect(rng)
  include = rng.random() < 0.5
  n = gen_rows_count(rng, tier)
  m = rng.choice([1, 1, 2, 2, 3, 3, 4, 5, 7])
  style = rng.random()
  empty_cols = [c for c in range(m) if rng.random() < 0.15]
  pblank = rng.choice([0.0, 0.1, 0.3, 0.6])
  grid = []

  def cell(c):
    if c in empty_cols:
      return "" if rng.random() < 0.8 else rng.choice(BLANKS)
    if rng.random() < pblank:
      return rng.choice(BLANKS)
    return gen_cell(rng, d, q, lt)

  for r in range(n):
    if style < 0.45:                      # rectangular
      row = [cell(c) for c in range(m)]
    else:                                 # ragged
      k = rng.choice([m, m, m, rng.randint(0, m), rng.randint(0, m + 2)])
      row = [cell(c) for c in range(k)]
      if rng.random() < 0.06:
        row = []
    grid.append(row)
  tag = "rect" if style < 0.45 else "ragged"
  mode = rng.random()
  if grid and mode < 0.55:
    # make the partial theorem's hypotheses hold: a full first row, late rows no wider than the sample
    first = [nonblank_cell(rng, d, q, lt) if (c == m - 1 or rng.random() < 0.8) else cell(c) for c in range(m)]
    if rng.random() < 0.25 and m >= 3:
      # tolerance edge: exactly one non-blank cell short of the modal count, still reaching the last column
      first[rng.randrange(m - 1)] = ""
    grid[0] = first
    w = max(ref_cn(r) for r in grid[:100])
    grid = grid[:100] + [r[:w] if ref_cn(r) > w else r for r in grid[100:]]
    tag += "+safe"
  elif grid and mode < 0.70:
    # a preamble: short rows before the table
    pre = [rng.choice([[], [nonblank_cell(rng, d, q, lt)], [""], [" ", ""], ["", nonblank_cell(rng, d, q, lt)]])
           for _ in range(rng.randint(1, 3))]
    grid = pre + grid
    tag += "+preamble"
  elif len(grid) >= 100 and mode < 0.90:
    k = rng.randint(100, len(grid))
    extra = [nonblank_cell(rng, d, q, lt) for _ in range(rng.randint(1, 3))]
    w = max(ref_cn(r) for r in grid[:100])
    grid.insert(k, [cell(c) for c in range(w)] + extra)
    tag += "+latewide"
  return {"grid": grid, "include": include, "delimiter": d, "quotechar": q, "lineterminator": lt, "tag": tag}


def gen_boundary_case(rng, tier):
  """Around the 100-row sample: the widest row sits at index 98..101 (absolute, preamble-free)."""
  d, q, lt = gen_dialect(rng)
  include = rng.random() < 0.5
  m = rng.randint(1, 3)
  n = rng.randint(99, 103)
  grid = [[nonblank_cell(rng, d, q, lt) for _ in range(m)] for _ in range(n)]
  k = rng.randint(97, n - 1)
  grid[k] = grid[k] + [rng.choice(BLANKS + [nonblank_cell(rng, d, q, lt)]) for _ in range(rng.randint(1, 2))]
  return {"grid": grid, "include": include, "delimiter": d, "quotechar": q, "lineterminator": lt, "tag": "boundary"}


def gen_linebreak_case(rng):
  d, q, lt = gen_dialect(rng)
  m = rng.randint(1, 3)
  n = rng.randint(1, 5)
  grid = [[rng.choice(PLAIN) for _ in range(m)] for _ in range(n)]
  r, c = rng.randrange(n), rng.randrange(m)
  ch = rng.choice(LINE_BOUNDARIES)
  # inside a quoted cell (harmless) or an unquoted one (row split)
  grid[r][c] = ("x" + ch + "y" + (rng.choice([d, q, lt]) if rng.random() < 0.5 else ""))
  return {"grid": grid, "include": rng.random() < 0.5, "delimiter": d, "quotechar": q,
          "lineterminator": lt, "tag": "linebreak"}


def exhaustive_cases(ck):
  """Every grid of <= R rows, each row 0..2 cells over a 4-letter alphabet, headers on/off."""
  alpha = ["", "a", "1", " "]
  rowset = [[]] + [[x] for x in alpha] + [[x, y] for x in alpha for y in alpha]
  rmax = 2 if ck.tier == "quick" else 3
  for nr in range(0, rmax + 1):
    for rows in itertools.product(rowset, repeat=nr):
      for include in (False, True):
        yield {"grid": [list(r) for r in rows], "include": include, "delimiter": ",", "quotechar": '"',
               "lineterminator": "\r\n", "tag": "exhaustive"}
  # sampled larger scope
  k = 800 if ck.tier == "quick" else 40000
  alpha2 = ["", "a", "b", "1", " ", "a"]
  for _ in range(k):
    nr = ck.rng.randint(3, 5)
    grid = [[ck.rng.choice(alpha2) for _ in range(ck.rng.randint(0, 3))] for _ in range(nr)]
    yield {"grid": grid, "include": ck.rng.random() < 0.5, "delimiter": ",", "quotechar": '"',
           "lineterminator": "\r\n", "tag": "small-random"}


def cases(ck):
  yield dict(WITNESS_A)
  yield dict(WITNESS_B)
  yield dict(WITNESS_C)
  for c in exhaustive_cases(ck):
    yield c
  rng = ck.rng
  n = 500 if ck.tier == "quick" else 36000
  for _ in range(n):
    yield gen_case(rng, ck.tier)
  for _ in range(n // 6):
    yield gen_boundary_case(rng, ck.tier)
  for _ in range(n // 30):
    yield gen_linebreak_case(rng)


# ------------------------------------------------------------------ judging one case
def judge(ck, case, res, mo, state):
  grid, include = case["grid"], case["include"]
  rp = {k: case[k] for k in ("grid", "include", "delimiter", "quotechar", "lineterminator")}
  ck.count("tag:" + case["tag"])
  if res["std"] != grid:
    ck.count("skipped_writer_cannot_express_grid")
    return
  ck.evaluated()
  a, b = feat_late_wide(grid), feat_preamble(grid, include)
  c = res["rows"] != grid
  hyp = not a and not b and not c
  ck.count("hypotheses_hold" if hyp else "hypotheses_fail")
  if "error" in res:
    ck.violation("importer raised on a well-formed CSV file", res["error"], rp)
    return
  cols = res["cols"]
  bad = property_clauses(grid, include, cols)
  if bad:
    what, detail = bad
    if what == "typed":
      sig = "importer returned non-text values for a CSV file"
    elif c:
      sig = SIG_C
    elif b:
      sig = SIG_B
    elif a and property_clauses(clip_late(grid), include, cols) is None:
      sig = SIG_A
    else:
      sig = {"unequal": "columns of unequal length",
             "rowcount": "entries per column differ from the number of data rows (no preamble row)",
             "lost": "cell or header lost although the first row is full and no late row is wider than the sample"}[what]
    ck.count("oracle_fail:" + sig[:40])
    ck.violation(sig, detail, rp)
  elif c:
    # the reader lost the grid but the clauses hold?  cannot be: row counts differ
    ck.violation("reader rows differ from the grid", "rows %r" % (res["rows"][:3],), rp)
  if case["tag"].startswith("lean-witness") and not bad:
    ck.count("lean_witness_not_reproduced")
  # correspondence
  mc = model_cols(mo)
  rc = [(cid, list(d)) for (cid, _, d) in cols]
  if mc != rc:
    ck.count("model_impl_disagreements")
    if state.get("mism") is None:
      state["mism"] = {"case": rp, "impl": rc[:6], "model": mc[:6] if mc else mo}
  # non-trivial: a table came out, with at least 2 data rows and 2 kept columns, or it crosses the sample
  if (len(cols) >= 2 and len(cols[0][2]) >= 2) or len(grid) > 100:
    ck.nontrivial_case(rp)
    if hyp and len(grid) <= 6:
      ck.sample({"grid": grid, "include": include, "delimiter": case["delimiter"],
                 "quotechar": case["quotechar"], "columns": [(x[0], x[2]) for x in cols]})


def check_whitespace(ck):
  mo = ck.driver([{"m": "csvpost", "ws": True}])[0]
  py = [cp for cp in range(0x110000) if chr(cp).isspace()]
  py2 = [cp for cp in range(0x110000) if not (0xD800 <= cp < 0xE000) and ("x" + chr(cp) + "x").strip("x") and not chr(cp).strip()]
  ok = mo.get("ws") == py == py2
  ck.obligations.append(("whitespace set of the model == str.isspace()/str.strip() over all code points", ok,
                         "" if ok else "model %r python %r" % (mo.get("ws"), py)))


class Recorder(object):
  """What a worker process reports; same calls as `Check`, merged into the real one afterwards."""
  def __init__(self):
    self.counters = {}
    self.n_eval = 0
    self.viol = {}          # signature -> [count, detail, replay]
    self.order = []
    self.nontrivial = []
    self.samples = []
    self.mism = None

  def count(self, key, n=1):
    self.counters[key] = self.counters.get(key, 0) + n

  def evaluated(self, n=1):
    self.n_eval += n

  def violation(self, signature, detail, replay):
    v = self.viol.get(signature)
    if v is None:
      self.viol[signature] = [1, detail, replay]
      self.order.append(signature)
    else:
      v[0] += 1

  def nontrivial_case(self, obj):
    self.nontrivial.append(obj)

  def sample(self, obj):
    if len(self.samples) < 4:
      self.samples.append(obj)

  def merge_into(self, ck):
    for k, v in self.counters.items():
      ck.count(k, v)
    ck.evaluated(self.n_eval)
    for h in self.nontrivial:
      ck.nontrivial.add(h)
    for o in self.samples:
      ck.sample(o)
    for sig in self.order:
      n, detail, rp = self.viol[sig]
      recorded = ck.violation(sig, detail, rp)
      if n > 1:
        if recorded:
          for v in ck.violations:
            if v["signature"] == sig:
              v["count"] += n - 1
        else:
          ck.count("known_finding_hits", n - 1)


def work(arg):
  """Cases number i with i % nw == wi of the (deterministic) case stream: real importer, model, judge."""
  import hashlib
  import json
  from gx.common import Check
  tier, seed, wi, nw = arg
  gen = Check("C32", tier, seed)          # same seeded stream in every worker
  rec = Recorder()
  runner = Runner()
  state = {"mism": None}
  try:
    batch = []
    for i, case in enumerate(itertools.chain(cases(gen), [None])):
      if case is not None and i % nw == wi:
        batch.append((case, runner.run(case)))
      if batch and (case is None or len(batch) >= 400):
        mos = gen.driver([model_op(cs, rs["rows"]) for cs, rs in batch])
        for (cs, rs), mo in zip(batch, mos):
          judge(rec, cs, rs, mo, state)
        batch = []
  finally:
    runner.close()
  rec.mism = state["mism"]
  if True:      # ship hashes, not grids
    rec.nontrivial = [hashlib.sha1(json.dumps(o, sort_keys=True, default=str).encode()).hexdigest()
                      for o in rec.nontrivial]
  return rec


def run(ck):
  ck.rule = ("exhaustive grids of <=2 (quick) / <=3 (thorough) rows x 0..2 cells over {'', 'a', '1', ' '} x headers on/off; "
             "sampled 3..5-row grids; random rectangular/ragged grids (0..180 rows quick, ..1200 thorough, "
             "23% within +-4 rows of the 100-row sample) with delimiters/quotes/newlines/unicode/blank cells, "
             "explicit dialect; non-trivial = (>=2 kept columns and >=2 data rows) or more than 100 rows; distinct by "
             "(grid, headers setting, dialect)")
  ck.assumptions = [
    "file written by csv.writer(QUOTE_MINIMAL, doublequote) and imported with the same explicit dialect "
    "(delimiter, quotechar, doublequote, skipinitialspace=False, lineterminator), encoding utf-8, explicit headers setting",
    "csv.reader and Python float()/int() are parameters of the model (reader checked by oracle: rows == grid)",
    "non-empty cell = cell with a non-whitespace character (import_utils.empty)",
    "NUM_ROWS option absent",
  ]
  ck.lean(["GristProps.C32"])
  check_whitespace(ck)
  nw = 1 if ck.tier == "quick" else max(1, min(6, (os.cpu_count() or 2) - 1))
  if nw == 1:
    recs = [work((ck.tier, ck.seed, 0, 1))]
  else:
    import multiprocessing
    with multiprocessing.get_context("fork").Pool(nw) as pool:
      recs = pool.map(work, [(ck.tier, ck.seed, i, nw) for i in range(nw)])
  state = {"mism": None}
  for rec in recs:
    rec.merge_into(ck)
    if state["mism"] is None:
      state["mism"] = rec.mism
  if state["mism"] and not ck.has_impl_violation():
    ck.broken("correspondence import_csv.parse_file vs Grist.CsvPost.parse",
              "model and implementation differ; the property's clauses (outside the known findings) hold on "
              "all explored inputs", state["mism"])
  if ck.cov["counters"].get("lean_witness_not_reproduced"):
    ck.broken("Lean refutation witness no longer loses a cell on the real code",
              "the negation theorems in GristProps/C32.lean describe a defect the code no longer has; "
              "restate the property at full strength", None)


def replay(ck, rp):
  r = rp["replay"]
  if "case" in r and "grid" not in r:
    r = r["case"]
  case = dict(r)
  case.setdefault("tag", "replay")
  runner = Runner()
  try:
    res = runner.run(case)
  finally:
    runner.close()
  mo = ck.driver([model_op(case, res["rows"])])[0]
  state = {"mism": None}
  judge(ck, case, res, mo, state)
  print("replay: %d rows, headers=%r, delimiter=%r quotechar=%r" % (
    len(case["grid"]), case["include"], case["delimiter"], case["quotechar"]))
  print("  reader rows == grid: %r" % (res["rows"] == case["grid"],))
  print("  real output: %r" % (res.get("error") or [(c[0], c[2][:5] + (["..."] if len(c[2]) > 5 else []) + c[2][-2:] if len(c[2]) > 7 else c[2]) for c in res["cols"]][:8],))
  print("  property clauses: %r" % (("error" not in res and property_clauses(case["grid"], case["include"], res["cols"])) or "hold",))
  print("  model == implementation: %r" % (state["mism"] is None,))
  if state["mism"] and not ck.has_impl_violation() and not ck.known:
    ck.broken("correspondence import_csv.parse_file vs Grist.CsvPost.parse", "model and implementation differ", state["mism"])
  ck.nontrivial_case("replay")
  ck.lean(["GristProps.C32"])
