"""
C06  Formula results do not depend on evaluation order.

Theorems: GristProps/C06.lean about GristModel/Recalc.lean: two complete runs of the machine from
the same state end in the same store (schedule_independent_*), via uniqueness of the fixpoint on
acyclic documents and the cycle characterisation of C18 otherwise.
Tie: the engine's choice of the next work item is permuted (wrapper on
Engine._make_sorted_work_items; lookup nodes stay first, the engine's own rule); every permuted
run of the C18 graph family must be an accepted run of the machine (c18.py), and in histories every
evaluation must have read only clean cells (read audit).
Search (the property itself): every history is executed on k+1 engines, one with the engine's own
order and k with seeded permutations; after every bundle all tables must be identical and the
stored actions equal as multisets.
"""
import json
import random

from gx.props import _hist

PROP = "C06"
PROFILE = {"add_formula_column": 10, "modify_formula": 6, "summary": 4, "add_ref_column": 4, "update_record": 16,
           "bulk_update": 8, "remove_record": 6, "rename_column": 3, "modify_type": 3, "to_formula": 2,
           "undo_earlier": 2, "malformed": 2, "cyclic_formula": 4, "agg_unsorted": 4, "lookup_chain": 6, "column_cycle": 5,
           # an OLD undo list replayed on a document that has moved on is a raw application of doc actions: it can
           # remove a table under its summary table or a column under its references (a document violating C09);
           # such documents are outside this property's histories, as for C09 / C10 / C11 / C12
           "stale_undo": 0}
CFG = {"oracles": (), "n_bundles": 12, "profile": PROFILE, "hook": "gx.props.c06.install", "tie": False, "k": 3}


def g_cyclic_formula(self, w):
  """Make some formula column refer to another formula column of the same table (may close a cycle)."""
  t = self._table(w)
  if not t:
    return None
  fc = [c for c in w.formula_cols(t) if c["colId"] != "group"]
  if len(fc) < 1:
    return None
  a = self.rng.choice(fc)
  b = self.rng.choice(fc)
  return ["ModifyColumn", t["tableId"], a["colId"], {"formula": "$%s" % b["colId"]}]


def setup_unsorted(h):
  """Set-up bundles: rows, then an aggregate of a formula column over record sets whose ids are not ascending
  (Gen.g_agg_unsorted), then single-row edits of the aggregated column's input, so that the aggregate is
  evaluated while only SOME rows of the column it reads are dirty."""
  from gx.gen_hist import World
  rng, gen = h.rng, h.gen
  w = World(h.doc)
  for t in w.user_tables():
    k = rng.randint(3, 5)
    cols = w.data_cols(t)
    yield [["BulkAddRecord", t["tableId"], [None] * k,
            {c["colId"]: [gen.value_for(w, c, allow_bad=False) for _ in range(k)] for c in cols}]]
  for _ in range(3):
    ua = gen.g_agg_unsorted(World(h.doc))
    if isinstance(ua, tuple):
      yield ua[0]
      break
    if ua:
      yield [ua]
  for _ in range(rng.randint(3, 6)):
    w = World(h.doc)
    ts = [t for t in w.user_tables() if t["rows"]]
    if not ts:
      return
    t = rng.choice(ts)
    nums = [c for c in w.data_cols(t) if c["type"] in ("Int", "Numeric")]
    if nums:
      yield [["UpdateRecord", t["tableId"], rng.choice(t["rows"]), {rng.choice(nums)["colId"]: rng.randint(100, 999)}]]


def install(h, cfg):
  from gx import engine_driver as ed
  from gx import recalc_harness as rh
  from gx.gen_hist import Gen
  rh.install()
  r_ = h.rng.random()
  if r_ < 0.4:
    h.setup = setup_unsorted
  elif r_ < 0.75:
    # chains of lookups in which a formula column is itself a lookup key (several lookup indexes whose
    # relative order the engine's rule leaves open), followed by single-cell edits of the key cells
    from gx.props.c05 import setup_chain
    h.setup = setup_chain
  if not hasattr(Gen, "g_cyclic_formula"):
    Gen.g_cyclic_formula = g_cyclic_formula
  k = cfg.get("k", 3)
  mirrors = [(h.rng.randint(0, 10 ** 9), ed.Doc()) for _ in range(k)]
  orig_raw = h._raw
  state = {"dead": False}

  def raw(uas):
    res = orig_raw(uas)
    if state["dead"]:
      return res
    base = h.doc.snapshot()
    for (seed, m) in mirrors:
      with rh.Recording(perm_seed=seed + len(h.log), reads=True) as rec:
        r2 = m.apply(uas)
      h.stats["permuted_runs"] = h.stats.get("permuted_runs", 0) + 1
      fake = {"log_index": len(h.log) - 1, "actions": uas}
      bad = rh.dirty_read_violations(rec.reads)
      if bad:
        h._find(PROP, "an evaluation completed although it read a dirty cell (permuted schedule)", repr(bad[:2]), fake,
                {"perm_seed": seed + len(h.log)})
      if r2.ok != res.ok:
        h._find(PROP, "bundle succeeds under one evaluation order and fails under another",
                "engine order: %s; permuted: %s" % (res.error, r2.error), fake, {"perm_seed": seed + len(h.log)})
        state["dead"] = True
        return res
      d = ed.diff_snapshots(base, m.snapshot())
      if d:
        from gx.hist_run import circ_order_only, CIRC_ORDER_SIG
        sig = (CIRC_ORDER_SIG % "order") if circ_order_only(h.doc, d) else \
              ("table contents depend on the evaluation order: " + d[0].split(" ")[0] + " differs")
        h._find(PROP, sig,
                "; ".join(d[:3]) + " (first=engine order, second=permuted)", fake, {"perm_seed": seed + len(h.log)})
        state["dead"] = True
        return res
      if res.ok:
        a = sorted(json.dumps(x, sort_keys=True) for x in ed_norm(res.stored))
        b = sorted(json.dumps(x, sort_keys=True) for x in ed_norm(r2.stored))
        if a != b:
          sig = "stored actions differ by more than their order"
          if set(a) == set(b):
            sig = ("stored actions differ only in how many times an identical reference clean-up action is emitted "
                   "(a column is listed twice among a table's back references)")
          h._find(PROP, sig, first_multiset_diff(a, b), fake,
                  {"perm_seed": seed + len(h.log)})
          state["dead"] = True
          return res
        if len(res.stored) >= 3 and [json.dumps(x, sort_keys=True) for x in res.stored] != \
           [json.dumps(x, sort_keys=True) for x in r2.stored]:
          h.stats["order_differs"] = h.stats.get("order_differs", 0) + 1
    return res
  h._raw = raw
  h.extra_oracles.append(mark)


def mark(h, rec):
  st = rec["res"].steps or []
  if sum(1 for s in st if s[0] == "calc") >= 2:
    rec["nontrivial"] = True


def ed_norm(stored):
  from gx import engine_driver as ed
  return [ed.norm_action(a) for a in stored]


def first_multiset_diff(a, b):
  sa, sb = list(a), list(b)
  for x in list(sa):
    if x in sb:
      sa.remove(x); sb.remove(x)
  return "only engine order: %s ; only permuted: %s" % (sa[:2], sb[:2])


def run(ck):
  ck.rule = ("formula-heavy seeded histories incl. formulas made circular; each bundle applied to 1+3 engines (the engine's "
             "own work-item order and 3 seeded permutations that keep lookup nodes first); non-trivial = bundle with at "
             "least two calc deltas; distinct by user actions")
  ck.assumptions = ["permutations are applied where the engine chooses its initial work-item order "
                    "(_make_sorted_work_items); lookup indexes stay first, as the property allows",
                    "deterministic formulas only"]
  ck.lean(["GristProps.C06"])
  merged = _hist.run_histories(ck, CFG, n_quick=20, n_thorough=800)
  ck.extra["permuted_runs"] = merged["stats"].get("permuted_runs", 0)
  ck.extra["bundles_whose_stored_order_differed"] = merged["stats"].get("order_differs", 0)
  _hist.report(ck, merged, PROP, ())


def replay(ck, rp):
  ck.lean(["GristProps.C06"])
  import random
  from gx import common
  common.setup_repo_path()
  from gx.hist_run import HistoryRun
  r = rp["replay"]
  hist, idx = r["history"], r.get("bundle_index", len(r["history"]) - 1)
  h = HistoryRun(random.Random(r.get("seed", 0)), n_bundles=0, oracles=())
  install(h, dict(CFG, k=6))
  for b in hist[:idx + 1]:
    h._raw(b)
  for f in h.findings:
    print("replay finding:", f[0], f[1], f[2][:300])
    if f[0] == PROP:
      ck.violation(f[1], f[2], {"history": hist, "bundle_index": idx})
  if not h.findings:
    print("replay: property holds on this history (6 permutations)")
  ck.evaluated(); ck.nontrivial_case("replay"); ck.nontrivial_case("replay2")
