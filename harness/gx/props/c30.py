"""
C30  Outputs are deterministic across processes.

Theorems: GristProps/C30.lean: order-independence of the modelled sites that iterate unordered
containers - the calc flush (ActionSummary.convert_deltas_to_actions sorts tables and columns, so
its output does not depend on dict insertion order: flushAll_perm_invariant) and sorted lookup
results (row id is the last sort component: C14's lookup_sorted_unique).
Tie: the step-word correspondence (C01) makes the EngineModel a function of the recorded steps;
here the same histories are replayed in separate processes under different PYTHONHASHSEED values.
Search (the property itself): replies (stored, undo, direct, retValues; dicts compared as maps,
lists as lists) and all tables must be identical in every process, bundle by bundle.
Partial: sites outside the models (useractions cascades iterating sets of Records whose hash is
address-based) are only searched.
"""
import json
import os
import random
import subprocess
import sys

from gx import common

PROP = "C30"
PROFILE = {"remove_column": 6, "remove_table": 3, "summary": 4, "update_summary": 2, "display_formula": 3,
           "add_rule": 3, "remove_view_stuff": 4, "add_ref_column": 4, "reverse_column": 2, "rename_column": 4,
           "rename_table": 2, "duplicate_table": 1.5, "modify_type": 4, "bulk_remove": 5, "undo_earlier": 3}


def setup_set_iteration(h):
  """Set-up bundles for sites that iterate Python sets of strings: a summary table grouped by a ChoiceList
  column (one group per element of a cell), filled by cells that bring several NEW choices at once, by a
  RenameChoices merge and by two list-typed group-by columns (cartesian product of two sets)."""
  from gx.gen_hist import World
  rng, gen = h.rng, h.gen
  w = World(h.doc)
  ts = w.user_tables()
  if not ts:
    return
  t = rng.choice(ts)
  cl = [c for c in w.data_cols(t) if c["type"] == "ChoiceList"]
  while len(cl) < 2:
    name = gen.new_name()
    yield [["AddColumn", t["tableId"], name, {"type": "ChoiceList", "isFormula": False}]]
    w = World(h.doc)
    t = w.tables[t["tableId"]]
    cl = [c for c in w.data_cols(t) if c["type"] == "ChoiceList"]
  words = ["apple", "banana", "cherry", "date", "elder", "fig", "grape", "kiwi", "lime", "mango"]
  def cell():
    return ["L"] + rng.sample(words, rng.randint(2, 5))
  if rng.random() < 0.5:
    yield [["BulkAddRecord", t["tableId"], [None, None], {cl[0]["colId"]: [cell(), cell()], cl[1]["colId"]: [cell(), cell()]}]]
  gb = [cl[0]["ref"]] + ([cl[1]["ref"]] if rng.random() < 0.4 else [])
  yield [["CreateViewSection", t["ref"], 0, "record", gb, None]]
  yield [["BulkAddRecord", t["tableId"], [None, None, None],
          {cl[0]["colId"]: [cell(), cell(), cell()], cl[1]["colId"]: [cell(), cell(), cell()]}]]
  w = World(h.doc)
  t = w.tables[t["tableId"]]
  if t["rows"]:
    yield [["UpdateRecord", t["tableId"], rng.choice(t["rows"]), {cl[0]["colId"]: cell()}]]
    ren = dict((x, "merged") for x in rng.sample(words, 3))
    yield [["RenameChoices", t["tableId"], cl[0]["colId"], ren]]


def run(ck):
  common.setup_repo_path()
  from gx.hist_run import HistoryRun
  ck.rule = ("seeded histories generated once in the parent process and replayed in separate processes under "
             "PYTHONHASHSEED in {0,1,2} (quick) or 12 values (thorough) plus 'random'; non-trivial = history with at "
             "least 8 successful bundles; distinct by history")
  ck.assumptions = ["documents without time- or randomness-dependent formulas (generator emits none)",
                    "error replies are compared by exception class"]
  ck.lean(["GristProps.C30"])
  n_hist = 8 if ck.tier == "quick" else 200
  seeds = ["0", "1", "2"] if ck.tier == "quick" else [str(i) for i in range(11)] + ["random"]
  hists = []
  for i in range(n_hist):
    h = HistoryRun(random.Random("%s/%s/%d" % (PROP, ck.seed, i)), profile=PROFILE, n_bundles=14, oracles=())
    if i % 2 == 1:
      h.setup = setup_set_iteration
    h.run()
    hists.append(h.log)
    if h.stats["ok"] >= 8:
      ck.nontrivial_case(h.log)
    ck.evaluated(len(h.log))
  ck.sample({"history_head": hists[0][:4], "hash_seeds": seeds})
  chunks = [hists[i::4] for i in range(4)] if ck.tier != "quick" else [hists]
  results = {}
  procs = []
  for s in seeds:
    for ci, chunk in enumerate(chunks):
      env = dict(os.environ, PYTHONHASHSEED=s)
      p = subprocess.Popen(["/venv/bin/python", "-m", "gx.c30_child"], stdin=subprocess.PIPE, stdout=subprocess.PIPE,
                           stderr=subprocess.PIPE, env=env, text=True)
      procs.append((s, ci, p, chunk))
      if len(procs) >= 12:
        _drain(procs, results)
  _drain(procs, results)
  ck.count("processes", len(seeds) * len(chunks))
  base = seeds[0]
  for ci, chunk in enumerate(chunks):
    for hi, hist in enumerate(chunk):
      ref = results[(base, ci)][hi]
      for s in seeds[1:]:
        got = results[(s, ci)][hi]
        for bi, (a, b) in enumerate(zip(ref, got)):
          if a != b:
            what = "reply (stored/undo/direct/retValues)" if a[0] != b[0] else "table data"
            acts = "+".join(sorted(set(x[0] for x in hist[bi])))
            ck.violation("%s differs between PYTHONHASHSEED values after %s" % (what, acts),
                         "bundle %d of history; seeds %s vs %s" % (bi, base, s),
                         {"history": hist[:bi + 1], "hash_seeds": [base, s], "bundle_index": bi})
            break


def _drain(procs, results):
  for (s, ci, p, chunk) in procs:
    out, err = p.communicate(json.dumps(chunk), timeout=3000)
    if p.returncode != 0:
      raise common.Infra("c30 child failed (seed %s): %s" % (s, err[-500:]))
    results[(s, ci)] = json.loads(out)
  del procs[:]


def replay(ck, rp):
  ck.lean(["GristProps.C30"])
  r = rp["replay"]
  hist, seeds = r["history"], r["hash_seeds"]
  outs = []
  for s in seeds:
    p = subprocess.run(["/venv/bin/python", "-m", "gx.c30_child"], input=json.dumps([hist]), stdout=subprocess.PIPE,
                       stderr=subprocess.PIPE, env=dict(os.environ, PYTHONHASHSEED=str(s)), text=True, timeout=3000)
    outs.append(json.loads(p.stdout)[0])
  same = outs[0] == outs[1]
  print("replay: outputs %s under PYTHONHASHSEED %s" % ("identical" if same else "DIFFER", seeds))
  if not same:
    ck.violation("replies or data differ between PYTHONHASHSEED values (replay)", "seeds %r" % seeds, r)
  ck.evaluated(); ck.nontrivial_case("replay"); ck.nontrivial_case("replay2")
