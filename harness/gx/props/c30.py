"""
C30  Outputs are deterministic across processes.

Theorems: GristProps/C30.lean: order-independence of the modelled sites that iterate unordered
containers - the calc flush (ActionSummary.convert_deltas_to_actions sorts tables and columns, so
its output does not depend on dict insertion order: flushAll_perm_invariant) and sorted lookup
results (row id is the last sort component: C14's lookup_sorted_unique).
Tie: the step-word correspondence (C01) makes the EngineModel a function of the recorded steps;
here the same histories are replayed in separate processes under different PYTHONHASHSEED values.
Search (the property itself): replies (stored, undo, direct, retValues; dicts compared as maps,
lists as lists) and all tables must be identical in every process, bundle by bundle.
Partial: sites outside the models (useractions cascades iterating sets of Records whose hash is
address-based) are only searched.

Multi-item user actions (judged by the direct oracle ONLY - the Lean model starts at the doc-action level and does
not contain the user-action layer's per-item loops): ONE user action that names several columns / tables / view
items whose per-item side effects each emit doc actions.  The order of those doc actions must be a function of the
request, not of the iteration order of a set/dict keyed by strings.  Families (generators m_* below, mixed into the
"multi" histories, plus fixed witnesses):
  * data entered into >= 2 still-empty columns (isFormula with blank formula, as AddColumn creates them) of one
    table by ONE UpdateRecord / BulkUpdateRecord / AddRecord / BulkAddRecord / AddOrUpdateRecord (a pasted block):
    every empty column is converted (ModifyColumn + _grist_Tables_column updates);
  * >= 2 columns removed / renamed (colId or label) / retyped / converted by ONE BulkRemoveRecord or
    BulkUpdateRecord on _grist_Tables_column;
  * >= 2 tables removed / renamed / switched to onDemand by ONE action on _grist_Tables;
  * >= 2 widgets / fields / views / pages removed by ONE BulkRemoveRecord on the view metadata.
Each is followed (often) by the pseudo-bundle [["@undo", k]]: every process applies ITS OWN undo of bundle k, and
after it replies and data must again be identical.  A situation is counted (ck.count "multi:<tag>") only when the
parent's run really produced >= 2 per-item doc actions for it.
"""
import json
import os
import random
import subprocess
import sys

from gx import common

PROP = "C30"
PROFILE = {"remove_column": 6, "remove_table": 3, "summary": 4, "update_summary": 2, "display_formula": 3,
           "add_rule": 3, "remove_view_stuff": 4, "add_ref_column": 4, "reverse_column": 2, "rename_column": 4,
           "rename_table": 2, "duplicate_table": 1.5, "modify_type": 4, "bulk_remove": 5, "undo_earlier": 3}


def setup_set_iteration(h):
  """Set-up bundles for sites that iterate Python sets of strings: a summary table grouped by a ChoiceList
  column (one group per element of a cell), filled by cells that bring several NEW choices at once, by a
  RenameChoices merge and by two list-typed group-by columns (cartesian product of two sets)."""
  from gx.gen_hist import World
  rng, gen = h.rng, h.gen
  w = World(h.doc)
  ts = w.user_tables()
  if not ts:
    return
  t = rng.choice(ts)
  cl = [c for c in w.data_cols(t) if c["type"] == "ChoiceList"]
  while len(cl) < 2:
    name = gen.new_name()
    yield [["AddColumn", t["tableId"], name, {"type": "ChoiceList", "isFormula": False}]]
    w = World(h.doc)
    t = w.tables[t["tableId"]]
    cl = [c for c in w.data_cols(t) if c["type"] == "ChoiceList"]
  words = ["apple", "banana", "cherry", "date", "elder", "fig", "grape", "kiwi", "lime", "mango"]
  def cell():
    return ["L"] + rng.sample(words, rng.randint(2, 5))
  if rng.random() < 0.5:
    yield [["BulkAddRecord", t["tableId"], [None, None], {cl[0]["colId"]: [cell(), cell()], cl[1]["colId"]: [cell(), cell()]}]]
  gb = [cl[0]["ref"]] + ([cl[1]["ref"]] if rng.random() < 0.4 else [])
  yield [["CreateViewSection", t["ref"], 0, "record", gb, None]]
  yield [["BulkAddRecord", t["tableId"], [None, None, None],
          {cl[0]["colId"]: [cell(), cell(), cell()], cl[1]["colId"]: [cell(), cell(), cell()]}]]
  w = World(h.doc)
  t = w.tables[t["tableId"]]
  if t["rows"]:
    yield [["UpdateRecord", t["tableId"], rng.choice(t["rows"]), {cl[0]["colId"]: cell()}]]
    ren = dict((x, "merged") for x in rng.sample(words, 3))
    yield [["RenameChoices", t["tableId"], cl[0]["colId"], ren]]


# ------------------------------------------------------------------------------------------------------------------
# multi-item user actions: generators (look at the live document through World, every choice from the history's rng)
WORDS = ["alpha", "beta", "gamma", "delta", "epsilon", "zeta", "eta", "theta", "iota", "kappa", "lam", "mu", "nu", "xi",
         "omicron", "pi", "rho", "sigma", "tau", "upsilon", "phi", "chi", "psi", "omega", "amt", "qty", "name2", "note",
         "when", "who", "Total", "Z9", "k", "w"]
EMPTY_TYPES = [None, None, None, "Any", "Text", "Numeric", "Int", "Date", "Choice", "Bool"]
PASTE_VERBS = ["UpdateRecord", "BulkUpdateRecord", "BulkUpdateRecord", "AddRecord", "BulkAddRecord"]
# AddOrUpdateRecord is used for the LAST paste of a history only: its recorded finding (order of the conversions depends
# on the hash seed) leaves the processes with different column orders in the schema, so the comparison stops there
META_COLS, META_TABLES = "_grist_Tables_column", "_grist_Tables"
VIEW_META = ("_grist_Views_section", "_grist_Views_section_field", "_grist_Views", "_grist_Pages")


def _names(rng, used, k):
  out = []
  while len(out) < k:
    n = rng.choice(WORDS) + rng.choice(["", "", "", "_x", str(rng.randint(1, 99))])
    if n not in used and n not in out:
      out.append(n)
  return out


def _is_empty(c):
  return c["isFormula"] and not c["formula"]


def _paste_values(rng, typ, n):
  """n non-blank values for an empty column of type `typ` (None/'Any' = untyped: the engine guesses the type)."""
  if typ in (None, "Any"):
    kind = rng.choice(["int", "float", "text", "bool", "mixed", "numtext"])
  else:
    kind = {"Text": "text", "Numeric": "float", "Int": "int", "Date": "date", "Choice": "choice", "Bool": "bool"}.get(typ, "mixed")
  def one():
    if kind == "int": return rng.randint(1, 50)
    if kind == "float": return rng.randint(1, 200) / 4.0
    if kind == "text": return rng.choice(["x", "yy", "foo", "Bar", "q r"])
    if kind == "bool": return rng.choice([True, False])
    if kind == "date": return 86400 * rng.randint(1, 20000)
    if kind == "choice": return rng.choice(["a", "b", "c"])
    if kind == "numtext": return rng.choice(["12", "3.5", "7"])
    return rng.choice([1, "t", 2.5, "u"])
  return [one() for _ in range(n)]


def m_paste(h, w, verb=None):
  """Data entered by ONE record action into >= 2 still-empty columns of one table (a pasted block), possibly
  together with ordinary data columns; the empty columns are existing ones and/or freshly added ones."""
  rng, gen = h.rng, h.gen
  ts = w.user_tables()
  if not ts:
    return None
  t = rng.choice(ts)
  tid = t["tableId"]
  used = set(c["colId"] for c in t["cols"])
  have = [(c["colId"], c["type"]) for c in w.visible_cols(t) if _is_empty(c)]
  k = rng.choice([2, 2, 3, 3, 4, 5, 6])
  adds = []
  if len(have) < k or rng.random() < 0.5:
    new = _names(rng, used, max(k - (len(have) if rng.random() < 0.5 else 0), 1))
    for n in new:
      typ = rng.choice(EMPTY_TYPES)
      adds.append(["AddColumn", tid, n, ({"type": typ} if typ else {})])
      have.append((n, typ))
  cols = rng.sample(have, min(len(have), k))
  verb = verb or rng.choice(PASTE_VERBS)
  if not t["rows"] and verb in ("UpdateRecord", "BulkUpdateRecord"):
    verb = rng.choice(["AddRecord", "BulkAddRecord"])
  plain = [c for c in w.data_cols(t) if not c["isFormula"] and c["type"].split(":")[0] not in ("Ref", "RefList")]
  extra = rng.sample(plain, min(len(plain), rng.choice([0, 0, 1, 2])))
  if verb in ("UpdateRecord", "AddRecord", "AddOrUpdateRecord"):
    n = 1
  elif verb == "BulkUpdateRecord":
    n = rng.randint(1, min(4, len(t["rows"])))
  else:
    n = rng.randint(2, 4)
  items = [(c, _paste_values(rng, typ, n)) for c, typ in cols] + \
          [(c["colId"], [gen.value_for(w, c, allow_bad=False) for _ in range(n)]) for c in extra]
  rng.shuffle(items)
  vals = dict(items)
  one = dict((c, v[0]) for c, v in items)
  if verb == "UpdateRecord":
    ua = ["UpdateRecord", tid, rng.choice(t["rows"]), one]
  elif verb == "BulkUpdateRecord":
    ua = ["BulkUpdateRecord", tid, rng.sample(t["rows"], n), vals]
  elif verb == "AddRecord":
    ua = ["AddRecord", tid, None, one]
  elif verb == "BulkAddRecord":
    ua = ["BulkAddRecord", tid, [None] * n, vals]
  else:
    keyc = [c for c in plain if c["colId"] not in one]
    if keyc:
      kc = rng.choice(keyc)
      ua = ["AddOrUpdateRecord", tid, {kc["colId"]: gen.value_for(w, kc, allow_bad=False)}, one, {}]
    else:
      ua = ["AddRecord", tid, None, one]
  if not adds:
    return [[ua]]
  r = rng.random()
  if r < 0.4:
    return [adds + [ua]]                      # the columns are added and filled within one bundle
  if r < 0.7:
    return [adds, [ua]]
  return [[a] for a in adds] + [[ua]]


def _col_cands(w, tables):
  out = []
  for t in tables:
    for c in w.visible_cols(t):
      if not c["summarySourceCol"] and c["colId"] != "group":
        out.append(c)
  return out


def m_cols(h, w):
  """ONE BulkRemoveRecord / BulkUpdateRecord on _grist_Tables_column naming >= 2 columns (of one table, sometimes of
  two tables): removal, renaming through colId or label, type change, formula<->data conversion, formula change."""
  rng = h.rng
  ts = list(w.tables.values()) if rng.random() < 0.25 else w.user_tables()
  if not ts:
    return None
  ts = rng.sample(ts, min(len(ts), rng.choice([1, 1, 1, 2])))
  cands = _col_cands(w, ts)
  if len(cands) < 2:
    t = ts[0]
    return [[["AddColumn", t["tableId"], n, {"type": rng.choice(["Text", "Int", "Numeric"]), "isFormula": False}]
             for n in _names(rng, set(c["colId"] for c in t["cols"]), 3)]]
  op = rng.choice(["remove", "remove", "rename", "rename", "label", "retype", "to_data", "formula"])
  if op == "to_data":
    fc = [c for c in cands if c["isFormula"]]
    cands = fc if len(fc) >= 2 else cands
    if len(fc) < 2:
      op = "retype"
  if op == "formula":
    fc = [c for c in cands if c["isFormula"]]
    if len(fc) < 2:
      op = "rename"
    else:
      cands = fc
  k = min(len(cands), rng.choice([2, 2, 3, 3, 4, 5]))
  if op == "remove" and len(ts) == 1 and len(cands) - k < 1 and k > 2:
    k -= 1
  cols = rng.sample(cands, k)
  refs = [c["ref"] for c in cols]
  if op == "remove":
    return [[["BulkRemoveRecord", META_COLS, refs]]]
  if op in ("rename", "label"):
    used = set(c["colId"] for t in ts for c in t["cols"])
    new = _names(rng, used, k)
    if rng.random() < 0.15:
      new[1] = new[0]               # two columns renamed to the same name: the engine must disambiguate
    return [[["BulkUpdateRecord", META_COLS, refs, {"colId" if op == "rename" else "label": new}]]]
  if op == "retype":
    return [[["BulkUpdateRecord", META_COLS, refs, {"type": [rng.choice(["Text", "Int", "Numeric", "Any", "Choice"])
                                                               for _ in cols]}]]]
  if op == "to_data":
    return [[["BulkUpdateRecord", META_COLS, refs, {"isFormula": [False] * k}]]]
  return [[["BulkUpdateRecord", META_COLS, refs, {"formula": [rng.choice(["$id", "$id * 2", "'f%s' % $id", "1"]) for _ in cols]}]]]


def m_tables(h, w):
  """ONE BulkRemoveRecord / BulkUpdateRecord on _grist_Tables naming >= 2 tables (removal, renaming, onDemand with
  empty columns to convert).  Builds further tables (with references into the existing ones, formulas that name other
  tables and empty columns) while there are fewer than three."""
  rng, gen = h.rng, h.gen
  ts = w.user_tables()
  if len(ts) < 3 or (len(ts) < 5 and rng.random() < 0.35):
    name = _names(rng, set(w.tables), 1)[0].capitalize() + "T"
    cn = _names(rng, set(), 4)
    cols = [{"id": cn[0], "type": rng.choice(["Text", "Int", "Choice"]), "isFormula": False, "formula": ""},
            {"id": cn[1], "type": "Any", "isFormula": True, "formula": ""}]
    if ts:
      tgt = rng.choice(ts)
      cols.append({"id": cn[2], "type": "%s:%s" % (rng.choice(["Ref", "RefList"]), tgt["tableId"]), "isFormula": False,
                   "formula": ""})
      cols.append({"id": cn[3], "type": "Any", "isFormula": True, "formula": "len(%s.lookupRecords())" % tgt["tableId"]})
    else:
      cols.append({"id": cn[2], "type": "Any", "isFormula": True, "formula": ""})
    return [[["AddTable", name, cols], ["BulkAddRecord", name, [None, None], {cn[0]: [gen.value_for(w, cols[0], False),
                                                                                      gen.value_for(w, cols[0], False)]}]]]
  op = rng.choice(["remove", "rename", "rename", "ondemand"])
  k = min(len(ts) - (1 if op == "remove" else 0), rng.choice([2, 2, 3]))
  pick = rng.sample(ts, k)
  refs = [t["ref"] for t in pick]
  if op == "remove":
    return [[["BulkRemoveRecord", META_TABLES, refs]]]
  if op == "rename":
    new = [n.capitalize() + "R" for n in _names(rng, set(x.lower() for x in w.tables), k)]
    return [[["BulkUpdateRecord", META_TABLES, refs, {"tableId": new}]]]
  pre = []
  for t in pick:
    if sum(1 for c in w.visible_cols(t) if _is_empty(c)) < 2:
      pre.extend(["AddColumn", t["tableId"], n, {}] for n in _names(rng, set(c["colId"] for c in t["cols"]), 2))
  out = [pre] if pre else []
  return out + [[["BulkUpdateRecord", META_TABLES, refs, {"onDemand": [True] * k}]]]


def m_views(h, w):
  """ONE BulkRemoveRecord naming >= 2 widgets / fields / views / pages; builds pages and widgets while scarce."""
  rng = h.rng
  secs = [s for s in w.sections if s.get("parentId")]
  tables = [t for t in w.tables.values()]
  if len(secs) < 3 and tables:
    t = rng.choice(tables)
    return [[["CreateViewSection", t["ref"], 0, "record", None, None]],
            [["CreateViewSection", rng.choice(tables)["ref"], rng.choice([0] + [v["id"] for v in w.views]), "detail", None, None]]]
  op = rng.choice(["sections", "fields", "fields", "views", "pages"])
  if op == "sections":
    return [[["BulkRemoveRecord", "_grist_Views_section", [s["id"] for s in rng.sample(secs, rng.choice([2, 2, 3]))]]]]
  if op == "fields":
    ok = set(s["id"] for s in secs)
    fs = [f["id"] for f in w.fields if f.get("parentId") in ok]
    if len(fs) >= 2:
      return [[["BulkRemoveRecord", "_grist_Views_section_field", rng.sample(fs, min(len(fs), rng.choice([2, 3, 4])))]]]
  if op == "views" and len(w.views) >= 3:
    return [[["BulkRemoveRecord", "_grist_Views", [v["id"] for v in rng.sample(w.views, 2)]]]]
  if len(w.pages) >= 3:
    return [[["BulkRemoveRecord", "_grist_Pages", [p["id"] for p in rng.sample(w.pages, 2)]]]]
  return None


def m_decor(h, w):
  """Things that make the cascades of the bulk actions non-trivial: conditional-style rules on several columns,
  formulas that read several columns, sort specs that name several columns."""
  rng = h.rng
  ts = w.user_tables()
  if not ts:
    return None
  t = rng.choice(ts)
  vis = w.visible_cols(t)
  if len(vis) < 2:
    return None
  r = rng.random()
  if r < 0.4:
    return [[["AddEmptyRule", t["tableId"], None, c["ref"]] for c in rng.sample(vis, min(len(vis), 3))]]
  if r < 0.8:
    a = rng.sample(vis, min(len(vis), 3))
    f = "[%s]" % ", ".join("$" + c["colId"] for c in a)
    return [[["AddColumn", t["tableId"], _names(rng, set(c["colId"] for c in t["cols"]), 1)[0],
              {"type": "Any", "isFormula": True, "formula": f}]]]
  cards = set(x.get("recordCardViewSectionRef") for x in h.doc.meta("_grist_Tables"))      # not modifiable
  secs = [s for s in w.sections if s.get("tableRef") == t["ref"] and s["id"] not in cards]
  if not secs:
    return None
  spec = json.dumps([c["ref"] * rng.choice([1, -1]) for c in rng.sample(vis, min(len(vis), 3))])
  return [[["BulkUpdateRecord", "_grist_Views_section", [s["id"] for s in secs], {"sortColRefs": [spec] * len(secs)}]]]


MULTI_WEIGHTS = {"m_paste": 10, "m_cols": 7, "m_tables": 4, "m_views": 2, "m_decor": 3}


def situations(uas, res):
  """Tags of the multi-item situations that one bundle REALLY exercised: named by the request and confirmed by
  >= 2 per-item doc actions among the stored actions of the (successful) bundle."""
  tags = set()
  if not res.ok:
    return tags
  st = res.raw_stored
  def n_of(name, pred=lambda a: True):
    return len(set(json.dumps(a[1:3], default=repr) for a in st if a[0] == name and pred(a)))
  for ua in uas:
    name, tid = ua[0], (ua[1] if len(ua) > 1 else None)
    if not isinstance(tid, str):
      continue
    if name in ("UpdateRecord", "BulkUpdateRecord", "AddRecord", "BulkAddRecord", "AddOrUpdateRecord") \
       and not tid.startswith("_grist_"):
      named = set(ua[3]) if isinstance(ua[3], dict) else set()
      if name == "AddOrUpdateRecord" and isinstance(ua[2], dict):
        named |= set(ua[2])
      conv = set(a[2] for a in st if a[0] == "ModifyColumn" and a[1] == tid and a[2] in named
                 and isinstance(a[3], dict) and a[3].get("isFormula") is False)
      if len(conv) >= 2:
        tags.add("empty_cols_filled:" + name)
    elif tid == META_COLS and name in ("BulkRemoveRecord", "BulkUpdateRecord") and len(ua[2]) >= 2:
      if name == "BulkRemoveRecord":
        if n_of("RemoveColumn") >= 2:
          tags.add("cols_removed")
      else:
        keys = set(ua[3])
        if keys & {"colId", "label"} and n_of("RenameColumn") >= 2:
          tags.add("cols_renamed")
        if keys & {"type", "isFormula", "formula"} and n_of("ModifyColumn") >= 2:
          tags.add("cols_modified")
    elif tid == META_TABLES and name in ("BulkRemoveRecord", "BulkUpdateRecord") and len(ua[2]) >= 2:
      if name == "BulkRemoveRecord":
        if n_of("RemoveTable") >= 2:
          tags.add("tables_removed")
      else:
        if "tableId" in ua[3] and n_of("RenameTable") >= 2:
          tags.add("tables_renamed")
        if "onDemand" in ua[3] and n_of("ModifyColumn") >= 2:
          tags.add("tables_ondemand_empty_cols")
    elif tid in VIEW_META and name == "BulkRemoveRecord" and len(ua[2]) >= 2:
      if sum(len(a[2]) for a in st if a[0] == "BulkRemoveRecord" and a[1] in VIEW_META) + \
         sum(1 for a in st if a[0] == "RemoveRecord" and a[1] in VIEW_META) >= 2:
        tags.add("view_items_removed")
  return tags


class Multi(object):
  """One 'multi' history: a few tables with rows, then mostly multi-item bundles mixed with the ordinary generator,
  many of them followed by the undo pseudo-bundle."""
  def __init__(self, rng, n_steps):
    from gx.hist_run import HistoryRun
    self.h = HistoryRun(rng, profile=PROFILE, n_bundles=0, oracles=())
    self.rng = rng
    self.n_steps = n_steps
    self.tags = {}            # log index -> sorted tags

  def apply(self, uas):
    h = self.h
    rec = h.apply(uas, ["multi"])
    tg = situations(uas, rec["res"])
    if tg:
      self.tags[rec["log_index"]] = sorted(tg)
    return rec

  def undo(self, rec):
    """Pseudo-bundle: every process undoes bundle k with ITS OWN undo list."""
    h, res = self.h, rec["res"]
    if not res.ok or not res.raw_undo:
      return
    h.doc.apply([["ApplyUndoActions", res.raw_undo]])
    h.log.append([["@undo", rec["log_index"]]])

  def run(self):
    from gx.gen_hist import World
    h, rng = self.h, self.rng
    for b in h.gen.initial_bundles(n_tables=rng.choice([2, 3])):
      self.apply(b)
    for t in World(h.doc).user_tables():
      w = World(h.doc)
      k = rng.randint(2, 4)
      self.apply([["BulkAddRecord", t["tableId"], [None] * k,
                   dict((c["colId"], [h.gen.value_for(w, c, False) for _ in range(k)]) for c in w.data_cols(t))]])
    for _ in range(self.n_steps):
      w = World(h.doc)
      if rng.random() < 0.2:
        uas, _kinds = h.gen.bundle(h.doc)
        if uas:
          self.apply(uas)
        continue
      from gx.gen_hist import wchoice
      bundles = globals()[wchoice(rng, MULTI_WEIGHTS)](h, w)
      if not bundles:
        continue
      for b in bundles:
        rec = self.apply(b)
      r = rng.random()
      if r < 0.45:
        self.undo(rec)
        if rng.random() < 0.5:
          self.apply(bundles[-1])            # the same request again, on the restored document
    if rng.random() < 0.6:
      for b in m_paste(h, World(h.doc), verb="AddOrUpdateRecord") or []:
        rec = self.apply(b)
      self.undo(rec)
    return self


def witnesses():
  """Fixed histories (no randomness): the smallest documents that reach every multi-item family."""
  cols5 = ["alpha", "beta", "gamma", "delta", "epsilon"]
  base = [[["AddTable", "T", [{"id": "name", "type": "Text", "isFormula": False, "formula": ""},
                              {"id": "size", "type": "Any", "isFormula": True, "formula": "len($name)"}]]],
          [["BulkAddRecord", "T", [None, None, None], {"name": ["x", "yy", "zzz"]}]]]
  def fresh(cols, typed=False):
    return [[["AddColumn", "T", c, ({"type": ["Text", "Numeric", "Int"][i % 3]} if typed else {})]] for i, c in enumerate(cols)]
  def block(cols, n):
    return dict((c, [("%s-%d" % (c, r) if i % 2 == 0 else 10 * i + r) for r in range(1, n + 1)]) for i, c in enumerate(cols))
  out = []
  # 1. a block pasted into five fresh columns by BulkUpdateRecord; undone; entered again row by row
  h = base + fresh(cols5)
  h.append([["BulkUpdateRecord", "T", [1, 2, 3], block(cols5, 3)]])
  h.append([["@undo", len(h) - 1]])
  h.append([["UpdateRecord", "T", 2, dict((c, v[0]) for c, v in block(list(reversed(cols5)), 1).items())]])
  out.append(h)
  # 2. new records that bring values for several fresh columns (typed and untyped)
  c4 = ["omega", "psi", "chi", "phi"]
  h = base + fresh(c4, typed=True)
  h.append([["AddRecord", "T", None, {"psi": 2.5, "omega": "o", "name": "n", "phi": "p", "chi": 4}]])
  h.append([["@undo", len(h) - 1]])
  h.append([["BulkAddRecord", "T", [None, None], {"chi": [1, 2], "phi": ["a", "b"], "omega": ["c", "d"], "psi": [0.5, 1.5]}]])
  h.append([["@undo", len(h) - 1]])
  h.append([["AddOrUpdateRecord", "T", {"name": "yy"}, {"phi": "u", "psi": 7, "chi": 8, "omega": "w"}, {}]])
  out.append(h)
  # 3. several columns renamed / retyped / removed by one action on _grist_Tables_column (refs: name=2, size=3, then 4..)
  c3 = ["kappa", "lam", "mu"]
  h = base + [[["AddColumn", "T", c, {"type": "Int", "isFormula": False}] for c in c3],
              [["AddColumn", "T", "tot", {"type": "Any", "isFormula": True, "formula": "$kappa + $lam + $mu"}]],
              [["AddEmptyRule", "T", None, 4], ["AddEmptyRule", "T", None, 5], ["AddEmptyRule", "T", None, 6]]]
  h.append([["BulkUpdateRecord", META_COLS, [6, 4, 5], {"colId": ["zeta", "eta", "theta"]}]])
  h.append([["@undo", len(h) - 1]])
  h.append([["BulkUpdateRecord", META_COLS, [5, 6, 4], {"label": ["Rho", "Sigma", "Tau"]}]])
  h.append([["BulkUpdateRecord", META_COLS, [4, 6, 5], {"type": ["Text", "Numeric", "Text"]}]])
  h.append([["BulkRemoveRecord", META_COLS, [6, 4, 5]]])
  h.append([["@undo", len(h) - 1]])
  out.append(h)
  # 4. several tables renamed / switched to onDemand / removed by one action on _grist_Tables
  h = []
  for i, tn in enumerate(["Orders", "Items", "People"]):
    cols = [{"id": "k", "type": "Text", "isFormula": False, "formula": ""},
            {"id": "e1", "type": "Any", "isFormula": True, "formula": ""},
            {"id": "e2", "type": "Any", "isFormula": True, "formula": ""}]
    if i:
      cols.append({"id": "r", "type": "Ref:Orders", "isFormula": False, "formula": ""})
      cols.append({"id": "n", "type": "Any", "isFormula": True, "formula": "len(Orders.lookupRecords(k=$k))"})
    h.append([["AddTable", tn, cols], ["BulkAddRecord", tn, [None, None], {"k": ["a", "b"]}]])
  h.append([["BulkUpdateRecord", META_TABLES, [3, 1, 2], {"tableId": ["Persons", "Purchases", "Things"]}]])
  h.append([["@undo", len(h) - 1]])
  h.append([["BulkUpdateRecord", META_TABLES, [2, 3, 1], {"onDemand": [True, True, True]}]])
  h.append([["@undo", len(h) - 1]])
  h.append([["BulkRemoveRecord", META_TABLES, [3, 2]]])
  h.append([["@undo", len(h) - 1]])
  out.append(h)
  # 5. / 6. cascades that go through sets of Records: columns named by the sort specs of several widgets removed by one
  #    action (recorded finding); a group-by source column of three summary tables renamed (the summary tables are
  #    renamed: in set order until the fix dbe5f92 in /repo, a regression witness since)
  h = [[["AddTable", "S", [{"id": "a", "type": "Text", "isFormula": False, "formula": ""},
                           {"id": "b", "type": "Text", "isFormula": False, "formula": ""},
                           {"id": "c", "type": "Int", "isFormula": False, "formula": ""}]]],
       [["BulkAddRecord", "S", [None, None, None], {"a": ["x", "y", "x"], "b": ["p", "p", "q"], "c": [1, 2, 3]}]],
       [["CreateViewSection", 1, 0, "record", None, None]], [["CreateViewSection", 1, 0, "record", None, None]],
       [["CreateViewSection", 1, 0, "record", None, None]],
       [["BulkUpdateRecord", "_grist_Views_section", [1, 2, 4, 5, 6], {"sortColRefs": ["[3, 4]", "[4]", "[-3]", "[4, 3]", "[3]"]}]],
       [["BulkRemoveRecord", META_COLS, [4, 3]]]]
  h.append([["@undo", len(h) - 1]])
  out.append(h)
  h = h[:2]
  h += [[["CreateViewSection", 1, 0, "record", [2], None]], [["CreateViewSection", 1, 0, "record", [2, 3], None]],
        [["CreateViewSection", 1, 0, "record", [2, 4], None]],
        [["UpdateRecord", META_COLS, 2, {"label": "Area"}]]]
  h.append([["@undo", len(h) - 1]])
  out.append(h)
  return out


def run_witness(hist):
  """Parent-side run of a fixed history (for the situation tags and the counters)."""
  from gx import engine_driver as ed
  doc = ed.Doc()
  tags, undo, n_ok = {}, {}, 0
  for bi, b in enumerate(hist):
    if b[0][0] == "@undo":
      if undo.get(b[0][1]):
        doc.apply([["ApplyUndoActions", undo[b[0][1]]]], record=False)
      continue
    r = doc.apply(b, record=False)
    n_ok += bool(r.ok)
    undo[bi] = r.raw_undo if r.ok else None
    tg = situations(b, r)
    if tg:
      tags[bi] = sorted(tg)
  return tags, n_ok


# ------------------------------------------------------------------------------------------------------------------
CHILD = ["/venv/bin/python", "-m", "gx.props.c30"]


def _head(a):
  x = a[2] if len(a) > 2 else None
  if isinstance(x, list):
    x = x[:64] if all(isinstance(i, int) for i in x) else None
  elif not isinstance(x, (str, int)):
    x = None
  extra = sorted(a[3]) if len(a) > 3 and isinstance(a[3], dict) and a[0] in ("ModifyColumn", "BulkUpdateRecord", "UpdateRecord") else None
  return [a[0], a[1] if len(a) > 1 else None, x, extra]


def child_main():
  """Child process: replays the histories given on stdin on fresh engines under THIS process's PYTHONHASHSEED; per
  bundle: digest of the reply, digest of all tables, and the heads of the stored / undo actions (for the report)."""
  import hashlib
  common.setup_repo_path()
  from gx import engine_driver as ed
  hists = json.load(sys.stdin)
  out = []
  for hist in hists:
    doc = ed.Doc()
    res_list = []
    undos = {}
    for bi, b in enumerate(hist):
      if len(b) == 1 and b[0] and b[0][0] == "@undo":
        u = undos.get(b[0][1])
        if not u:
          res_list.append(["no-undo", res_list[-1][1] if res_list else "", [], []])
          continue
        b = [["ApplyUndoActions", u]]
      r = doc.apply(b, record=False)
      undos[bi] = r.raw_undo if r.ok else None
      reply = [r.ok, (r.error[0] if r.error else None), r.raw_stored, r.raw_undo, r.direct, r.ret]
      rep = json.dumps(reply, sort_keys=True, default=repr)
      snap = json.dumps(doc.snapshot(), sort_keys=True)
      res_list.append([hashlib.sha1(rep.encode()).hexdigest(), hashlib.sha1(snap.encode()).hexdigest(),
                       [_head(a) for a in (r.raw_stored or [])] if r.ok else [r.error[0]],
                       [_head(a) for a in (r.raw_undo or [])] if r.ok else []])
    out.append(res_list)
  json.dump(out, sys.stdout)


def _first_diff(a, b, s0, s1):
  """Human-readable first difference between two per-bundle child results."""
  for what, i in (("stored", 2), ("undo", 3)):
    x, y = a[i], b[i]
    for j in range(max(len(x), len(y))):
      p, q = (x[j] if j < len(x) else None), (y[j] if j < len(y) else None)
      if p != q:
        cols = lambda l: [e[2] for e in l if e and e[0] in ("ModifyColumn", "RemoveColumn", "RenameColumn", "RemoveTable", "RenameTable")
                          and isinstance(e[2], str)][:8]
        return "%s[%d]: %r under seed %s vs %r under seed %s; order of per-item schema actions: %r vs %r" % (
          what, j, p, s0, q, s1, cols(x), cols(y))
  if a[0] != b[0]:
    return "same action heads, different values inside the stored/undo/direct/retValues lists"
  return "replies identical, table contents differ"


UPSERT_SIG = ("reply differs between PYTHONHASHSEED values only in the ORDER of the empty-column conversions made by one "
              "[Bulk]AddOrUpdateRecord whose values name several still-empty columns (data identical)")
SORTSPEC_ROWS_SIG = ("reply differs between processes only in the ROW ORDER of the BulkUpdateRecord that rewrites sortColRefs "
                     "of several widgets when columns are removed (data identical)")
UPSERT_TAGS = ("empty_cols_filled:AddOrUpdateRecord", "empty_cols_filled:BulkAddOrUpdateRecord")


def order_only_findings(tg, a, b, tid_cols):
  """Attribution of a cross-process difference to the recorded order-only findings.  Returns the set of their
  signatures, or None when the difference is not FULLY explained by them.  Common conditions: all tables identical;
  the stored lists (and the undo lists) contain the same actions (as multisets of heads, the row list of a sortColRefs
  update taken as a set); once the actions below are taken out, the remaining sequences are identical:
   * upsert: only if the bundle's sole multi-item situation is an [Bulk]AddOrUpdateRecord filling several empty
     columns - ModifyColumn of a column named by it, updates of _grist_Tables_column, the update of the table that
     rewrites ONE named column with its converted values;
   * sort specs: BulkUpdateRecord of _grist_Views_section that sets sortColRefs only (row order ignored)."""
  if a[1] != b[1]:
    return None
  key = lambda e: json.dumps(e, sort_keys=True)
  upsert_ok = bool(tg) and all(t in UPSERT_TAGS for t in tg)
  def is_sort(e):
    return e[0] == "BulkUpdateRecord" and e[1] == "_grist_Views_section" and e[3] == ["sortColRefs"] and isinstance(e[2], list)
  def is_conv(e):
    return upsert_ok and ((e[0] == "ModifyColumn" and (e[1], e[2]) in tid_cols) or
                          (e[0] in ("UpdateRecord", "BulkUpdateRecord") and e[1] == META_COLS) or
                          (e[0] in ("UpdateRecord", "BulkUpdateRecord") and e[3] and len(e[3]) == 1 and (e[1], e[3][0]) in tid_cols))
  def norm(l):
    return [[e[0], e[1], sorted(e[2]), e[3]] if is_sort(e) else e for e in l]
  found = set()
  for i in (2, 3):
    x, y = a[i], b[i]
    if any(not isinstance(e, list) for e in x + y):         # an error reply
      return None
    if sorted(map(key, norm(x))) != sorted(map(key, norm(y))):
      return None
    if [e for e in norm(x) if not is_conv(e)] != [e for e in norm(y) if not is_conv(e)]:
      return None
    if [e for e in x if is_sort(e)] != [e for e in y if is_sort(e)]:
      found.add(SORTSPEC_ROWS_SIG)
    if [e for e in x if is_conv(e)] != [e for e in y if is_conv(e)]:
      found.add(UPSERT_SIG)
  return found or None


def _upsert_cols(bundle):
  out = set()
  for ua in bundle:
    if ua[0] in ("AddOrUpdateRecord", "BulkAddOrUpdateRecord") and isinstance(ua[2], dict) and isinstance(ua[3], dict):
      out |= set((ua[1], c) for c in list(ua[2]) + list(ua[3]))
  return out


def run(ck):
  import concurrent.futures
  common.setup_repo_path()
  from gx.hist_run import HistoryRun
  ck.rule = ("seeded histories generated once in the parent process and replayed in separate processes under "
             "PYTHONHASHSEED in {0,1,2} (quick) or 11 values plus 'random' (thorough): general histories, 'multi' histories "
             "(mostly multi-item user actions, many followed by an undo pseudo-bundle) and six fixed witness histories; "
             "non-trivial = history with at least 8 successful bundles; distinct by history")
  ck.assumptions = ["documents without time- or randomness-dependent formulas (generator emits none)",
                    "error replies are compared by exception class",
                    "multi-item user actions (one record action filling several empty columns; one action on "
                    "_grist_Tables_column / _grist_Tables / view metadata naming several columns / tables / widgets) are "
                    "judged by the direct oracle only (cross-process equality of replies and data, bundle by bundle): the "
                    "Lean model starts below the user-action layer and does not contain its per-item loops",
                    "the undo pseudo-bundle applies, in every process, that process's own undo list of the named bundle",
                    "the comparison of a history under one pair of processes stops at the first difference, also when it is fully "
                    "attributed to the recorded order-only findings (AddOrUpdateRecord conversions, sortColRefs row "
                    "order): the tables are identical then, but the order of columns / tables in the schema may "
                    "not be; AddOrUpdateRecord pastes are therefore generated as the last step of a multi history only"]
  ck.lean(["GristProps.C30"])
  quick = ck.tier == "quick"
  n_hist = 8 if quick else 200
  n_multi = 6 if quick else 60
  seeds = ["0", "1", "2"] if quick else [str(i) for i in range(11)] + ["random"]
  extra_seeds = []                                        # (optional) further seeds for the multi-item histories only
  per_job = 8 if quick else 16
  hists, tagmap = [], []
  pool = concurrent.futures.ThreadPoolExecutor(max_workers=min(14, (os.cpu_count() or 2)))
  futs = []

  def child(s, idxs):
    p = subprocess.run(CHILD, input=json.dumps([hists[hi] for hi in idxs]), stdout=subprocess.PIPE, stderr=subprocess.PIPE,
                       env=dict(os.environ, PYTHONHASHSEED=s), text=True, timeout=3000)
    return s, idxs, p.returncode, p.stdout, p.stderr

  def submit(idxs, ss):
    for s in ss:
      for i in range(0, len(idxs), per_job):
        futs.append(pool.submit(child, s, idxs[i:i + per_job]))

  for i in range(n_hist):
    h = HistoryRun(random.Random("%s/%s/%d" % (PROP, ck.seed, i)), profile=PROFILE, n_bundles=14, oracles=())
    if i % 2 == 1:
      h.setup = setup_set_iteration
    h.run()
    hists.append(h.log)
    tags = {}
    for rec in h.bundles:
      tg = situations(rec["actions"], rec["res"])
      if tg:
        tags[rec["log_index"]] = sorted(tg)
    tagmap.append(tags)
    if h.stats["ok"] >= 8:
      ck.nontrivial_case(h.log)
    ck.evaluated(len(h.log))
    if len(hists) % per_job == 0 or i == n_hist - 1:
      submit(list(range(len(hists) - ((len(hists) - 1) % per_job) - 1, len(hists))), seeds)
  ck.sample({"history_head": hists[0][:4], "hash_seeds": seeds})
  n_general = len(hists)
  for wh in witnesses():
    tags, n_ok = run_witness(wh)
    hists.append(wh)
    tagmap.append(tags)
    ck.count("witness_histories")
    if n_ok >= 8:
      ck.nontrivial_case(wh)
    ck.evaluated(len(wh))
  n_sub = n_general
  for i in range(n_multi):
    m = Multi(random.Random("%s/multi/%s/%d" % (PROP, ck.seed, i)), n_steps=10).run()
    hists.append(m.h.log)
    tagmap.append(m.tags)
    ck.count("multi_histories")
    if m.h.stats["ok"] >= 8:
      ck.nontrivial_case(m.h.log)
    ck.evaluated(len(m.h.log))
    if m.tags:
      bi = min(m.tags)
      ck.sample({"multi_item_bundle": m.h.log[bi], "situations": m.tags[bi]}, limit=6)
    if len(hists) - n_sub >= per_job or i == n_multi - 1:
      submit(list(range(n_sub, len(hists))), seeds + extra_seeds)
      n_sub = len(hists)
  for hi, tags in enumerate(tagmap):
    for bi, tg in tags.items():
      ck.count("multi_item_bundles")
      for t in tg:
        ck.count("multi:" + t + ("" if hi >= n_general else " (general histories)"))
    ck.count("undo_pseudo_bundles", sum(1 for b in hists[hi] if b[0][0] == "@undo"))
  results = {}
  for f in futs:
    s, idxs, rc, out, err = f.result()
    if rc != 0:
      raise common.Infra("c30 child failed (seed %s): %s" % (s, err[-500:]))
    try:
      res = json.loads(out)
    except ValueError:
      raise common.Infra("c30 child (seed %s) printed no JSON: %s" % (s, (out[-200:] + err[-300:])))
    if len(res) != len(idxs):
      raise common.Infra("c30 child (seed %s) answered %d of %d histories" % (s, len(res), len(idxs)))
    for hi, r in zip(idxs, res):
      results[(s, hi)] = r
  pool.shutdown()
  ck.count("processes", len(futs))
  base = seeds[0]
  for hi, hist in enumerate(hists):
    ref = results[(base, hi)]
    if len(ref) != len(hist):
      raise common.Infra("c30 child returned %d results for a history of %d bundles" % (len(ref), len(hist)))
    for s in seeds[1:] + (extra_seeds if hi >= n_general else []):
      got = results[(s, hi)]
      ck.count("cross_process_comparisons", len(ref))
      for bi, (a, b) in enumerate(zip(ref, got)):
        if a[:2] == b[:2]:
          continue
        what = "reply (stored/undo/direct/retValues)" if a[0] != b[0] else "table data"
        real = hist[bi]
        is_undo = real[0][0] == "@undo"
        k = real[0][1] if is_undo else bi
        tg = tagmap[hi].get(k)
        acts = ("undo of " if is_undo else "") + "+".join(sorted(set(x[0] for x in hist[k])))
        detail = "bundle %d of history; seeds %s vs %s; %s" % (bi, base, s, _first_diff(a, b, base, s))
        rp = {"history": hist[:bi + 1], "hash_seeds": [base, s], "bundle_index": bi, "failing_bundle": hist[k]}
        known = order_only_findings(tg, a, b, _upsert_cols(hist[k]))
        if known:
          # the tables are identical but the processes' internal orders (columns / tables in the schema) may now differ
          # and surface later (e.g. in the AddTable that undoes a RemoveTable): the comparison of this history stops
          if not any([ck.violation(sg, detail, rp) for sg in sorted(known)]):
            ck.count("order_only_findings_reproduced")
          break
        sig = "%s differs between PYTHONHASHSEED values after %s" % (what, acts)
        if tg:
          sig += " [one user action with several items: %s]" % ", ".join(tg)
        ck.violation(sig, detail, rp)
        break


def replay(ck, rp):
  ck.lean(["GristProps.C30"])
  r = rp["replay"]
  hist, seeds = r["history"], r["hash_seeds"]
  outs = []
  for s in seeds:
    p = subprocess.run(CHILD, input=json.dumps([hist]), stdout=subprocess.PIPE,
                       stderr=subprocess.PIPE, env=dict(os.environ, PYTHONHASHSEED=str(s)), text=True, timeout=3000)
    if p.returncode != 0:
      raise common.Infra("c30 child failed (seed %s): %s" % (s, p.stderr[-500:]))
    outs.append([x[:2] for x in json.loads(p.stdout)[0]])
  same = outs[0] == outs[1]
  print("replay: outputs %s under PYTHONHASHSEED %s" % ("identical" if same else "DIFFER", seeds))
  if not same:
    ck.violation("replies or data differ between PYTHONHASHSEED values (replay)", "seeds %r" % seeds, r)
  ck.evaluated(); ck.nontrivial_case("replay"); ck.nontrivial_case("replay2")


if __name__ == "__main__":
  child_main()
