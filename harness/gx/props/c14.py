"""
C14  Sorted searches and PREVIOUS/NEXT/RANK agree with a linear scan.

Theorems: lean/GristProps/C14.lean about GristModel/SortedFind.lean (sort_key.SortKey.__lt__,
bisect_left/right, records.RecordSet._at/_bisect_find/_find_eq, FindOps, prevnext.PREVIOUS/NEXT/RANK).

Interpretation (fixed here):
 * "sorted lookup result" = what `T.lookupRecords(<key>, order_by=...)` returns; its order is the
   documented one: order_by columns ('-' = descending), then manualSort unless 'id' / manualSort is
   named, then row id (C13 owns that clause; here it is the precondition, and it is re-checked
   against an independent reference comparator so that a broken comparison cannot hide).
 * "the same comparison" = the documented SortKey order on the modelled universe None < numbers
   (bool/int, numerically, True == 1) < str (code points), per component, reversed for '-'
   components; the search values are compared against the LEADING sort columns only
   (zip semantics: fewer values than sort columns = prefix comparison; surplus values ignored).
 * find.lt = last record strictly before the values, le = last record not after, gt = first record
   strictly after, ge = first record not before, eq = first record equal; the empty record (id 0)
   when there is none.
 * PREVIOUS/NEXT/RANK: group = rows whose group_by cells are == (Python equality, as the lookup
   index uses) to the record's; position in that group ordered as above; PREVIOUS/NEXT = neighbour
   or the empty record, RANK asc = 1-based index, desc = len - index.
 * Outside the property (only the model/implementation correspondence is compared there): find.*
   with no search value (TypeError), find.* on a lookup with an empty sort spec (order_by="id":
   ValueError), RANK with an unknown `order` (ValueError).
 * Values: None, bool, int, str.  manualSort positions are distinct integers (the engine relabels
   them on insert; the actual stored positions are read back and used).

Tie: every (case, order_by variant) is evaluated by the live engine through formula columns and by
the Lean model through the compiled driver; outputs are compared field by field.
Search: the oracle below is written independently of the model (own comparator, plain linear scans
over the engine's own ordered result).
"""
import functools
import itertools
import os

# ---------------------------------------------------------------------------------------------
# order_by variants.  (name, python source of the keyword argument, cell columns, desc flags,
#                      usable with PREVIOUS/NEXT/RANK)
SPECS = [
  ("k",            'order_by="k"',                   ["k", "manualSort"],      [0, 0],    True),
  ("-k",           'order_by="-k"',                  ["k", "manualSort"],      [1, 0],    True),
  ("k,-j",         'order_by=("k", "-j")',           ["k", "j", "manualSort"], [0, 1, 0], True),
  ("-j,k",         'order_by=("-j", "k")',           ["j", "k", "manualSort"], [1, 0, 0], True),
  # '-manualSort' is not the literal 'manualSort', so make_sort_spec still appends the fallback
  ("k,-manualSort", 'order_by=("k", "-manualSort")', ["k", "manualSort", "manualSort"], [0, 1, 0], True),
  ("k,id,j",       'order_by=("k", "id", "j")',      ["k"],                    [0],       True),
  ("None",         'order_by=None',                  ["manualSort"],           [0],       True),
  ("id",           'order_by="id"',                  [],                       [],        True),
  ("sort_by -k",   'sort_by="-k"',                   ["k"],                    [1],       False),
]

P_FORMULA = '''
rs = %(T)s.lookupRecords(%(key)s%(order)s)
f = rs.%(find)s
vs = ($p1, $p2, $p3, $p4)[:$n]
def g(m):
  try:
    return m(*vs).id
  except Exception as e:
    return "E:" + type(e).__name__
return [[r.id for r in rs], g(f.lt), g(f.le), g(f.gt), g(f.ge), g(f.eq)]
'''

T_FORMULA = '''
def g(fn, **kw):
  try:
    r = fn(rec, %(gb)s%(order)s, **kw)
    return r if isinstance(r, int) else r.id
  except Exception as e:
    return "E:" + type(e).__name__
return [[r.id for r in %(T)s.lookupRecords(%(gkey)s%(order)s)],
        g(PREVIOUS), g(NEXT), g(RANK), g(RANK, order="desc"), g(RANK, order="down")]
'''

ORDERS = ["asc", "desc", "down"]

ALPHA = [None, False, True, 0, 1, 2, -1, "", "a", "b", "B", "10"]
NEIGH = [-2, 3, "A", "aa", "c", "1", "9"]
GROUPS = [1, True, "x", None, 2, 0, False]
SMALL = [None, True, 1, "a"]          # exhaustive scope alphabet (True == 1 on purpose)


# ---------------------------------------------------------------------------------------------
# live engine

class Eng(object):
  """One engine, two table pairs: (T, P) batch mode — many cases at once, separated by column c
  which is part of every lookup key; (T0, P0) whole-table mode — one case, lookups without key."""

  def __init__(self):
    import logging
    logging.disable(logging.CRITICAL)
    from engine import Engine
    import useractions
    self.ua_mod = useractions
    self.e = Engine()
    self.e.load_empty()
    col = lambda i: {"id": i, "type": "Any", "isFormula": False}
    for (T, P, batch) in (("T", "P", True), ("T0", "P0", False)):
      self.ua(["AddTable", T, [col("c"), col("k"), col("j"), col("grp")]])
      self.ua(["AddTable", P, [col("c"), col("n"), col("p1"), col("p2"), col("p3"), col("p4")]])
      for i, (name, order, cols, desc, pnr) in enumerate(SPECS):
        find = "find" if i % 2 == 0 else "_find"
        pf = P_FORMULA % {"T": T, "key": "c=$c, " if batch else "", "order": order, "find": find}
        self.ua(["AddColumn", P, "f%d" % i, {"type": "Any", "isFormula": True, "formula": pf}])
        if not pnr:
          continue
        if batch:
          gb, gkey = 'group_by=("c", "grp"), ', "c=$c, grp=$grp, "
        elif i % 2 == 0:
          gb, gkey = "", ""                       # group_by omitted: whole table
        elif i % 4 == 1:
          gb, gkey = 'group_by="grp", ', "grp=$grp, "   # single column id as a string
        else:
          gb, gkey = 'group_by=("grp",), ', "grp=$grp, "
        tf = T_FORMULA % {"T": T, "gb": gb, "gkey": gkey, "order": order}
        self.ua(["AddColumn", T, "f%d" % i, {"type": "Any", "isFormula": True, "formula": tf}])

  def ua(self, *reprs):
    return self.e.apply_user_actions([self.ua_mod.from_repr(list(r)) for r in reprs])

  @staticmethod
  def grouped(mode, i):
    """Does spec i use group_by in this mode?"""
    return True if mode == "batch" else (i % 2 == 1)

  def run(self, cases, mode):
    """cases: list of dicts {ids, rows:[(k,j,g,ms)], probes:[[v..]]}.  Returns per case a dict
    {ms: {id: stored position}, find: {spec: [per probe [order, lt..eq]]}, pnr: {spec: {id: [...]}}}"""
    T, P = ("T", "P") if mode == "batch" else ("T0", "P0")
    tid, tc, tk, tj, tg, tm = [], [], [], [], [], []
    pid, pc, pn, pv = [], [], [], [[], [], [], []]
    pos = 0
    for ci, case in enumerate(cases):
      c = ci + 1
      # positions: distinct integers, globally increasing with the case's own relative order.
      # A replayed case carries "off" = number of rows that preceded it in its batch; pad with
      # dummy rows of case 0 so that the stored positions are the same as in the original run.
      while case.get("off", pos) > pos:
        tid.append(900000 + pos); tc.append(0); tk.append(0); tj.append(0); tg.append(0)
        tm.append(pos + 1)
        pos += 1
      case["off"] = pos
      order = sorted(range(len(case["rows"])), key=lambda x: case["rows"][x][3])
      rank = {x: r for r, x in enumerate(order)}
      for x, (rid, (k, j, g, ms)) in enumerate(zip(case["ids"], case["rows"])):
        tid.append(rid); tc.append(c); tk.append(k); tj.append(j); tg.append(g)
        tm.append(pos + rank[x] + 1)
      pos += len(case["rows"])
      for vs in case["probes"]:
        pid.append(len(pid) + 1); pc.append(c); pn.append(len(vs))
        for q in range(4):
          pv[q].append(vs[q] if q < len(vs) else None)
    # NB: not ReplaceTableData — on the pinned tree it leaves stale row ids in lookup indexes
    # (phantom id-0 records in later lookups); rows are removed explicitly instead.
    for tab in (T, P):
      old = list(self.e.fetch_table(tab).row_ids)
      if old:
        self.ua(["BulkRemoveRecord", tab, old])
    self.ua(["BulkAddRecord", T, tid, {"c": tc, "k": tk, "j": tj, "grp": tg, "manualSort": tm}],
            ["BulkAddRecord", P, pid, {"c": pc, "n": pn, "p1": pv[0], "p2": pv[1], "p3": pv[2], "p4": pv[3]}])
    td = self.e.fetch_table(T)
    pd = self.e.fetch_table(P)
    out = [{"ms": {}, "find": {}, "pnr": {}} for _ in cases]
    trow = {rid: x for x, rid in enumerate(td.row_ids)}
    prow = {rid: x for x, rid in enumerate(pd.row_ids)}
    n = 0
    for ci, case in enumerate(cases):
      o = out[ci]
      for rid in case["ids"]:
        o["ms"][rid] = td.columns["manualSort"][trow[rid]]
      for i, sp in enumerate(SPECS):
        o["find"][i] = [pd.columns["f%d" % i][prow[n + q + 1]] for q in range(len(case["probes"]))]
        if sp[4]:
          o["pnr"][i] = {rid: td.columns["f%d" % i][trow[rid]] for rid in case["ids"]}
      n += len(case["probes"])
    return out


# ---------------------------------------------------------------------------------------------
# independent reference (oracle)

def trank(v):
  if v is None:
    return 0
  if isinstance(v, (bool, int, float)):
    return 1
  if isinstance(v, str):
    return 2
  raise ValueError("value outside the modelled universe: %r" % (v,))


def cmp1(x, y):
  rx, ry = trank(x), trank(y)
  if rx != ry:
    return -1 if rx < ry else 1
  if rx == 0:
    return 0
  return -1 if x < y else (1 if y < x else 0)


def cmp_vals(desc, a, b):
  for d, x, y in zip(desc, a, b):
    c = cmp1(x, y)
    if c:
      return -c if d else c
  return 0


def ref_sorted(desc, rows):
  """rows: list of (id, cells) -> ids in documented order."""
  def cmp(r, s):
    return cmp_vals(desc, r[1], s[1]) or ((r[0] > s[0]) - (r[0] < s[0]))
  return [r[0] for r in sorted(rows, key=functools.cmp_to_key(cmp))]


def scan(desc, ordered, cells, vs):
  """Plain linear scans over the ordered ids.  Returns [lt, le, gt, ge, eq]."""
  lt = le = gt = ge = eq = 0
  for rid in ordered:
    c = cmp_vals(desc, cells[rid], vs)
    if c < 0:
      lt = rid
    if c <= 0:
      le = rid
    if c > 0 and not gt:
      gt = rid
    if c >= 0 and not ge:
      ge = rid
    if c == 0 and not eq:
      eq = rid
  return [lt, le, gt, ge, eq]


def geq(a, b):
  """group_by equality = Python equality of the cells (what the lookup index's dict key uses)."""
  return type(a) == type(b) == type(None) or (a is not None and b is not None and a == b)


FIND_NAMES = ["lt", "le", "gt", "ge", "eq"]


def judge(case, si, mode, eo):
  """Evaluate the property's clauses on the engine's outputs for (case, spec si).
  Returns list of (signature, detail, focus) — empty if the property holds."""
  name, _, cols, desc, pnr = SPECS[si]
  bad = []
  cells = {}
  grp = {}
  for rid, (k, j, g, ms) in zip(case["ids"], case["rows"]):
    rowv = {"k": k, "j": j, "manualSort": eo["ms"][rid]}
    cells[rid] = [rowv[c] for c in cols]
    grp[rid] = g
  allrows = [(rid, cells[rid]) for rid in case["ids"]]
  if desc:
    want = ref_sorted(desc, allrows)
    for q, vs in enumerate(case["probes"]):
      if not vs:
        continue                       # no search value: outside the property
      got = eo["find"][si][q]
      order = got[0]
      if order != want:
        bad.append(("lookup result is not in the documented sort order (%s)" % name,
                    "order_by %s: got %r want %r" % (name, order, want), {"probe": vs}))
        break
      exp = scan(desc, order, cells, vs)
      for m in range(5):
        if got[1 + m] != exp[m]:
          bad.append(("find.%s differs from the linear scan" % FIND_NAMES[m],
                      "order_by %s values %r over %r: got %r, scan gives %r"
                      % (name, vs, [(r, cells[r]) for r in order], got[1 + m], exp[m]), {"probe": vs}))
  if pnr and desc:
    grouped = Eng.grouped(mode, si)
    for rid in case["ids"]:
      got = eo["pnr"][si][rid]
      members = [(r, cells[r]) for r in case["ids"] if (not grouped) or geq(grp[r], grp[rid])]
      want = ref_sorted(desc, members)
      order = got[0]
      if order != want:
        bad.append(("group of the record is not the matching rows in documented order (%s)" % name,
                    "row %r: got %r want %r" % (rid, order, want), {"row": rid}))
        continue
      i = order.index(rid)
      exp = [order[i - 1] if i > 0 else 0, order[i + 1] if i + 1 < len(order) else 0,
             i + 1, len(order) - i]
      for m, nm in enumerate(["PREVIOUS", "NEXT", "RANK asc", "RANK desc"]):
        if got[1 + m] != exp[m]:
          bad.append(("%s differs from the position in the ordered group" % nm,
                      "order_by %s row %r in %r: got %r want %r" % (name, rid, order, got[1 + m], exp[m]),
                      {"row": rid}))
  return bad


# ---------------------------------------------------------------------------------------------
# model side

def model_op(case, si, mode, eo):
  name, _, cols, desc, pnr = SPECS[si]
  grouped = Eng.grouped(mode, si)
  rows = []
  for rid, (k, j, g, ms) in zip(case["ids"], case["rows"]):
    rowv = {"k": k, "j": j, "manualSort": eo["ms"][rid]}
    rows.append([rid, [rowv[c] for c in cols], [g] if grouped else []])
  return {"m": "sortedfind", "spec": [bool(d) for d in desc], "rows": rows, "key": None,
          "probes": case["probes"], "orders": ORDERS}


def canon_engine(v):
  if isinstance(v, str) and v.startswith("E:"):
    return {"error": v[2:]}
  return v


def diff_model(case, si, eo, mo):
  """Field-by-field comparison of engine outputs and model outputs.  Returns first difference."""
  pnr = SPECS[si][4]
  if "error" in mo and "order" not in mo:
    return "driver error %r" % (mo,)
  for q, vs in enumerate(case["probes"]):
    got = [canon_engine(x) for x in eo["find"][si][q]]
    want = [mo["order"]] + mo["find"][q]
    if got != want:
      return "find probe %r: engine %r model %r" % (vs, got, want)
  if pnr:
    for row in mo["pnr"]:
      rid = row[0]
      got = [canon_engine(x) for x in eo["pnr"][si][rid]]
      want = [row[1], row[2], row[3]] + row[4]
      if got != want:
        return "PREVIOUS/NEXT/RANK row %r: engine %r model %r" % (rid, got, want)
  return None


# ---------------------------------------------------------------------------------------------
# generation

def all_probes_small():
  ps = [[v] for v in [None, False, True, 0, 1, 2, "", "a", "b"]]
  ps += [[a, b] for a in SMALL for b in [None, 1, 2, "a"]]
  ps += [[], [1, 2, 3], ["a", 1, 2, 7]]
  return ps


def gen_case(rng, maxrows=6, alpha=None, nprobes=12):
  alpha = alpha or rng.choice([ALPHA, ALPHA, SMALL, [None, 0, 1, "a", "b"], [1, 2, 3], ["a", "b", ""]])
  n = rng.choice([0, 1, 2, 3, 3, 4, 4, 5, 5, 6, 6][:maxrows + 5])
  n = min(n, maxrows)
  ms = list(range(n)); rng.shuffle(ms)
  gs = rng.choice([[1], [1, True, "x"], GROUPS, [None, "x"]])
  rows = [(rng.choice(alpha), rng.choice(alpha), rng.choice(gs), ms[i]) for i in range(n)]
  probes = []
  pool = list(alpha) + NEIGH
  present_k = [r[0] for r in rows] or [None]
  present_j = [r[1] for r in rows] or [None]
  for _ in range(nprobes):
    ar = rng.choice([1, 1, 1, 1, 2, 2, 2, 3, 0, 4])
    vs = []
    for q in range(ar):
      r = rng.random()
      if r < 0.45:
        vs.append(rng.choice(present_k if q == 0 else present_j + present_k))
      elif r < 0.6 and q >= 1:
        vs.append(rng.randint(0, n + 1))          # a manualSort-like number
      else:
        vs.append(rng.choice(pool))
    probes.append(vs)
  return {"rows": rows, "probes": probes}


def exhaustive_cases(rng, maxn, quick=False):
  probes = all_probes_small()
  if quick:
    probes = probes[:9] + probes[9::2]
  for n in range(0, maxn + 1):
    for ks in itertools.product(SMALL, repeat=n):
      ms = list(range(n)); rng.shuffle(ms)
      js = [SMALL[(i * i + n + len([k for k in ks[:i] if k is None])) % 4] for i in range(n)]
      gs = rng.choice([[1], [1, True, "x"], [None, 0]])
      rows = [(ks[i], js[i], rng.choice(gs), ms[i]) for i in range(n)]
      yield {"rows": rows, "probes": probes}


def assign_ids(rng, cases, mode):
  nxt = 1
  for case in cases:
    n = len(case["rows"])
    if "ids" in case:
      continue
    if mode == "batch":
      ids = list(range(nxt, nxt + n)); rng.shuffle(ids)
      nxt += n
    else:
      ids = rng.sample(range(1, 3 * n + 4), n)
    case["ids"] = ids


def is_nontrivial(case):
  ks = [r[0] for r in case["rows"]]
  if len(ks) < 3:
    return False
  dup = any(cmp1(ks[a], ks[b]) == 0 for a in range(len(ks)) for b in range(a))
  mixed = len(set(trank(k) for k in ks)) >= 2
  return dup and mixed


# ---------------------------------------------------------------------------------------------
# workers

_ENG = None

def _engine():
  global _ENG
  if _ENG is None:
    _ENG = Eng()
  return _ENG


def _work(arg):
  mode, batches = arg
  from gx.common import setup_repo_path
  setup_repo_path()
  eng = _engine()
  out = []
  for cases in batches:
    out.append(eng.run(cases, mode))
  return out


def run_engine(ck, batches_by_mode, procs):
  """batches_by_mode: list of (mode, [batch, ...]).  Returns same shape with engine outputs."""
  jobs = []
  for mode, batches in batches_by_mode:
    if procs <= 1:
      jobs.append((mode, batches))
    else:
      per = max(1, (len(batches) + procs * 2 - 1) // (procs * 2))
      for i in range(0, len(batches), per):
        jobs.append((mode, batches[i:i + per]))
  if procs <= 1:
    res = [_work(j) for j in jobs]
  else:
    import multiprocessing
    ctx = multiprocessing.get_context("fork")
    with ctx.Pool(procs) as pool:
      res = pool.map(_work, jobs, chunksize=1)
  flat = []
  for (mode, batches), outs in zip(jobs, res):
    for cases, o in zip(batches, outs):
      flat.append((mode, cases, o))
  return flat


def evaluate(ck, flat):
  """Driver + oracle + diff over engine outputs."""
  ops, idx = [], []
  for (mode, cases, outs) in flat:
    for case, eo in zip(cases, outs):
      bad_ms = [v for v in eo["ms"].values() if v != int(v)]
      if bad_ms:
        ck.count("skipped_nonintegral_position")
        continue
      for rid in eo["ms"]:
        eo["ms"][rid] = int(eo["ms"][rid])
      for si in range(len(SPECS)):
        ops.append(model_op(case, si, mode, eo))
        idx.append((mode, case, eo, si))
  model = ck.driver(ops)
  mism = None
  seen_cases = set()
  for (mode, case, eo, si), mo in zip(idx, model):
    ck.evaluated(len(case["probes"]) * 5 + len(case["rows"]) * 4)
    ck.count("spec:" + SPECS[si][0])
    cid = id(case)
    if cid not in seen_cases:
      seen_cases.add(cid)
      ck.count("cases_" + mode)
      ck.count("rows_%d" % len(case["rows"]))
      if is_nontrivial(case):
        ck.nontrivial_case([case["rows"], case["probes"], mode])
        ck.sample({"mode": mode, "ids": case["ids"], "rows": case["rows"], "probes": case["probes"][:4]})
    for (sig, detail, focus) in judge(case, si, mode, eo):
      rp = {"mode": mode, "spec": si, "ids": case["ids"], "rows": case["rows"], "off": case["off"],
            "probes": [focus["probe"]] if "probe" in focus else case["probes"][:2], "focus": focus}
      ck.violation(sig, detail, rp)
    d = diff_model(case, si, eo, mo)
    if d:
      ck.count("model_impl_disagreements")
      if mism is None:
        mism = {"mode": mode, "spec": si, "ids": case["ids"], "rows": case["rows"], "off": case["off"],
                "probes": case["probes"], "diff": d}
  if mism and not ck.has_impl_violation():
    ck.broken("correspondence records/prevnext/sort_key vs Grist.SortedFind",
              "model and implementation differ (%s) and the property's clauses hold on all explored inputs"
              % mism["diff"], mism)


def chunks(l, n):
  return [l[i:i + n] for i in range(0, len(l), n)]


def run(ck):
  ck.rule = ("tables of 0..6 rows over mixed alphabets (None/bool/int/str) with duplicates, 9 order_by variants "
             "(asc/desc, two columns, -manualSort, id cut-off, None, sort_by), 1-4 search values incl. present "
             "keys and neighbours, PREVIOUS/NEXT/RANK with and without group_by; thorough adds every key "
             "sequence of length <=5 over [None, True, 1, 'a'] x 34 probes; non-trivial = >=3 rows with a "
             "duplicate sort value and >=2 type classes among the keys; distinct by (rows, probes, mode)")
  ck.assumptions = [
    "cell values are None, bool, int or str (no floats/NaN, lists, dates)",
    "manualSort positions are distinct integers (as stored by the engine, read back)",
    "row ids are distinct positive integers",
    "the sorted order of a lookup is C13's clause; here it is re-checked against the reference comparator",
  ]
  ck.lean(["GristProps.C14"])
  rng = ck.rng
  thorough = ck.tier == "thorough"
  procs = min(12, os.cpu_count() or 1) if thorough else 1
  # batch mode
  cases = [gen_case(rng) for _ in range(6000 if thorough else 120)]
  # the Lean witnesses / documented examples, always present
  cases.insert(0, {"rows": [(3, 1, 1, 3), (None, 1, 1, 2), ("a", 2, 1, 1), (True, 2, 1, 0)],
                   "probes": [[3], [None], ["a"], [1], [True], [2], [0], [], ["a", 2], [1, 1, 1]]})
  exh = list(exhaustive_cases(rng, 5 if thorough else 3, quick=not thorough))
  batch_cases = exh + cases
  batches = chunks(batch_cases, 60)
  for b in batches:
    assign_ids(rng, b, "batch")
  # whole-table mode: one case per apply
  singles = [gen_case(rng, nprobes=10) for _ in range(1500 if thorough else 40)]
  sb = [[c] for c in singles]
  for b in sb:
    assign_ids(rng, b, "single")
  flat = run_engine(ck, [("batch", batches), ("single", sb)], procs)
  evaluate(ck, flat)


def replay(ck, rp):
  r = rp["replay"]
  mode = r["mode"]
  case = {"ids": r["ids"], "rows": [tuple(x) for x in r["rows"]], "probes": r["probes"],
          "off": r.get("off", 0)}
  from gx.common import setup_repo_path
  setup_repo_path()
  eo = Eng().run([case], mode)[0]
  for rid in eo["ms"]:
    eo["ms"][rid] = int(eo["ms"][rid])
  sis = [r["spec"]] if r.get("spec") is not None else range(len(SPECS))
  any_bad = False
  for si in sis:
    bad = judge(case, si, mode, eo)
    print("replay: mode=%s order_by=%s ids=%r rows=%r probes=%r\n  engine find=%r\n  engine pnr=%r\n  -> %s" % (
      mode, SPECS[si][0], case["ids"], case["rows"], case["probes"], eo["find"][si], eo["pnr"].get(si),
      [b[0] for b in bad] or "property holds"))
    for (sig, detail, focus) in bad:
      any_bad = True
      ck.violation(sig, detail, dict(r, focus=focus))
  ck.evaluated()
  ck.nontrivial_case([case["rows"], case["probes"], mode]); ck.nontrivial_case("replay")
  ck.lean(["GristProps.C14"])
