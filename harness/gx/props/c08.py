"""
C08  Internal schema always matches the metadata

Theorems: GristProps/C08.lean.  Tie: the model document's column infos (updated only by schema doc actions)
must equal Engine.schema after every bundle.  Search: build_schema(fetch_table(metadata)) vs Engine.schema + stray
column check, not only when _schema_updated was set.
"""
from gx.props import _hist

PROP = "C08"
CFG = {"oracles": ('schema', 'failed', 'undo'), "n_bundles": 12, "profile": {'add_column': 8, 'add_formula_column': 6, 'remove_column': 6, 'rename_column': 7, 'modify_type': 6, 'modify_formula': 4, 'to_formula': 3, 'to_data': 3, 'label_change': 4, 'add_table': 4, 'remove_table': 3, 'rename_table': 4, 'duplicate_table': 1.5, 'summary': 3, 'update_summary': 2, 'detach_summary': 1, 'reverse_column': 2, 'add_ref_column': 3, 'meta_raw': 0, 'malformed': 6, 'then_fail': 8, 'resave_formula': 4, 'rename_retype': 3}}
TIE_KINDS = ('doc-M', 'doc-P', 'schema-pred', 'driver')


def run(ck):
  ck.rule = "schema-heavy seeded histories; after every successful bundle, every undo/redo and every rollback the engine's schema is compared with schema.build_schema(metadata) and stray column records are searched; non-trivial = bundle containing a schema doc action"
  ck.assumptions = ['user formulas are deterministic programs over the cells they read (generator emits only such formulas)', 'private / virtual columns (#lookup, #summary helpers) are not communicated and not modelled', 'documents compare by canonical encodings (equal_encoding): 1 and 1.0 are the same stored value, True and 1 are not']
  ck.lean(['GristProps.C08'])
  merged = _hist.run_histories(ck, CFG, n_quick=20, n_thorough=1600)
  post(ck, merged)
  _hist.report(ck, merged, PROP, TIE_KINDS)


def post(ck, merged):
  pass


def replay(ck, rp):
  ck.lean(['GristProps.C08'])
  _hist.replay_history(ck, rp, PROP, CFG["oracles"])
