"""
C22  Cell value conversion is total and idempotent.

Interpretation (what exactly is demanded of `usertypes.<Type>().convert(v)`):
  (total)  the call never raises, for any value (incl. hostile objects whose str/bool/eq/iter raise);
  (range)  the result r satisfies `<Type>.is_right_type(r)`, or is the *same* RaisedException object
           that went in, or is a `str` (the alt-text);
  (idem)   `convert(r)` is the same value as r: same class (`type(a) is type(b)`), equal, floats
           bitwise (NaN equal to NaN with the same bits), recursively for tuples/lists.  A
           `RecordList` turning into a plain `list` is therefore NOT "the same value" (it loses
           group_by / sort_by and its class).
The 16 column types of usertypes.py are all checked (Ref/RefList with target table T1, DateTime
with several zones).

Theorems: lean/GristProps/C22.lean about lean/GristModel/PyVal.lean.
Tie:      real `do_convert`/`convert` (twice) and `is_right_type` vs the model through the driver,
          on an adversarial value table per type plus random compositions; Python/library
          primitives (float(), repr, %.15g, json.loads, iso8601, str()/repr() of compound objects)
          are parameters computed here with the real primitives and recorded in ck.assumptions.
Search:   the three clauses above evaluated directly on the real code, also for hostile values
          that are outside the model's universe.
"""
import json
import os
import struct

from gx import pyval
from gx.pyval import Ctx, Ser, build, strip, NotInUniverse

SIG_BLOB = "range: Blob column returns a non-bytes value unchanged"
SIG_EMPTYJSON = "idempotence: ChoiceList text that is an empty JSON list gives () and then None"
SIG_RECSET = "idempotence: RefList of a RecordSet gives a RecordList, converting that gives a plain list or None"
SIG_EMPTYSETS = "idempotence: RefList of a list of empty RecordSets gives [] and then None"

def sig_alt(tname, text):
  return "idempotence: %s of AltText with %s gives the text, which is converted on the second pass" % (
    tname, "empty text" if text == "" else "convertible text")

def sig_obj(tname, text):
  return "idempotence: %s of an object whose str() is %s gives the text, which is converted on the second pass" % (
    tname, "empty" if text == "" else "convertible text")

def sig_hugeint(tname):
  return "idempotence: %s of an int too large for float() gives its digits, which then convert to inf" % tname

# (type, kind) pairs that fail on the unchanged tree (each one is an entry of known_findings.json)
ALT_EMPTY_TYPES = ["Bool", "Int", "Numeric", "Date", "DateTime", "ChoiceList", "PositionNumber", "ManualSortPos",
                   "Id", "Ref", "RefList", "Attachments"]
ALT_TEXT_TYPES = ["Date", "DateTime", "ChoiceList", "RefList", "Attachments"]
HUGEINT_TYPES = ["Numeric", "PositionNumber", "ManualSortPos"]


def type_obj(tname, ctx):
  import usertypes
  if tname == "DateTime":
    return usertypes.DateTime(timezone=ctx.zone_name)
  if tname == "Ref":
    return usertypes.Reference("T1")
  if tname == "RefList":
    return usertypes.ReferenceList("T1")
  return getattr(usertypes, tname)()

def tau_json(tname):
  return {"refList": "T1"} if tname == "RefList" else tname


def fbits(x):
  return struct.pack("<d", x)

def same(a, b):
  """same value: identical class, equal, floats bitwise; recursive through lists / tuples"""
  if a is b:
    return True
  if type(a) is not type(b):
    return False
  if isinstance(a, float):
    return fbits(a) == fbits(b)
  if isinstance(a, (list, tuple)):
    return len(a) == len(b) and all(same(x, y) for x, y in zip(a, b))
  try:
    return bool(a == b)
  except Exception:
    return False


def classify_idem(tname, v, r1):
  import objtypes
  import records
  if isinstance(v, objtypes.AltText) and isinstance(r1, str):
    return sig_alt(tname, r1)
  if tname == "ChoiceList" and isinstance(v, str) and isinstance(r1, tuple) and len(r1) == 0:
    return SIG_EMPTYJSON
  if tname in ("RefList", "Attachments"):
    if isinstance(v, records.RecordSet) and isinstance(r1, objtypes.RecordList):
      return SIG_RECSET
    if type(v) is list and v and all(isinstance(x, records.RecordSet) and not x for x in v) and r1 == []:
      return SIG_EMPTYSETS
  if tname in ("Numeric", "PositionNumber", "ManualSortPos") and isinstance(v, int) and abs(v) >= 2 ** 1024 \
     and isinstance(r1, str):
    return sig_hugeint(tname)
  if type(v).__module__ == pyval.__name__ and isinstance(r1, str):
    return sig_obj(tname, r1)
  return "idempotence: %s value %s for type %s" % (type(v).__name__, _short(v), tname)

def _short(v):
  try:
    return repr(v)[:60]
  except Exception:
    return "<%s>" % type(v).__name__


def oracle(T, tname, v):
  """The property's clauses on the real code.  Returns (r1, r2, [(signature, detail)...])."""
  import objtypes
  bad = []
  try:
    r1 = T.convert(v)
  except BaseException as e:
    return None, None, [("totality: convert raises for a %s value" % type(v).__name__,
                         "%s.convert(%s) raised %s" % (tname, _short(v), type(e).__name__))], 0
  try:
    right = bool(T.is_right_type(r1))
  except Exception:
    right = False
  if not (right or (r1 is v and isinstance(v, objtypes.RaisedException)) or isinstance(r1, str)):
    sig = SIG_BLOB if tname == "Blob" else "range: %s result %s for type %s" % (type(r1).__name__, _short(r1), tname)
    bad.append((sig, "%s.convert(%s) = %s is neither of the type, nor the error, nor text" % (tname, _short(v), _short(r1))))
  try:
    r2 = T.convert(r1)
  except BaseException as e:
    bad.append(("totality: convert raises on its own result", "%s.convert(%s) raised %s" % (tname, _short(r1), type(e).__name__)))
    return r1, None, bad, 1
  if not same(r1, r2):
    try:
      sig = classify_idem(tname, v, r1)
    except Exception:
      sig = "idempotence: %s value for type %s" % (type(v).__name__, tname)
    bad.append((sig,
                "%s: convert(%s) = %s but convert of that = %s" % (tname, _short(v), _short(r1), _short(r2))))
  return r1, r2, bad, 2


def do_convert_exc(T, v):
  import objtypes
  if isinstance(v, objtypes.RaisedException):
    return None
  try:
    T.do_convert(v)
    return None
  except Exception as e:
    return type(e).__name__

# exception classes the model names differently from Python (sub-classes / library classes)
EXC_ALIASES = {"JSONDecodeError": "ValueError", "UnicodeDecodeError": "UnicodeDecodeError"}

def exc_compatible(model, real):
  if model == real:
    return True
  if model is None or real is None:
    return False
  # the model does not distinguish which exception an arbitrary str()/bool() raises
  if model == "Exception":
    return True
  # the ISO parser is a parameter; its failures are ParseError / ValueError / OverflowError
  if model == "ParseError" and real in ("ParseError", "ValueError", "OverflowError"):
    return True
  return False


def cases(ck):
  """(type name, zone, spec, hostile?)"""
  rng = ck.rng
  atoms = pyval.atom_table()
  conts = pyval.container_table()
  host = pyval.hostile_table()
  quick = ck.tier == "quick"
  out = []
  for tname in pyval.TYPES:
    for spec in atoms + conts:
      zone = pyval.ZONES[0] if tname != "DateTime" else rng.choice(pyval.ZONES)
      if quick and tname in ("Choice", "ManualSortPos", "Ref", "Attachments") and rng.random() < 0.75:
        continue          # same code as Text / PositionNumber / Id / RefList
      out.append((tname, zone, spec, False))
    for spec in host:
      out.append((tname, pyval.ZONES[0], spec, True))
  n = 1500 if quick else 70000
  for _ in range(n):
    tname = rng.choice(pyval.TYPES)
    zone = rng.choice(pyval.ZONES)
    spec = pyval.random_spec(rng, atoms + conts)
    out.append((tname, zone, spec, pyval.is_hostile(spec)))
  return out


_ctxs = {}
def get_ctx(zone):
  if zone not in _ctxs:
    _ctxs[zone] = Ctx(zone)
  return _ctxs[zone]


def eval_case(case):
  """Runs the real code on one case; returns a dict (JSON-able)."""
  tname, zone, spec, hostile = case
  ctx = get_ctx(zone)
  T = type_obj(tname, ctx)
  v = build(spec, ctx)
  res = {"case": [tname, zone, spec], "bad": [], "op": None}
  ser = Ser(ctx)
  jv = None
  if not hostile:
    try:
      jv = ser.val(v)
    except NotInUniverse as e:
      res["skip"] = str(e)
  exc1 = do_convert_exc(T, v) if jv is not None else None
  r1, r2, bad, stage = oracle(T, tname, v)
  res["bad"] = bad
  res["changed"] = stage > 0 and r1 is not v
  res["alt"] = stage > 0 and isinstance(r1, str) and not isinstance(v, str)
  if jv is not None and stage == 2:
    try:
      jr1 = ser.val(r1)
      exc2 = do_convert_exc(T, r1)
      jr2 = ser.val(r2)
    except NotInUniverse as e:
      res["skip"] = "result: %s" % e
      return res
    try:
      right1 = bool(T.is_right_type(r1))
      right2 = bool(T.is_right_type(r2))
    except Exception:
      right1 = right2 = None
    res["op"] = {"m": "pyval", "op": "convert", "tau": tau_json(tname), "v": jv, "prim": pyval.prim_tables(ser)}
    res["floats"] = [x.hex() for x in ser.floats.values()]
    res["ints"] = sorted(ser.ints)
    res["real"] = {"r": strip(jr1), "exc": exc1, "r2": strip(jr2), "exc2": exc2, "right": right1, "right2": right2}
  return res


def compare(model, real):
  if "error" in model:
    return "model error: %s" % model["error"]
  for k in ("r", "r2"):
    if strip(model[k]) != real[k]:
      return "%s differs: model %s real %s" % (k, json.dumps(strip(model[k]))[:300], json.dumps(real[k])[:300])
  for k in ("exc", "exc2"):
    if not exc_compatible(model[k], real[k]):
      return "%s differs: model %r real %r" % (k, model[k], real[k])
  for k in ("right", "right2"):
    if real[k] is not None and model[k] != real[k]:
      return "%s differs: model %r real %r" % (k, model[k], real[k])
  return None


def check_param_assumptions(ck):
  """Assumptions the model makes about Python itself, verified exhaustively / on samples."""
  import usertypes
  words = {"true", "yes", "1", "false", "no", "0"}
  ok = usertypes._truthy_values == {"true", "yes", "1"} and usertypes._falsy_values == {"false", "no", "0"}
  ck.obligations.append(("assumption:GRIST_TRUTHY_VALUES/GRIST_FALSY_VALUES unset (default word sets)", ok, ""))
  # str.lower() maps no non-ASCII code point into a letter of the recognised words, so ASCII
  # case-insensitive comparison is exact
  letters = set("".join(words))
  badcp = [cp for cp in range(128, 0x110000) if not (0xD800 <= cp <= 0xDFFF)
           and any(c in letters for c in chr(cp).lower())]
  ck.obligations.append(("assumption:unicode lower() never yields a letter of true/yes/false/no from a non-ASCII char",
                         not badcp, str(badcp[:5])))


def run(ck):
  ck.rule = ("per column type (16): adversarial value table (~330 atoms: None/bools/ints around 2^31, 2^53, 10^30/"
             "floats incl. NaN payloads, +-inf, -0.0/strings numeric, boolean words, ISO dates, JSON lists, RecordList "
             "reprs/bytes incl. invalid UTF-8/dates, datetimes with zones/Records, RecordSets of a live engine/AltText/"
             "RaisedException/stubs/opaque objects incl. raising str, repr, bool; ~90 containers) plus random nested "
             "compositions; hostile values (raising __eq__/__iter__/__float__, foreign numerics, cyclic and 5000-deep "
             "containers) go to the oracle only. non-trivial = convert returned a different object than it was given "
             "(a real conversion or the alt-text path); distinct by (type, zone, value spec)")
  ck.assumptions = [
    "Python/library primitives are parameters of the model, computed by the harness with the real functions for every "
    "string/number occurring in a case: float(str), float(int) beyond 2^53, repr(float), '%.15g', json.loads, "
    "iso8601 via moment.parse_iso_date/parse_iso, RecordList.from_repr's result, bytes.decode/float(bytes), "
    "str()/repr()/type name of compound and foreign objects, date/datetime stamps (moment.date_to_ts/dt_to_ts)",
    "Record.id of a RecordSet member is supplied by the live engine (0 for a missing row)",
    "GRIST_TRUTHY_VALUES / GRIST_FALSY_VALUES are unset; str.lower() on non-ASCII never produces the recognised words (checked exhaustively each run)",
    "opaque objects of the model have no __float__/__int__/__index__/__iter__ (others are searched by the oracle only)",
    "row ids are ints; strings contain no lone surrogates (cannot be sent to the driver)",
    "idempotence theorem is conditional on the alt-text not being itself convertible (AltFixed) outside the proved classes; "
    "the oracle checks idempotence unconditionally on the real code",
  ]
  ck.lean(["GristProps.C22"])
  check_param_assumptions(ck)
  allc = cases(ck)
  mism = None
  floats, ints = set(), set()
  B = 4000
  pool = None
  if ck.tier != "quick":
    import multiprocessing
    pool = multiprocessing.get_context("fork").Pool(min(6, os.cpu_count() or 1))
  try:
    for b0 in range(0, len(allc), B):
      batch = allc[b0:b0 + B]
      results = pool.map(eval_case, batch, chunksize=50) if pool else [eval_case(c) for c in batch]
      ops, idx = [], []
      for i, r in enumerate(results):
        ck.evaluated()
        tname = r["case"][0]
        ck.count("type:" + tname)
        if batch[i][3]:
          ck.count("hostile_values")
        if r.get("skip"):
          ck.count("outside_model_universe")
        if r.get("changed"):
          ck.nontrivial_case(r["case"])
          if r.get("alt"):
            ck.count("alt_text_path")
          ck.sample({"type": tname, "value": r["case"][2]})
        for sig, detail in r["bad"]:
          ck.violation(sig, detail, {"type": tname, "zone": r["case"][1], "spec": r["case"][2]})
        if r["op"] is not None:
          ops.append(r["op"]); idx.append(i)
          floats.update(r["floats"]); ints.update(r["ints"])
      model = ck.driver(ops)
      for i, mo in zip(idx, model):
        ck.count("tied_to_model")
        d = compare(mo, results[i]["real"])
        if d:
          ck.count("model_impl_disagreements")
          if mism is None:
            mism = {"type": results[i]["case"][0], "zone": results[i]["case"][1], "spec": results[i]["case"][2], "diff": d}
  finally:
    if pool:
      pool.close(); pool.join()
  if mism and not ck.has_impl_violation():
    ck.broken("correspondence usertypes.convert vs Grist.PyVal.convert",
              "model and implementation differ and the property's clauses hold (up to known findings) on all explored inputs: %s"
              % mism["diff"], mism)
  lawbad = pyval.float_law_violations([float.fromhex(h) for h in sorted(floats)], sorted(ints))
  ck.obligations.append(("assumption:FloatLaws (repr round-trip, decimal digits parse to float(int)) on %d floats and %d ints"
                         % (len(floats), len(ints)), not lawbad, str(lawbad[:3])))
  replay_witnesses(ck)


# the concrete witnesses of the negation theorems in GristProps/C22.lean, replayed on the real code
WITNESSES = [
  ("Blob", ["int", 5], SIG_BLOB),
  ("Int", ["alt", ""], sig_alt("Int", "")),
  ("Date", ["alt", "2020-01-01"], sig_alt("Date", "x")),
  ("ChoiceList", ["str", "[]"], SIG_EMPTYJSON),
  ("RefList", ["rset", "T1", []], SIG_RECSET),
  ("RefList", ["rset", "T1", [1, 3]], SIG_RECSET),
  ("RefList", ["list", [["rset", "T1", []]]], SIG_EMPTYSETS),
  ("Numeric", ["int", 10 ** 309], sig_hugeint("Numeric")),
  ("Bool", ["obj", "withstr", ""], sig_obj("Bool", "")),
]

def replay_witnesses(ck):
  ctx = get_ctx(pyval.ZONES[0])
  for tname, spec, sig in WITNESSES:
    T = type_obj(tname, ctx)
    _, _, bad, _ = oracle(T, tname, build(spec, ctx))
    ok = any(b[0] == sig for b in bad)
    ck.obligations.append(("witness replays on real code: %s %s" % (tname, json.dumps(spec)), ok,
                           "" if ok else "the Lean negation witness no longer fails on the real code; "
                           "remove the known finding and prove the full statement"))
    for s, detail in bad:
      ck.violation(s, detail, {"type": tname, "zone": pyval.ZONES[0], "spec": spec})


def replay(ck, rp):
  r = rp["replay"]
  if "spec" not in r:
    print("replay: nothing to replay (%s)" % (rp.get("broken") or rp.get("signature")))
    ck.lean(["GristProps.C22"])
    return
  ctx = get_ctx(r.get("zone") or pyval.ZONES[0])
  T = type_obj(r["type"], ctx)
  v = build(r["spec"], ctx)
  r1, r2, bad, _ = oracle(T, r["type"], v)
  ck.evaluated()
  print("replay: %s.convert(%s) = %s ; again = %s -> %s" % (r["type"], _short(v), _short(r1), _short(r2),
                                                          [b[0] for b in bad] or "property holds"))
  for sig, detail in bad:
    ck.violation(sig, detail, r)
  if "diff" in r:
    res = eval_case((r["type"], r.get("zone") or pyval.ZONES[0], r["spec"], False))
    if res["op"] is not None:
      mo = ck.driver([res["op"]])[0]
      d = compare(mo, res["real"])
      print("replay: model vs implementation: %s" % (d or "agree"))
      if d and not bad:
        ck.broken("correspondence usertypes.convert vs Grist.PyVal.convert", d, r)
  ck.nontrivial_case(r["spec"]); ck.nontrivial_case("replay")
  ck.lean(["GristProps.C22"])
