"""
C27  Row id allocation never collides or creates ghost rows.

Theorems: lean/GristProps/C27.lean about GristModel/RowIds.lean (fill_ids_spec, fill_ids_nodup_iff,
fill_ids_distinct_partial, too_high_rejected, fill_error_iff, existing_rejected, add_exact_partial and
the three NEGATION witnesses repeated_explicit_accepted / late_clash_accepted / zero_id_ghost).
Tie: every request is run through a live engine (AddRecord / BulkAddRecord / ReplaceTableData user
     actions) and through Grist.RowIds.addRequest / replaceRequest (driver op "add"): returned ids, rows
     existing afterwards and the error class must agree.
Search (direct oracle, independent of the model): the clauses of the property evaluated on the engine's
     retValues / stored actions / fetch_table.

Interpretation (written down because the text leaves room):
 * "requests that cannot create exactly the requested distinct rows": an explicit id that already exists
   (Add only; ReplaceTableData discards the old rows first), an explicit id repeated in the request, an
   id > 1,000,000, an explicit id 0.  Those MUST be rejected; every rejection must leave doc.snapshot()
   (all tables, metadata included) unchanged.
 * every other request (None / negative / fresh distinct positive explicit ids, in any order) CAN be
   satisfied and must be accepted with: one returned id per entry, explicit entries returned as given,
   ids pairwise distinct, positive, none existing before, the set of new rows == the set of returned
   ids, old rows untouched (Add) / gone (Replace), automatic ids (None or negative entries) greater than
   every id existing before (Add), and the stored action carrying the same ids.
 * retValues of ReplaceTableData is None by design: its ids are read from the stored action.
 * negative ids "act as placeholders": they never become rows themselves (C26 covers their later use).
"""
import itertools

T_COLS = [{"id": "a", "type": "Int"}, {"id": "r", "type": "Ref:T"}, {"id": "rl", "type": "RefList:T"},
          {"id": "o", "type": "Ref:U"}]
U_COLS = [{"id": "b", "type": "Int"}]
SETUP = [["AddTable", "U", U_COLS], ["AddTable", "T", T_COLS],
         ["AddColumn", "U", "t", {"type": "Ref:T", "isFormula": False}],
         ["AddColumn", "U", "tl", {"type": "RefList:T", "isFormula": False}]]
USER_TABLES = ["T", "U"]
LIMIT = 1000000

SIG_REPEAT = "explicit row id repeated within request is accepted (one row created, two announced)"
SIG_ZERO = "explicit row id 0 is accepted (no row created, id 0 announced)"
SIG_CLASH = "explicit row id equal to an automatic id allocated earlier in the same request is accepted (ids collide)"
SIG_EXISTING = "explicit id of an existing row is accepted"
SIG_HIGH = "row id over 1,000,000 is accepted"


def new_doc():
  from gx import engine_driver as ed
  doc = ed.Doc()
  r = doc.apply(SETUP)
  if not r.ok:
    from gx.common import Infra
    raise Infra("cannot set up test document: %r" % (r.error,))
  return doc


def rows_of(doc, table="T"):
  return list(doc.engine.fetch_table(table).row_ids)


def make_action(kind, table, req, vals, col="a"):
  if kind == "AddRecord":
    return ["AddRecord", table, req[0], {col: vals[0]}]
  return [kind, table, list(req), {col: list(vals)}]


def stored_ids(res, table, kind):
  """Row ids announced by the stored action that carries the request (None if there is none)."""
  names = ("ReplaceTableData",) if kind == "ReplaceTableData" else ("AddRecord", "BulkAddRecord")
  for a in res.raw_stored:
    if a[0] in names and a[1] == table:
      return list(a[2]) if isinstance(a[2], list) else [a[2]]
  return None


def must_reject(req, before, replace):
  """The property's own list of requests that cannot create exactly the requested distinct rows."""
  explicit = [x for x in req if x is not None and x >= 0]
  if any(x > LIMIT for x in explicit):
    return SIG_HIGH
  if not replace and any(x in before for x in explicit):
    return SIG_EXISTING
  if len(set(explicit)) != len(explicit):
    return SIG_REPEAT
  if 0 in explicit:
    return SIG_ZERO
  return None


def oracle(kind, table, req, vals, before, res, snap_before, snap_after, col="a"):
  """Property clauses on the real outcome.  Returns None or (signature, detail)."""
  from gx import engine_driver as ed
  replace = kind == "ReplaceTableData"
  after = snap_after[table]["ids"]
  if not res.ok:
    d = ed.diff_snapshots(snap_before, snap_after)
    if d or snap_before != snap_after:
      return ("rejected request changed the document", "%r -> %r: %s" % (req, res.error, d))
    if must_reject(req, before, replace) is None:
      return ("request that can be satisfied is rejected", "%s %r on rows %r: %r" % (kind, req, before, res.error))
    return None
  bad = must_reject(req, before, replace)
  if kind == "ReplaceTableData":
    ids = stored_ids(res, table, kind)
    if ids is None:
      ids = [] if not req else None
  elif kind == "AddRecord":
    ids = [res.ret[0]]
  else:
    ids = res.ret[0]
  if bad:
    # the recorded defects have a precise shape: explicit ids announced as given, and the rows existing
    # afterwards are the old rows plus the positive announced ids; anything else is a different failure
    if isinstance(ids, list) and len(ids) == len(req):
      for want, got in zip(req, ids):
        if want is not None and want >= 0 and got != want:
          return ("request that must be rejected is accepted and an explicit id is replaced by another",
                  "%s %r on rows %r -> %r" % (kind, req, before, ids))
      old = [] if replace else list(before)
      if sorted(after) != sorted(set(old) | set(i for i in ids if i > 0)):
        return ("request that must be rejected is accepted and rows afterwards are not old rows + announced ids",
                "%s %r on rows %r -> %r rows %r" % (kind, req, before, ids, after))
    return (bad, "%s %r on rows %r accepted: announced %r, rows now %r" % (kind, req, before, ids, after))
  if not isinstance(ids, list) or len(ids) != len(req) or not all(type(i) is int for i in ids):
    return ("returned ids do not match the request's length", "%r -> %r" % (req, ids))
  for want, got in zip(req, ids):
    if want is not None and want >= 0 and got != want:
      return ("explicit id not returned as given", "%r -> %r" % (req, ids))
    if (want is None or want < 0) and got <= 0:
      return ("placeholder entry got a non-positive id", "%r -> %r" % (req, ids))
  if len(set(ids)) != len(ids):
    explicit = [x for x in req if x is not None and x >= 0]
    autos = [g for w, g in zip(req, ids) if w is None or w < 0]
    first_auto = {}
    for k, (w, g) in enumerate(zip(req, ids)):
      if (w is None or w < 0) and g not in first_auto:
        first_auto[g] = k
    late = all(first_auto.get(w, len(req)) < k for k, w in enumerate(req)
               if w is not None and w >= 0 and w in first_auto)
    if len(set(autos)) == len(autos) and set(autos) & set(explicit) and not late:
      return ("automatic id repeats an explicit id given earlier in the same request",
              "%s %r on rows %r accepted: announced %r, rows now %r" % (kind, req, before, ids, after))
    if len(set(autos)) == len(autos) and set(autos) & set(explicit):
      return (SIG_CLASH, "%s %r on rows %r accepted: announced %r, rows now %r" % (kind, req, before, ids, after))
    return ("returned ids are not distinct", "%r -> %r" % (req, ids))
  if any(i <= 0 for i in ids):
    return ("returned id is not positive", "%r -> %r" % (req, ids))
  if not replace and set(ids) & set(before):
    return ("returned id collides with an existing row", "%r on %r -> %r" % (req, before, ids))
  old = [] if replace else list(before)
  if sorted(after) != sorted(old + ids) or len(set(after)) != len(after):
    return ("rows existing afterwards are not old rows + returned ids", "%r on %r -> ret %r rows %r" % (req, before, ids, after))
  if not replace:
    hi = max(before) if before else 0
    for want, got in zip(req, ids):
      if (want is None or want < 0) and got <= hi:
        return ("automatic id not above every existing id", "%r on %r -> %r" % (req, before, ids))
  sid = stored_ids(res, table, kind)
  if req and sid != ids:
    return ("stored action announces other ids than retValues", "%r vs %r" % (sid, ids))
  cells = dict(zip(after, snap_after[table]["cols"][col]))
  for i, v in zip(ids, vals):
    if cells.get(i) != "i%d" % v:
      return ("returned row does not hold the data given at its position", "row %r: %r, wanted %r" % (i, cells.get(i), v))
  if not replace:
    for c in snap_before[table]["cols"]:
      ob = dict(zip(snap_before[table]["ids"], snap_before[table]["cols"][c]))
      oa = dict(zip(after, snap_after[table]["cols"][c]))
      for i in before:
        if ob[i] != oa.get(i):
          return ("an existing row was modified by the add", "row %r col %s: %r -> %r" % (i, c, ob[i], oa.get(i)))
  return None


class Runner(object):
  """Issues requests against ONE live engine; after an accepted request the previous state is
  restored with the undo actions (verified by snapshot), so thousands of requests share a document."""

  def __init__(self, ck):
    self.ck = ck
    self.doc = new_doc()
    self.cases = []        # (ops for driver, real outcome, replay)
    self.marker = 100
    self.n_full = 0

  def set_state(self, ids, how="explicit"):
    """Put table T into the state `ids` through the public actions (each step is itself a request
    whose effect is verified below)."""
    doc = self.doc
    cur = rows_of(doc)
    if cur:
      r = doc.apply([["BulkRemoveRecord", "T", cur]])
      assert r.ok, r.error
    if how == "grown" and ids:
      # leave the id column larger than the largest row: add two more rows on top, then remove them
      extra = [max(ids) + 1, max(ids) + 3]
      r = doc.apply([["BulkAddRecord", "T", list(ids) + extra, {"a": [10 * i for i in ids] + [0, 0]}]])
      assert r.ok, r.error
      r = doc.apply([["BulkRemoveRecord", "T", extra]])
      assert r.ok, r.error
    elif how == "freed" and ids:
      # rows 1..top, the rows above the second-largest wanted id removed again (freed slots at the end of the id
      # column), then the largest wanted id added EXPLICITLY into a freed slot that is not next to the last row
      top = max(ids)
      lo = [i for i in ids if i != top]
      r = doc.apply([["BulkAddRecord", "T", list(range(1, top + 1)), {"a": [10 * i for i in range(1, top + 1)]}]])
      assert r.ok, r.error
      r = doc.apply([["BulkRemoveRecord", "T", [i for i in range(1, top + 1) if i not in lo]]])
      assert r.ok, r.error
      r = doc.apply([["AddRecord", "T", top, {"a": 10 * top}]])
      assert r.ok, r.error
    elif how == "replace":
      r = doc.apply([["ReplaceTableData", "T", list(ids), {"a": [10 * i for i in ids]}]])
      assert r.ok, r.error
    elif ids:
      r = doc.apply([["BulkAddRecord", "T", list(ids), {"a": [10 * i for i in ids]}]])
      assert r.ok, r.error
    if rows_of(doc) != sorted(ids):
      from gx.common import Infra
      raise Infra("could not build table state %r (%s): rows are %r" % (ids, how, rows_of(doc)))
    self.state = (list(ids), how)
    self.base = doc.snapshot()

  def request(self, kind, req, note=""):
    ck, doc = self.ck, self.doc
    before = rows_of(doc)
    vals = [self.marker + k for k in range(len(req))]
    self.marker += len(req) + 1
    action = make_action(kind, "T", req, vals)
    snap_before = self.base
    res = doc.apply([action])
    snap_after = doc.snapshot()
    ck.evaluated()
    replay = {"state": self.state[0], "how": self.state[1], "action": action}
    bad = oracle(kind, "T", req, vals, before, res, snap_before, snap_after)
    if bad:
      ck.violation(bad[0], bad[1], replay)
      ck.count("oracle:" + ("known-class" if bad[0] in (SIG_REPEAT, SIG_ZERO, SIG_CLASH) else "other"))
    # what the model is asked
    op = {"m": "rowids", "op": "add", "rows": before, "req": list(req), "replace": kind == "ReplaceTableData"}
    if res.ok:
      if kind == "ReplaceTableData":
        ids = stored_ids(res, "T", kind) or []
      elif kind == "AddRecord":
        ids = [res.ret[0]]
      else:
        ids = list(res.ret[0])
      real = {"ids": ids, "rows": list(snap_after["T"]["ids"])}
    else:
      real = {"error": res.error[0]}
    self.cases.append((op, real, replay))
    # coverage
    ck.count("accepted" if res.ok else "rejected:" + res.error[0])
    autos = sum(1 for x in req if x is None or x < 0)
    expl = len(req) - autos
    if res.ok and autos and expl:
      ck.nontrivial_case([self.state[0], kind, list(req)])
      ck.sample({"rows_before": before, "action": action, "ret": res.ret, "rows_after": snap_after["T"]["ids"]})
    elif not res.ok and len(req) >= 2:
      ck.nontrivial_case([self.state[0], kind, list(req)])
    # restore
    if res.ok and snap_after != snap_before:
      r2 = doc.apply([["ApplyUndoActions", res.raw_undo]])
      if not r2.ok or doc.snapshot() != self.base:
        ck.count("restore_by_rebuild")
        self.set_state(*self.state)
    return res


VALUES = [None, -1, -2, 0, 1, 2, 3, 5, LIMIT + 1]
STATES = [[], [1], [1, 2], [2, 5]]
WITNESSES = [   # the Lean negation witnesses (C27.lean), replayed on the engine
  ([1, 2], "BulkAddRecord", [5, 5]),
  ([1, 2], "BulkAddRecord", [None, 3, None]),
  ([1, 2], "AddRecord", [0]),
  ([1, 2], "ReplaceTableData", [3, 3]),
  ([1, 2], "ReplaceTableData", [None, 1]),
  ([1, 2], "ReplaceTableData", [0]),
]


def exhaustive(ck, run):
  hows = ["explicit"] if ck.tier == "quick" else ["explicit", "grown", "replace"]
  for how in hows:
    for st in STATES:
      run.set_state(st, how)
      for n in range(0, 4):
        for req in itertools.product(VALUES, repeat=n):
          if ck.tier == "quick" and n == 3 and how == "explicit" and ck.rng.random() > 0.4:
            # quick tier: 40% of the length-3 lists per state for BulkAddRecord, 16% for Replace
            continue
          run.request("BulkAddRecord", list(req))
          if n == 1:
            run.request("AddRecord", list(req))
          if n < 3 or ck.tier != "quick" or ck.rng.random() < 0.4:
            run.request("ReplaceTableData", list(req))


def random_histories(ck, run):
  """A document that keeps evolving: requests are NOT undone; rows are removed now and then."""
  rng = ck.rng
  n_hist = 3 if ck.tier == "quick" else 60
  n_steps = 120 if ck.tier == "quick" else 250
  for h in range(n_hist):
    run.set_state(rng.choice(STATES + [[3], [1, 4, 9], [7]]), rng.choice(["explicit", "grown", "replace"]))
    history = [["<state>", run.state[0], run.state[1]]]
    for s in range(n_steps):
      before = rows_of(run.doc)
      hi = max(before) if before else 0
      roll = rng.random()
      if roll < 0.12 and before:
        k = rng.randint(1, min(3, len(before)))
        gone = rng.sample(before, k)
        if rng.random() < 0.5:
          gone = sorted(before)[-k:]      # remove from the top: next_row_id goes down again
        act = ["BulkRemoveRecord", "T", gone]
        r = run.doc.apply([act])
        assert r.ok, r.error
        history.append(act)
        run.base = run.doc.snapshot()
        continue
      n = rng.choice([1, 1, 2, 2, 3, 3, 4, 5, 6])
      pool = [None, None, None, -1, -2, -1, hi + 1, hi + 2, hi + 3, hi + 4, hi + 6]
      style = rng.random()
      if style < 0.55:
        # can-be-satisfied requests: distinct fresh explicit ids in any order, holes below the maximum
        holes = [i for i in range(1, hi) if i not in before]
        fresh = holes[:3] + [hi + 1, hi + 2, hi + 3, hi + 5, hi + 9]
        rng.shuffle(fresh)
        req = []
        for k in range(n):
          if rng.random() < 0.5 or not fresh:
            req.append(rng.choice([None, None, -1, -2, -7]))
          else:
            req.append(fresh.pop())
      elif style < 0.9:
        req = [rng.choice(pool + before[:3] + [0, 1, 2]) for k in range(n)]
      else:
        req = [rng.choice(pool + [LIMIT + 1, LIMIT + 5, 2 * LIMIT, 0]) for k in range(n)]
      kind = rng.choice(["BulkAddRecord", "BulkAddRecord", "BulkAddRecord", "ReplaceTableData"])
      if n == 1 and rng.random() < 0.5:
        kind = "AddRecord"
      if len(before) + n > 40:
        kind = "ReplaceTableData"
      # evolve: do not undo accepted requests here
      vals = [run.marker + k for k in range(n)]
      run.marker += n + 1
      action = make_action(kind, "T", req, vals)
      snap_before = run.base
      res = run.doc.apply([action])
      snap_after = run.doc.snapshot()
      ck.evaluated()
      replay = {"history": list(history), "action": action}
      bad = oracle(kind, "T", req, vals, before, res, snap_before, snap_after)
      if bad:
        ck.violation(bad[0], bad[1], replay)
      op = {"m": "rowids", "op": "add", "rows": before, "req": list(req), "replace": kind == "ReplaceTableData"}
      if res.ok:
        ids = (stored_ids(res, "T", kind) or []) if kind == "ReplaceTableData" else \
              ([res.ret[0]] if kind == "AddRecord" else list(res.ret[0]))
        real = {"ids": ids, "rows": list(snap_after["T"]["ids"])}
        history.append(action)
        ck.count("history_accepted")
        if any(x is None or x < 0 for x in req) and any(x is not None and x >= 0 for x in req):
          ck.nontrivial_case(["h", before, kind, req])
      else:
        real = {"error": res.error[0]}
        ck.count("history_rejected:" + res.error[0])
      run.cases.append((op, real, replay))
      run.base = snap_after


def freed_slots(ck, run):
  """Fixed family, in full on every tier: the table's largest row was added EXPLICITLY into a slot freed earlier
  (rows removed at the end of the id column, not adjacent to the last remaining row); then every kind of request
  with automatic / temporary ids.  Automatic ids must lie above every existing id, whatever the allocator cached."""
  for st in ([1, 2, 3, 6], [1, 4], [3], [1, 2, 5], [2, 7]):
    run.set_state(st, "freed")
    top = max(st)
    for kind, req in (("AddRecord", [None]), ("AddRecord", [-1]), ("BulkAddRecord", [None]),
                      ("BulkAddRecord", [None, -1, None]), ("BulkAddRecord", [None, top + 3]),
                      ("BulkAddRecord", [-1, -2]), ("BulkAddRecord", [top + 2, None]),
                      ("ReplaceTableData", [None, None])):
      run.request(kind, req)
      ck.count("freed_slot_requests")


def boundary(ck, run):
  """1,000,000 itself is the largest accepted id.  Run LAST on the shared document: the id column grows
  to that size and every later next_row_id() would scan it."""
  doc = run.doc
  run.set_state([])
  snap0 = run.base
  out = []
  history = [["<state>", [], "explicit"]]
  for req in ([LIMIT], [LIMIT + 1]):
    before = rows_of(doc)
    action = ["BulkAddRecord", "T", req, {"a": [7]}]
    res = doc.apply([action])
    snap1 = doc.snapshot()
    ck.evaluated()
    replay = {"history": list(history), "action": action}
    bad = oracle("BulkAddRecord", "T", req, [7], before, res, snap0, snap1)
    if bad:
      ck.violation(bad[0], bad[1], replay)
    ck.count("boundary_%d_%s" % (req[0], "accepted" if res.ok else "rejected"))
    op = {"m": "rowids", "op": "add", "rows": before, "req": req, "replace": False}
    real = {"ids": list(res.ret[0]), "rows": list(snap1["T"]["ids"])} if res.ok else {"error": res.error[0]}
    out.append((op, real, replay))
    if res.ok:
      history.append(action)
    snap0 = snap1
  # the next automatic id after 1,000,000 is 1,000,001: automatic ids are NOT limited (the limit is on
  # explicit ids only); recorded as an observation, the property does not forbid it
  res = doc.apply([["AddRecord", "T", None, {"a": 8}]])
  ck.count("auto_id_after_limit:%s" % (res.ret[0] if res.ok else res.error[0]))
  return out


def compare_with_model(ck, cases):
  model = ck.driver([c[0] for c in cases])
  mism = None
  for (op, real, replay), mo in zip(cases, model):
    if "error" in real:
      same = mo.get("error") == real["error"]
    else:
      same = "error" not in mo and mo.get("ids") == real["ids"] and mo.get("rows") == sorted(real["rows"])
    if not same:
      ck.count("model_impl_disagreements")
      if mism is None:
        mism = {"op": op, "impl": real, "model": mo, "replay": replay}
  if mism and not ck.has_impl_violation():
    ck.broken("correspondence doBulkAddOrReplace vs Grist.RowIds.addRequest",
              "model and engine differ and the property's clauses hold on all explored inputs", mism)
  return mism


def run(ck):
  ck.rule = ("exhaustive: all id lists of length <= 3 over {None,-1,-2,0,1,2,3,5,1000001} x table states "
             "{[],[1],[1,2],[2,5]} x {BulkAddRecord, ReplaceTableData, AddRecord for single ids} (quick: 40% / 16% "
             "of the length-3 lists; thorough: all, for three ways of building the state incl. an id column "
             "larger than the largest row); plus evolving histories of random requests (lengths <= 6, holes, ids "
             "around the maximum, removals between requests), the freed-slot family (largest row added explicitly into a slot "
             "freed earlier, then 8 kinds of requests, 5 states) and the 1,000,000 boundary; non-trivial = accepted "
             "request mixing automatic and explicit ids, or rejected request of >= 2 ids; distinct by (state, action, ids)")
  ck.assumptions = ["one table with Int / Ref / RefList columns; requests carry one Int column (position marker)",
                    "row ids in requests are ints or None (JSON clients cannot send anything else that passes `< 0`)",
                    "undo of an accepted add restores the state between exhaustive cases (verified by snapshot each time)"]
  ck.lean(["GristProps.C27"])
  run_ = Runner(ck)
  # the Lean negation witnesses first
  for st, kind, req in WITNESSES:
    run_.set_state(st)
    res = run_.request(kind, req)
    ck.count("witness_reproduced" if res.ok else "witness_no_longer_accepted")
  exhaustive(ck, run_)
  freed_slots(ck, run_)
  random_histories(ck, run_)
  cases = run_.cases + boundary(ck, run_)
  compare_with_model(ck, cases)


def replay(ck, rp):
  r = rp["replay"]
  if "replay" in r and "op" in r:      # a correspondence mismatch record
    r = r["replay"]
  run_ = Runner(ck)
  action = r["action"]
  if "history" in r:
    first = r["history"][0]
    run_.set_state(first[1], first[2])
    for act in r["history"][1:]:
      res = run_.doc.apply([act])
      print("replay: history %r -> %s" % (act, "ok" if res.ok else res.error))
    run_.base = run_.doc.snapshot()
  else:
    run_.set_state(r["state"], r.get("how", "explicit"))
  kind, table = action[0], action[1]
  req = [action[2]] if kind == "AddRecord" else list(action[2])
  vals = [action[3]["a"]] if kind == "AddRecord" else list(action[3]["a"])
  before = rows_of(run_.doc)
  res = run_.doc.apply([action])
  after = run_.doc.snapshot()
  ck.evaluated()
  bad = oracle(kind, table, req, vals, before, res, run_.base, after)
  print("replay: rows %r, %r -> %s ret=%r rows now %r -> %s" % (
    before, action, "accepted" if res.ok else "rejected %r" % (res.error,), res.ret, after["T"]["ids"],
    bad or "property holds"))
  if bad:
    ck.violation(bad[0], bad[1], r)
  op = {"m": "rowids", "op": "add", "rows": before, "req": req, "replace": kind == "ReplaceTableData"}
  print("replay: model says %r" % (ck.driver([op])[0],))
  ck.nontrivial_case(["replay", action]); ck.nontrivial_case("replay")
  ck.lean(["GristProps.C27"])
