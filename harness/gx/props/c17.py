"""
C17  Renames inside access rules and conditions are exact.

Interpretation (decisions; see also lean/GristProps/C17.lean):
 * Which references a rename of (table, col) touches, per kind of formula (this is what the three
   collectors document):
     ACL rule formula      rec.X / $X / newRec.X -> column X of the rule's resource table;
                           user.Attr.X           -> column X of the lookup table of user attribute Attr;
     dropdown condition    rec.X / $X            -> column X of the column's own table;
                           choice.X              -> column X of the table the Ref/RefList column points to
                                                    (none for other column types);
     trigger condition     rec.X / $X / oldRec.X -> column X of the trigger's table.
   Anything else that merely looks similar (x.rec.A, rec.A.B's outer attribute, user.A, oldRec.A in an
   ACL rule, names inside strings and comments, other tables' columns with the same name) is NOT a
   reference and must stay.
 * "its parsed tree equals the old tree with exactly those references renamed; all other text
   unchanged": the new text must be character-for-character the old text with the name tokens of
   exactly those references replaced (checked with positions taken from CPython's own `ast`, not
   asttokens), and Python's parse of the new text must equal the old parse with those attribute names
   replaced; parse_predicate_formula(new) must equal the old parsed tree renamed.
 * "Formulas that do not parse are left untouched": process_renames must RETURN the text unchanged
   (no exception) both for text that is not Python and for Python outside the predicate subset.
 * stored parsed forms: aclFormulaParsed == parse_predicate_formula_json(aclFormula) and
   dropdownCondition.parsed / trigger parsed == parse of the stored text, after every rename.
 * ACL resource colIds: a comma separated list without blanks; exactly the entries equal to a renamed
   column of the resource's table change.  userAttributes.lookupColId changes iff (tableId,
   lookupColId) is renamed (compared as JSON values: json.dumps re-serialises the object).
 * Preconditions respected by the generators: column ids and new names are ASCII identifiers that are
   not Python keywords (Grist sanitises column ids; `$name` is only recognised for ASCII names).

Theorems (lean/GristProps/C17.lean; model lean/GristModel/PredRename.lean on top of the Textbuilder
and Predicate models; proofs lean/GristProofs/PredRename.lean): process_renames_exact,
renamed_is_printed, rename_reparses, only_name_tokens_change, no_applicable_rename_noop,
unsupported_untouched, unparsable_untouched_partial, unparsable_raises,
unparsable_untouched_full_is_false (witness `rec.A +`, replayed here), convert_commutes_with_rename,
resource_colIds_renamed, resource_other_untouched, lookupColId_renamed.

Tie.  Function level: the harness prints every generated formula as LEXEMES (name token of an Attribute
node / `$name` / other), so it knows the ground truth the theorems talk about; the parser parameters
are validated on every case — Python's `ast` of the text equals the generated tree, the entity
positions reported by the REAL collectors (asttokens) equal the model's lexeme offsets, on the old
and on the renamed text — and model `processRenames` == real `process_renames` (text or SyntaxError),
model entity list == real entity list, `convert (renameExpr e)` == `renameJson (convert e)` == real
parse of the new text.  Engine level: the three perform_*_renames run inside real user actions
(RenameColumn, RenameTable, label change, bulk colId update, ModifyColumn colId); stored texts,
colIds, lookupColId are compared with the model for the actual renames of each bundle.
Oracle (independent of the model): occurrences and their positions from CPython's own `ast`
(end_col_offset), expected text by splicing, tree comparison by an independent renamer of the ast dump
and of the parsed JSON, stored parsed forms re-parsed with parse_predicate_formula(_json).

Summary tables (engine level).  Most generated documents, and one fixed history on every run
(fixed_summary_history), have summary tables carrying ACL resources / rules, a user attribute's lookup
table, dropdown conditions (choice.X of Ref/RefList columns that point to a summary table; rec.X/$X of a
Ref column OF a summary table) and trigger conditions.  Renaming the source column of a group-by column
renames the group-by column AND the summary table (T_summary_a -> T_summary_b) in one user action; the
engine's rename bookkeeping is keyed by table id, so the rules must be rewritten while the old table id is
still current.  The oracle reads the column renames and table renames of a bundle off the metadata
(before/after, by row id), keyed by the table id BEFORE the bundle, and demands of every formula, resource
colIds and lookupColId exactly the old text with those references renamed (and tableId following the table
rename).  The Lean tie for these is the same per-formula tie as for ordinary tables (the model recomputes
the text from the observed renames); the ordering inside _updateColumnRecords is not modelled.
Counters eng_summary_*: how many such bundles / formulas / colIds / lookupColIds each run exercised.

Findings on the unchanged tree (known_findings.json): unparsable text makes process_renames raise
SyntaxError (get_dollar_replacer is called before the try) — and, through the engine, an unparsable
dropdown condition makes every RenameColumn fail; dropdown conditions stored on view FIELDS are not
renamed.
"""
import ast
import json
import warnings

from gx.props import c40 as P40

LEAN_MODULES = ["GristProps.C17"]

KINDS = ("acl", "dc", "trigger")
REC_NAMES = {"acl": ("rec", "newRec"), "dc": ("rec",), "trigger": ("rec", "oldRec")}

TABLES = ["T1", "T2", "T3"]
COLS = ["A", "B", "C", "AA", "name", "city", "rec", "choice", "user", "Email", "x1", "_p"]
NEW_NAMES = ["A", "B", "AA", "A2", "name", "city2", "Z", "rec", "choice", "newName", "x", "B_", "long_new_column_name",
             "_q"]
USER_ATTRS = ["School", "Other", "Bad"]


# --------------------------------------------------------------------------------------------
# generated formulas: dict nodes in the JSON PExpr format of c40 (+ "src" for constants, "tmpl" for
# unsupported constructs), printed to LEXEMES: ["a", name] = the name token of an Attribute node,
# ["d", name] = `$name`, ["o", text] = anything else

def to_dict(n):
  k = n[0]
  if k == "bool": return {"k": "BoolOp", "op": n[1], "values": [to_dict(v) for v in n[2]]}
  if k == "bin": return {"k": "BinOp", "op": n[1], "left": to_dict(n[2]), "right": to_dict(n[3])}
  if k == "not": return {"k": "UnaryOp", "op": "Not", "operand": to_dict(n[1])}
  if k == "cmp": return {"k": "Compare", "left": to_dict(n[2]), "ops": [n[1]], "comparators": [to_dict(n[3])]}
  if k == "name": return {"k": "Name", "id": n[1]}
  if k == "dollar": return {"k": "Dollar", "name": n[1]}
  if k == "const": return {"k": "Constant", "src": n[1]}
  if k == "attr": return {"k": "Attribute", "value": to_dict(n[1]), "attr": n[2]}
  if k == "list": return {"k": "List", "elts": [to_dict(e) for e in n[1]]}
  if k == "tuple": return {"k": "Tuple", "elts": [to_dict(e) for e in n[1]]}
  if k == "call": return {"k": "Call", "func": to_dict(n[1]), "args": [to_dict(a) for a in n[2]],
                          "keywords": [[kw, to_dict(e)] for kw, e in n[3]]}
  if k == "rawt": return {"k": "Unsupported", "tmpl": n[1], "children": [to_dict(c) for c in n[2]]}
  raise ValueError(k)


P_OR, P_AND, P_NOT, P_CMP, P_ADD, P_MUL, P_ATOMNUM, P_ATOM = 1, 2, 3, 4, 5, 6, 8, 9


def prec(d):
  k = d["k"]
  if k == "BoolOp": return P_OR if d["op"] == "Or" else P_AND
  if k == "UnaryOp": return P_NOT
  if k == "Compare": return P_CMP
  if k == "BinOp": return P40.BIN_SYM[d["op"]][1]
  if k == "Constant": return P_ATOMNUM if d["src"][:1] in "0123456789." else P_ATOM
  if k == "Unsupported": return 0
  return P_ATOM


class LexPrinter(object):
  def __init__(self, rng, trivia):
    self.rng = rng
    self.trivia = trivia
    self.lex = []

  def o(self, text):
    if not text:
      return
    if self.lex and self.lex[-1][0] == "o":
      self.lex[-1][1] += text
    else:
      self.lex.append(["o", text])

  def occ(self, kind, name, node):
    self.lex.append([kind, name])
    node["ix"] = len(self.lex) - 1

  def sp(self, depth):
    if not self.trivia:
      return
    rng = self.rng
    r = rng.random()
    if r < 0.55:
      return
    if r < 0.85 or self.trivia < 2:
      self.o(rng.choice([" ", "  ", "\t", " \x0c "]))
    elif depth == 0:
      self.o(rng.choice([" ", " \\\n", "\\\n  ", " "]))
    elif r < 0.93:
      self.o(rng.choice(["\n", "\n", "\r\n"]) + rng.choice(["", " ", "    ", "\t"]))
    else:
      self.o(" " + gen_comment(rng) + "\n")

  def p(self, n, need, depth):
    extra = self.trivia and self.rng.random() < 0.08
    if prec(n) < need or extra:
      self.o("(")
      self.sp(depth + 1)
      self.p0(n, depth + 1)
      self.sp(depth + 1)
      self.o(")")
    else:
      self.p0(n, depth)

  def p0(self, n, d):
    k = n["k"]
    if k == "BoolOp":
      me = prec(n)
      for i, v in enumerate(n["values"]):
        if i:
          self.sp(d); self.o(" and " if n["op"] == "And" else " or "); self.sp(d)
        self.p(v, me + 1, d)
    elif k == "UnaryOp":
      self.o("not "); self.sp(d); self.p(n["operand"], P_NOT, d)
    elif k == "Compare":
      self.p(n["left"], P_CMP + 1, d)
      self.o(" "); self.sp(d); self.o(P40.CMP_SYM[n["ops"][0]] + " "); self.sp(d)
      self.p(n["comparators"][0], P_CMP + 1, d)
    elif k == "BinOp":
      sym, me = P40.BIN_SYM[n["op"]]
      self.p(n["left"], me, d); self.sp(d); self.o(sym); self.sp(d); self.p(n["right"], me + 1, d)
    elif k == "Name":
      self.o(n["id"])
    elif k == "Dollar":
      self.occ("d", n["name"], n)
    elif k == "Constant":
      self.o(n["src"])
    elif k == "Attribute":
      self.p(n["value"], P_ATOM, d); self.sp(d); self.o("."); self.sp(d)
      self.occ("a", n["attr"], n)
    elif k in ("List", "Tuple"):
      self.seq("[" if k == "List" else "(", [(None, e) for e in n["elts"]], "]" if k == "List" else ")", d,
               k == "Tuple" and len(n["elts"]) == 1)
    elif k == "Call":
      self.p(n["func"], P_ATOM, d); self.sp(d)
      self.seq("(", [(None, e) for e in n["args"]] + [(("**" if kw is None else kw), e) for kw, e in n["keywords"]],
               ")", d, False)
    elif k == "Unsupported":
      parts = split_template(n["tmpl"])
      for part in parts:
        if isinstance(part, int):
          self.o("("); self.p(n["children"][part], 0, d + 1); self.o(")")
        else:
          self.o(part)
    else:
      raise ValueError(k)

  def seq(self, opn, items, close, d, force_tail):
    self.o(opn); self.sp(d + 1)
    for i, (kw, e) in enumerate(items):
      if i:
        self.o(","); self.sp(d + 1)
      if kw == "**":
        self.o("**"); self.sp(d + 1)
      elif kw is not None:
        self.o(kw); self.sp(d + 1); self.o("="); self.sp(d + 1)
      self.p(e, P_NOT, d + 1)
    if force_tail or (items and self.trivia and self.rng.random() < 0.15):
      self.o(",")
    self.sp(d + 1)
    self.o(close)


def split_template(tmpl):
  out, i = [], 0
  while i < len(tmpl):
    if tmpl[i:i + 3] in ("{0}", "{1}", "{2}"):
      out.append(int(tmpl[i + 1])); i += 3
    else:
      if out and isinstance(out[-1], str):
        out[-1] += tmpl[i]
      else:
        out.append(tmpl[i])
      i += 1
  return out


COMMENT_BITS = ["rec.A is $A", "$B", "newRec.A oldRec.B choice.city", "user.School.name", "plain", "'rec.A'",
                "\xe9t\xe9 rec.\xe9t\xe9", ")", ""]


def gen_comment(rng):
  return "#" + rng.choice(["", " ", "\t"]) + rng.choice(COMMENT_BITS) + rng.choice(["", " "])


def print_lex(lex, mode):
  """'O' = the formula as stored ($name); 'N' = `$` read as `rec.`; 'M' = `$` marked for the ast dump."""
  pre = {"O": "$", "N": "rec.", "M": P40.DOLLAR_MARK + "."}[mode]
  return "".join((pre + t) if k == "d" else t for k, t in lex)


def offsets(lex, mode):
  pre = {"O": 1, "N": 4}[mode]
  out, pos = [], 0
  for k, t in lex:
    out.append(pos + (pre if k == "d" else 0))     # start of the NAME inside the lexeme
    pos += len(t) + (pre if k == "d" else 0)
  return out


def visit_order(d, out):
  """Attribute / Dollar nodes in the order TreeConverter visits them (Call: args, keywords, func)."""
  k = d["k"]
  if k == "BoolOp":
    for v in d["values"]: visit_order(v, out)
  elif k == "BinOp":
    visit_order(d["left"], out); visit_order(d["right"], out)
  elif k == "UnaryOp":
    visit_order(d["operand"], out)
  elif k == "Compare":
    visit_order(d["left"], out)
    for c in d["comparators"]: visit_order(c, out)
  elif k == "Attribute":
    visit_order(d["value"], out); out.append(d)
  elif k == "Dollar":
    out.append(d)
  elif k in ("List", "Tuple"):
    for e in d["elts"]: visit_order(e, out)
  elif k == "Call":
    for a in d["args"]: visit_order(a, out)
    for kw in d["keywords"]: visit_order(kw[1], out)
    visit_order(d["func"], out)
  elif k == "Unsupported":
    for part in split_template(d["tmpl"]):
      if isinstance(part, int): visit_order(d["children"][part], out)
  return out


# --------------------------------------------------------------------------------------------
# generator: c40's typed generator with leaves that refer to columns

class Gen17(P40.Gen):
  def __init__(self, rng, kind, ill_typed=0.05, raw_rate=0.0, cols=None, attr_cols=None):
    P40.Gen.__init__(self, rng, ill_typed=ill_typed, raw_rate=raw_rate)
    self.kind = kind
    self.cols = cols or COLS
    self.attr_cols = attr_cols

  def ref(self):
    rng = self.rng
    COLS = self.cols
    if self.attr_cols and rng.random() < 0.4:
      # user.<Attr>.<column of the attribute's lookup table>
      a = rng.choice(sorted(self.attr_cols))
      return ("attr", ("attr", ("name", "user"), a), rng.choice(self.attr_cols[a]))
    col = rng.choice(COLS)
    r = rng.random()
    if r < 0.22: return ("dollar", col)
    if r < 0.45: return ("attr", ("name", "rec"), col)
    if r < 0.55: return ("attr", ("name", rng.choice(["newRec", "oldRec"])), col)
    if r < 0.67: return ("attr", ("name", "choice"), col)
    if r < 0.80: return ("attr", ("attr", ("name", "user"), rng.choice(USER_ATTRS + ["Nope"])), col)
    # distractors
    r = rng.random()
    if r < 0.15: return ("attr", ("attr", ("name", "x"), "rec"), col)                      # x.rec.A
    if r < 0.30: return ("attr", ("attr", ("name", "rec"), rng.choice(COLS)), col)         # rec.B.A
    if r < 0.40: return ("attr", ("dollar", rng.choice(COLS)), col)                        # $B.A
    if r < 0.50: return ("attr", ("name", "user"), col)                                    # user.A
    if r < 0.60: return ("attr", ("name", rng.choice(["foo", "Rec", "rec2", "choice_", "T1"])), col)
    if r < 0.70: return ("const", P40.str_literal(rng, rng.choice(["rec." + col, "$" + col, "choice." + col])))
    if r < 0.78: return ("name", col)
    if r < 0.86: return ("call", ("attr", ("attr", ("name", "rec"), col), "lower"), [], [])  # rec.A.lower()
    if r < 0.93: return ("attr", ("call", ("name", "rec"), [], []), col)                   # rec().A
    return ("attr", ("attr", ("attr", ("name", "user"), "School"), col), rng.choice(COLS))  # user.School.A.B

  def leaf(self, kind):
    if self.rng.random() < 0.6:
      return self.ref()
    return P40.Gen.leaf(self, kind)

  def raw(self, depth):
    tmpl, kind = self.rng.choice(P40.UNSUPPORTED_TEMPLATES)
    subs = [self.expr("any", max(0, depth - 1), allow_raw=False) for _ in range(3)]
    self.raw_used.append(kind)
    return ("rawt", tmpl, subs)


class Case(object):
  pass


def gen_context(rng, kind):
  ctx = {"kind": kind}
  if kind == "acl":
    ctx["table"] = rng.choice(TABLES + ["*"])
    ctx["attrs"] = {"School": rng.choice(TABLES), "Other": rng.choice(TABLES), "Bad": None}
    if rng.random() < 0.2:
      del ctx["attrs"]["Other"]
  elif kind == "dc":
    ctx["table"] = rng.choice(TABLES)
    ctx["ref"] = rng.choice(TABLES + [None])
  else:
    ctx["table"] = rng.choice(TABLES)
  return ctx


def gen_renames(rng):
  """{(table, col): new}; includes renames to names used elsewhere, swaps, same column name in
  several tables, and (rarely) no rename at all."""
  out = {}
  for _ in range(rng.choice([0, 1, 1, 1, 2, 2, 3, 5])):
    out[(rng.choice(TABLES), rng.choice(COLS))] = rng.choice(NEW_NAMES)
  if rng.random() < 0.15:
    t = rng.choice(TABLES)
    a, b = rng.sample(COLS, 2)
    out[(t, a)], out[(t, b)] = b, a                      # simultaneous swap
  return {k: v for k, v in out.items() if k[1] != v}


def make_case(rng, kind, depth, trivia, raw_rate=0.0, cols=None, attr_cols=None):
  g = Gen17(rng, kind, ill_typed=rng.choice([0.0, 0.05]), raw_rate=raw_rate, cols=cols, attr_cols=attr_cols)
  node = g.expr(rng.choice(["bool", "bool", "any"]), depth)
  if raw_rate and not g.raw_used:
    node = ("bool", "And", [node, g.raw(2)])
  tree = to_dict(node)
  pr = LexPrinter(rng, trivia)
  if trivia >= 2 and rng.random() < 0.1:
    pr.o(gen_comment(rng) + "\n")
  pr.p(tree, 0, 0)
  if trivia and rng.random() < 0.25:
    pr.o(rng.choice(["", " ", "  "]) + gen_comment(rng) + rng.choice(["", "\n", "\n# rec.A\n"]))
  c = Case()
  c.kind = kind
  c.lex = pr.lex
  c.tree = tree
  c.text = print_lex(c.lex, "O")
  c.ntext = print_lex(c.lex, "N")
  c.ctx = gen_context(rng, kind)
  c.renames = gen_renames(rng)
  c.raw = list(g.raw_used)
  c.nodes = visit_order(tree, [])
  c.ixs = [n["ix"] for n in c.nodes]
  return c


# --------------------------------------------------------------------------------------------
# the real code

def real_collector(kind):
  import acl, dropdown_condition, trigger_expression
  return {"acl": acl._ACLEntityCollector, "dc": dropdown_condition._DCEntityCollector,
          "trigger": trigger_expression._TriggerEntityCollector}[kind]()


def make_renamer(ctx, renames):
  """The closures `renamer` of the three perform_*_renames functions (they are local functions there;
  the engine-level part of this check runs the originals)."""
  kind = ctx["kind"]
  if kind == "acl":
    def renamer(subject):
      if subject.type == "recCol":
        table_id = ctx["table"]
      elif subject.type == "userAttrCol":
        table_id = ctx["attrs"].get(subject.extra)
      else:
        return None
      return renames.get((table_id, subject.name))
  elif kind == "dc":
    def renamer(subject):
      table_id = ctx["ref"] if subject.type == "choiceAttr" else ctx["table"]
      return renames.get((table_id, subject.name))
  else:
    def renamer(subject):
      return renames.get((ctx["table"], subject.name))
  return renamer


def real_process(text, ctx, renames):
  """-> ('ok', new_text, entities) | ('exc', class, msg)"""
  import predicate_formula
  coll = real_collector(ctx["kind"])
  try:
    with warnings.catch_warnings():
      warnings.simplefilter("ignore")
      new = predicate_formula.process_renames(text, coll, make_renamer(ctx, renames))
    return ("ok", new, [[e.type, e.start_pos, e.name, e.extra] for e in coll.entities])
  except RecursionError:
    raise
  except SyntaxError as e:   # includes IndentationError / TabError
    return ("exc", "SyntaxError", str(e)[:200])
  except Exception as e:     # pylint: disable=broad-except
    return ("exc", type(e).__name__, str(e)[:200])


def real_parse(text):
  import predicate_formula
  try:
    with warnings.catch_warnings():
      warnings.simplefilter("ignore")
      return ("ok", predicate_formula.parse_predicate_formula(text))
  except SyntaxError as e:
    return ("syntax", str(e))
  except Exception as e:     # pylint: disable=broad-except
    return ("exc", type(e).__name__)


# --------------------------------------------------------------------------------------------
# independent oracle: CPython's own ast (positions from end_col_offset), the property's reading of
# "refers to"

def target_table(ctx, value):
  """Which table's column does `value.X` denote?  value = ast node.  None = not a reference."""
  kind = ctx["kind"]
  if isinstance(value, ast.Name):
    if value.id in REC_NAMES[kind]:
      return ("t", ctx["table"])
    if kind == "dc" and value.id == "choice":
      return ("t", ctx.get("ref"))
    return None
  if kind == "acl" and isinstance(value, ast.Attribute) and isinstance(value.value, ast.Name) \
      and value.value.id == "user":
    return ("t", ctx["attrs"].get(value.attr))
  return None


def line_starts(text):
  """char offsets of line starts, lines as CPython's parser sees them (\\n, \\r\\n, \\r)."""
  starts, i = [0], 0
  while i < len(text):
    ch = text[i]
    if ch == "\r":
      i += 2 if text[i + 1:i + 2] == "\n" else 1
      starts.append(i)
    elif ch == "\n":
      i += 1
      starts.append(i)
    else:
      i += 1
  return starts


def char_offset(text, starts, lineno, col_bytes):
  base = starts[lineno - 1]
  # col is a UTF-8 byte offset within the line
  n, i = 0, base
  while n < col_bytes:
    n += len(text[i].encode("utf8"))
    i += 1
  return i


def expected_rename(ntext, ctx, renames):
  """-> (list of (start, end, old, new) in N-text coordinates, old dump, new dump) or None if the
  N-text is not a predicate formula Python can parse."""
  with warnings.catch_warnings():
    warnings.simplefilter("ignore")
    tree = ast.parse(ntext, mode="eval")
  starts = line_starts(ntext)
  edits = []
  for node in ast.walk(tree):
    if isinstance(node, ast.Attribute):
      tt = target_table(ctx, node.value)
      if tt is None:
        continue
      new = renames.get((tt[1], node.attr))
      if new is None:
        continue
      end = char_offset(ntext, starts, node.end_lineno, node.end_col_offset)
      edits.append((end - len(node.attr), end, node.attr, new, node))
  old_dump = P40.dump_expr(tree.body)
  for (_s, _e, _o, new, node) in edits:
    node.attr = new
  new_dump = P40.dump_expr(tree.body)
  return sorted(e[:4] for e in edits), old_dump, new_dump


def rename_json(tree, ctx, renames):
  """Independent renamer of the stored parsed tree (nested lists)."""
  if type(tree) is not list or not tree:
    return tree
  if tree[0] == "Attr" and len(tree) == 3:
    parent = tree[1]
    kind = ctx["kind"]
    table = "no"
    if type(parent) is list and parent[:1] == ["Name"] and len(parent) == 2:
      if parent[1] in REC_NAMES[kind]:
        table = ctx["table"]
      elif kind == "dc" and parent[1] == "choice":
        table = ctx.get("ref")
    elif kind == "acl" and type(parent) is list and parent[:1] == ["Attr"] and parent[1] == ["Name", "user"]:
      table = ctx["attrs"].get(parent[2])
    new = renames.get((table, tree[2])) if table != "no" else None
    return ["Attr", rename_json(parent, ctx, renames), new if new is not None else tree[2]]
  if tree[0] == "Const":
    return tree
  return [tree[0]] + [rename_json(x, ctx, renames) for x in tree[1:]]


def oracle_expected(lex, ctx, renames):
  """Independent expectation for a printed formula: the lexemes after the rename (None if the
  formula is outside the predicate subset: then it must stay as it is), and the dumps of Python's
  own parse before / after."""
  ntext = print_lex(lex, "N")
  mark = print_lex(lex, "M")
  with warnings.catch_warnings():
    warnings.simplefilter("ignore")
    dump = P40.dump_expr(ast.parse(mark, mode="eval").body)
  if P40.has_unsupported(dump):
    return None, dump, dump
  edits, _old, _new = expected_rename(ntext, ctx, renames)
  offN = offsets(lex, "N")
  pos2ix = {p: i for i, p in enumerate(offN) if lex[i][0] in "ad"}
  new_lex = [list(l) for l in lex]
  for (s, _e, old, nw) in edits:
    if s not in pos2ix or lex[pos2ix[s]][1] != old:
      from gx.common import Infra
      raise Infra("oracle: reference at %d (%r) is not a name lexeme of %r" % (s, old, ntext))
    new_lex[pos2ix[s]][1] = nw
  with warnings.catch_warnings():
    warnings.simplefilter("ignore")
    new_dump = P40.dump_expr(ast.parse(print_lex(new_lex, "M"), mode="eval").body)
  return new_lex, dump, new_dump


def rename_dump(d, ctx, renames):
  """old dump with the denoted references renamed (independent tree-level reference)."""
  def target(v):
    kind = ctx["kind"]
    if v["k"] == "Name":
      if v["id"] in REC_NAMES[kind]: return ("t", ctx["table"])
      if kind == "dc" and v["id"] == "choice": return ("t", ctx.get("ref"))
      return None
    if kind == "acl" and v["k"] == "Attribute" and v["value"]["k"] == "Name" and v["value"]["id"] == "user":
      return ("t", ctx["attrs"].get(v["attr"]))
    return None

  def go(x):
    if isinstance(x, list):
      return [go(y) for y in x]
    if not isinstance(x, dict):
      return x
    out = {k: go(v) for k, v in x.items()}
    if x.get("k") == "Attribute":
      tt = target(x["value"])
      if tt is not None:
        new = renames.get((tt[1], x["attr"]))
        if new is not None:
          out["attr"] = new
    elif x.get("k") == "Dollar":
      new = renames.get((ctx["table"], x["name"]))
      if new is not None:
        out["name"] = new
    return out
  return go(d)


def model_op(lex, dump, ixs, ctx, renames, dparse=True):
  return {"m": "predrename", "op": "rename", "lex": lex, "expr": dump, "ixs": ixs, "dparse": dparse,
          "kind": ctx["kind"], "table": ctx["table"], "ref": ctx.get("ref"),
          "attrs": [[k, v] for k, v in sorted(ctx.get("attrs", {}).items())],
          "renames": [[t, c, n] for (t, c), n in sorted(renames.items())]}


def ixs_of(lex, dump):
  """lexeme index of every Attribute/Dollar node of the dump in visiting order: the k-th name
  lexeme in TEXT order belongs to the k-th node in SOURCE order; source order of the name tokens of
  a dump = an in-order walk (value before attr; args in order; func before args)."""
  order = []

  def src(d):
    k = d["k"]
    if k == "BoolOp":
      for v in d["values"]: src(v)
    elif k == "BinOp":
      src(d["left"]); src(d["right"])
    elif k == "UnaryOp":
      src(d["operand"])
    elif k == "Compare":
      src(d["left"])
      for c in d["comparators"]: src(c)
    elif k == "Attribute":
      src(d["value"]); order.append(id(d))
    elif k == "Dollar":
      order.append(id(d))
    elif k in ("List", "Tuple"):
      for e in d["elts"]: src(e)
    elif k == "Call":
      src(d["func"])
      for a in d["args"]: src(a)
      for kw in d["keywords"]: src(kw[1])
  src(dump)
  name_ix = [i for i, l in enumerate(lex) if l[0] in "ad"]
  if len(name_ix) != len(order):
    return None
  at = dict(zip(order, name_ix))
  return [at[id(n)] for n in visit_order(dump, [])]


SIG_UNPARSABLE = "unparsable formula: process_renames raises SyntaxError instead of returning it unchanged"


def check_function_cases(ck, cases):
  """cases: objects with .lex .ctx .renames .stream"""
  ops, meta = [], []
  for c in cases:
    ck.evaluated()
    ck.count("fn_stream_" + c.stream)
    text = print_lex(c.lex, "O")
    replay = {"level": "function", "lex": c.lex, "ctx": c.ctx, "renames": [[t, cc, n] for (t, cc), n in c.renames.items()]}
    rp = real_process(text, c.ctx, c.renames)
    if c.stream == "invalid":
      # ---- oracle: text that does not parse must come back unchanged
      import codebuilder
      try:
        with warnings.catch_warnings():
          warnings.simplefilter("ignore")
          codebuilder.get_dollar_replacer(text)
        dparse = True
      except SyntaxError:
        dparse = False
      if rp[0] == "exc":
        if rp[1] == "SyntaxError":
          ck.violation(SIG_UNPARSABLE, "%r raised SyntaxError: %s" % (text, rp[2]), replay)
        else:
          ck.violation("process_renames raises %s on an unparsable formula" % rp[1], "%r: %s" % (text, rp[2]), replay)
      elif rp[1] != text:
        ck.violation("unparsable formula changed", "%r -> %r" % (text, rp[1]), replay)
      ops.append(model_op(c.lex, None, [], c.ctx, c.renames, dparse=dparse))
      meta.append((c, rp, None, None, replay))
      continue
    if rp[0] == "exc":
      ck.violation("process_renames raises %s on a formula of the subset" % rp[1], "%r: %s" % (text, rp[2]), replay)
      continue
    new_text, ents = rp[1], rp[2]
    new_lex, old_dump, new_dump = oracle_expected(c.lex, c.ctx, c.renames)
    ixs = ixs_of(c.lex, old_dump) if new_lex is not None else [n["ix"] for n in c.nodes]
    if new_lex is not None and ixs != c.ixs:
      from gx.common import Infra
      raise Infra("generator/ast disagree on the lexeme indices for %r" % text)
    if new_lex is None:
      ck.count("fn_outside_subset")
      if new_text != text:
        ck.violation("formula outside the predicate subset was changed", "%r -> %r" % (text, new_text), replay)
    else:
      exp_text = print_lex(new_lex, "O")
      n_edits = sum(1 for a, b in zip(c.lex, new_lex) if a != b)
      ck.count("fn_edits_%d" % min(n_edits, 3))
      # ---- oracle: exact text
      if new_text != exp_text:
        ck.violation("renamed formula text differs from the expected text (%s)" % c.ctx["kind"],
                     "%r with %r in %r -> %r, expected %r" % (text, c.renames, c.ctx, new_text, exp_text), replay)
        continue
      # ---- oracle: tree of the new text = old tree renamed
      if rename_dump(old_dump, c.ctx, c.renames) != new_dump:
        ck.violation("parse of the new text is not the old tree renamed", "%r -> %r" % (text, new_text), replay)
        continue
      po, pn = real_parse(text), real_parse(new_text)
      if po[0] != "ok" or pn[0] != "ok" or rename_json(po[1], c.ctx, c.renames) != pn[1]:
        ck.violation("parse_predicate_formula(new) is not the old parsed tree renamed",
                     "%r -> %r: %r / %r" % (text, new_text, po, pn), replay)
        continue
      if n_edits:
        ck.nontrivial_case([text, sorted(map(list, c.renames.items())), c.ctx["kind"]])
        ck.sample({"kind": c.ctx["kind"], "text": text, "renames": [[t, cc, n] for (t, cc), n in c.renames.items()],
                   "new": new_text})
    ops.append(model_op(c.lex, old_dump, c.ixs, c.ctx, c.renames))
    meta.append((c, rp, new_lex, new_dump, replay))
    if new_lex is not None:
      # hypotheses hD'/hP' of rename_reparses: the parsers read the renamed printed formula
      ops.append(model_op(new_lex, new_dump, c.ixs, c.ctx, {}))
      meta.append((c, real_process(print_lex(new_lex, "O"), c.ctx, {}), "after", None, replay))
  outs = ck.driver(ops)
  mism = None
  for (c, rp, new_lex, new_dump, replay), mo in zip(meta, outs):
    if "error" in mo:
      from gx.common import Infra
      raise Infra("driver error %r" % (mo,))
    ck.count("fn_model_compared")
    text = print_lex(c.lex, "O")
    if rp[0] == "exc":
      ok = mo["out"] == {"syntax": True} and rp[1] == "SyntaxError"
    else:
      ok = mo["out"] == {"ok": rp[1]}
      if ok and mo.get("entities") is not None:
        ok = mo["entities"] == rp[2] and (new_lex == "after" or mo["predicted"] == rp[1])
        if ok and new_lex not in (None, "after"):
          pn = real_parse(rp[1])
          t = pn[1][1] if (pn[0] == "ok" and pn[1][:1] == ["Comment"]) else (pn[1] if pn[0] == "ok" else None)
          ok = t is not None and P40.enc_tree(t) == mo["tree_of_renamed"] == mo["renamed_tree"]
    if not ok:
      ck.count("model_impl_disagreements")
      if mism is None:
        mism = {"text": text, "ctx": c.ctx, "renames": [[t, cc, n] for (t, cc), n in c.renames.items()],
                "impl": repr(rp)[:500], "model": mo, "phase": "after" if new_lex == "after" else "rename"}
  return mism


def biased_renames(rng, lex, ctx):
  """renames that mostly hit: columns named in the formula, tables of the context; plus noise."""
  names = sorted(set(t for k, t in lex if k in "ad")) or COLS
  tables = [ctx["table"]] + [t for t in [ctx.get("ref")] + list(ctx.get("attrs", {}).values()) if t]
  out = {}
  for _ in range(rng.choice([1, 1, 2, 3, 4])):
    t = rng.choice(tables) if rng.random() < 0.75 else rng.choice(TABLES)
    c = rng.choice(names) if rng.random() < 0.8 else rng.choice(COLS)
    out[(t, c)] = rng.choice(NEW_NAMES + names)
  if rng.random() < 0.2 and len(names) >= 2:
    a, b = rng.sample(names, 2)
    t = rng.choice(tables)
    out[(t, a)], out[(t, b)] = b, a
  return {k: v for k, v in out.items() if k[1] != v and k[0] != "*"}


FIXED = [
  # (kind, lexemes, ctx, renames): the formulas of test_acl_renames / test_dropdown_condition_renames
  ("acl", [["o", "( rec."], ["a", "schoolName"], ["o", " !=  # \xfcn\xeec\xf8d\xe9 comment\n  user."], ["a", "School"], ["o", "."], ["a", "name"], ["o", ")"]],
   {"kind": "acl", "table": "Students", "attrs": {"School": "Schools"}},
   {("Students", "schoolName"): "escuela", ("Schools", "name"): "schoolName"}),
  ("acl", [["o", "( "], ["d", "firstName"], ["o", " not in rec."], ["a", "schoolName"], ["o", " or "], ["d", "schoolName"],
           ["o", " + "], ["d", "lastName"], ["o", " == rec."], ["a", "firstName"], ["o", ")"]],
   {"kind": "acl", "table": "Students", "attrs": {}},
   {("Students", "lastName"): "Family_Name", ("Students", "schoolName"): "escuela"}),
  ("dc", [["o", "'New' in choice."], ["a", "city"], ["o", " and "], ["d", "name"], ["o", " == rec."], ["a", "name"],
          ["o", " + rec."], ["a", "choice"], ["o", "."], ["a", "city"], ["o", " or choice."], ["a", "rec"], ["o", "."], ["a", "city"],
          ["o", " != "], ["d", "name2"]],
   {"kind": "dc", "table": "Schools", "ref": "Address"}, {("Address", "city"): "area", ("Schools", "name"): "identifier"}),
  ("trigger", [["d", "A"], ["o", " == 1 and oldRec."], ["a", "A"], ["o", " != rec."], ["a", "A"], ["o", " or newRec."], ["a", "A"]],
   {"kind": "trigger", "table": "Table1"}, {("Table1", "A"): "Status", ("Table2", "A"): "Other"}),
]


def fixed_cases():
  out = []
  for kind, lex, ctx, renames in FIXED:
    c = Case()
    c.kind, c.lex, c.ctx, c.renames, c.stream = kind, lex, ctx, renames, "fixed"
    mark = print_lex(lex, "M")
    c.tree = P40.dump_expr(ast.parse(mark, mode="eval").body)
    c.nodes = visit_order(c.tree, [])
    c.ixs = ixs_of(lex, c.tree)
    for n, ix in zip(c.nodes, c.ixs):
      n["ix"] = ix
    out.append(c)
  return out


def gen_function_cases(ck):
  rng = ck.rng
  quick = ck.tier == "quick"
  for c in fixed_cases():
    yield c
  for i in range(800 if quick else 20000):
    kind = rng.choice(KINDS)
    c = make_case(rng, kind, rng.choice([1, 2, 3, 3, 4]), rng.choice([0, 1, 2, 2]),
                  raw_rate=rng.choice([0, 0, 0, 0, 0, 0.1]))
    c.stream = "subset"
    if rng.random() < 0.85:
      c.renames = biased_renames(rng, c.lex, c.ctx)
    yield c
  # text that is not a predicate formula at all
  for i in range(100 if quick else 2000):
    kind = rng.choice(KINDS)
    base = make_case(rng, kind, rng.choice([1, 2, 3]), rng.choice([0, 1, 2]))
    t = print_lex(base.lex, "O")
    bad = None
    for _try in range(20):
      pos = rng.randint(0, len(t))
      ch = rng.choice(list("()[]{}'\".,:=!<>+-*/%\\@~^&|`?;") + [" +", "$", "$1", " rec.", " not", "lambda", " if "])
      r = rng.random()
      cand = t[:pos] + ch + t[pos:] if r < 0.5 else (t[:pos] + t[pos + 1:] if r < 0.8 else t[:pos] + ch + t[pos + 1:])
      try:
        with warnings.catch_warnings():
          warnings.simplefilter("ignore")
          import predicate_formula
          predicate_formula.parse_predicate_formula(cand)
      except SyntaxError:
        bad = cand
        break
      except Exception:    # pylint: disable=broad-except
        continue
    if bad is None:
      continue
    c = Case()
    c.kind, c.lex, c.ctx, c.stream = kind, [["o", bad]], base.ctx, "invalid"
    c.renames = biased_renames(rng, base.lex, base.ctx)
    c.nodes, c.ixs = [], []
    yield c


# --------------------------------------------------------------------------------------------
# engine level: documents with ACL rules, dropdown conditions and trigger conditions; renames through
# user actions.  A history = {"setup": [bundle...], "formulas": [...], "steps": [bundle...]}

ENG_COLS = ["A", "B", "C", "AA", "name", "city", "rec", "choice", "user", "Email", "x1"]
ENG_NEW = ["A", "B", "AA", "A2", "name", "city2", "Z", "rec", "choice", "newName", "x", "B_", "Long Label", "id", "C"]

SIG_FIELD_DC = "dropdown condition stored in a view field's widgetOptions is not renamed"
SIG_ENGINE_UNPARSABLE = "unparsable dropdown condition makes every column rename fail with SyntaxError"


def valid_formula(rng, kind, depth, cols=None, attr_cols=None):
  """a generated formula (lexemes) that parse_predicate_formula accepts"""
  for _ in range(50):
    c = make_case(rng, kind, depth, rng.choice([0, 1, 2]), cols=cols, attr_cols=attr_cols)
    if real_parse(print_lex(c.lex, "O"))[0] == "ok" and "\r" not in print_lex(c.lex, "O"):
      return c.lex
  return [["d", "A"], ["o", " == 1"]]


def gen_history(rng):
  setup, forms = [], []
  tables = {}
  for t in TABLES:
    cols = rng.sample(ENG_COLS, rng.randint(5, 8))
    # a column that has the same name as a user attribute looked up in this table (user.School must stay)
    if t == "T2" and rng.random() < 0.7: cols.append("School")
    if t == "T3" and rng.random() < 0.7: cols.append("Other")
    tables[t] = cols
    setup.append([["AddTable", t, [{"id": c, "type": "Text"} for c in cols]]])
  refs = [("T1", "r2", "Ref:T2"), ("T1", "rl3", "RefList:T3"), ("T2", "r1", "Ref:T1"), ("T1", "ch", "Choice"),
          ("T3", "r3", "Ref:T3")]
  for t, c, ty in refs:
    setup.append([["AddColumn", t, c, {"type": ty}]])
  # summary tables (most histories): their ids are only known at run time (placeholders "@sumId" / "@sumRef" name the
  # table created by setup bundle n); columns = the group-by columns + count (+ a formula column of our own)
  sums = []
  if rng.random() < 0.85:
    seen = set()
    # NB columns we add to summary tables get names that are unique per summary table: same-named formula columns of
    # the summary tables of one source table are "sister columns" which the engine keeps in sync by design (an update
    # of one's widgetOptions is copied to the others), which is not what C17 is about
    for _ in range(rng.choice([1, 1, 2, 2, 3])):
      src = rng.choice(TABLES)
      gb = sorted(rng.sample(tables[src], rng.choice([1, 1, 1, 2])))
      if (src, tuple(gb)) in seen:
        continue
      seen.add((src, tuple(gb)))
      setup.append([["CreateViewSection", ["tableRef", src], 0, "record", [["@colRef", src, c] for c in gb], None]])
      s = {"n": len(setup) - 1, "src": src, "gb": gb, "cols": gb + ["count"]}
      if rng.random() < 0.6:
        tot = "tot%d" % len(sums)
        setup.append([["AddColumn", ["@sumId", s["n"], ""], tot, {"type": "Numeric", "isFormula": True, "formula": "1"}]])
        s["cols"].append(tot)
      sums.append(s)
  sum_refs = []      # (table, column, summary) : Ref/RefList columns that point to a summary table; a Ref column OF a summary table
  for i, s in enumerate(sums):
    if rng.random() < 0.8:
      t = rng.choice(TABLES)
      setup.append([["AddColumn", t, "rs%d" % i, {"type": ["@sumId", s["n"], rng.choice(["Ref:", "RefList:"])]}]])
      sum_refs.append((t, "rs%d" % i, tables[t] + s["cols"]))
    if rng.random() < 0.5:
      rt = rng.choice(TABLES)
      setup.append([["AddColumn", ["@sumId", s["n"], ""], "sr%d" % i, {"type": "Ref:" + rt, "isFormula": True, "formula": "None"}]])
      sum_refs.append((["@sumId", s["n"], ""], "sr%d" % i, s["cols"] + tables[rt]))
  # user attributes
  attrs = {}
  setup.append([["AddRecord", "_grist_ACLResources", -1, {"tableId": "*", "colIds": "*"}]])
  forms.append({"where": "resource", "n": len(setup) - 1})
  star = len(setup) - 1
  def add_attr(name, t, cols=None):
    lc = rng.choice(cols or tables[t])
    attrs[name] = t
    setup.append([["AddRecord", "_grist_ACLRules", None,
                   {"resource": ("ret", star),
                    "userAttributes": ["@json", {"name": name, "tableId": t, "lookupColId": lc, "charId": "Email"}]}]])
    forms.append({"where": "userattr", "n": len(setup) - 1})
  attr_cols_all = {"School": tables["T2"], "Other": tables["T3"]}
  if sums and rng.random() < 0.8:
    # a user attribute looked up in a summary table, mostly by a group-by column
    s = rng.choice(sums)
    add_attr("Sum", ["@sumId", s["n"], ""], cols=s["gb"] if rng.random() < 0.8 else s["cols"])
    attr_cols_all["Sum"] = s["cols"]
  # a user attribute may be defined before or after (= with a higher rule id than) the rules using it
  late = [(name, t) for name, t in (("School", "T2"), ("Other", "T3")) if rng.random() < 0.5]
  for name, t in (("School", "T2"), ("Other", "T3")):
    if (name, t) not in late:
      add_attr(name, t)
  # resources + rules
  for t in TABLES:
    k = rng.randint(1, 3)
    colids = ",".join(rng.sample(tables[t], k)) if rng.random() < 0.8 else "*"
    setup.append([["AddRecord", "_grist_ACLResources", -1, {"tableId": t, "colIds": colids}]])
    forms.append({"where": "resource", "n": len(setup) - 1})
    res = len(setup) - 1
    for _ in range(rng.randint(1, 2)):
      lex = valid_formula(rng, "acl", rng.choice([1, 2, 3]), cols=tables[t] + rng.sample(tables["T2"] + tables["T3"], 2),
                          attr_cols=attr_cols_all if rng.random() < 0.6 else None)
      setup.append([["AddRecord", "_grist_ACLRules", None,
                     {"resource": ("ret", res), "aclFormula": print_lex(lex, "O"), "permissionsText": "none"}]])
      forms.append({"where": "acl", "n": len(setup) - 1, "lex": lex})
  # resources + rules on summary tables
  for s in sums:
    if rng.random() < 0.85:
      colids = ",".join(rng.sample(s["cols"], rng.randint(1, len(s["cols"])))) if rng.random() < 0.8 else "*"
      setup.append([["AddRecord", "_grist_ACLResources", -1, {"tableId": ["@sumId", s["n"], ""], "colIds": colids}]])
      forms.append({"where": "resource", "n": len(setup) - 1})
      res = len(setup) - 1
      for _ in range(rng.randint(1, 2)):
        lex = valid_formula(rng, "acl", rng.choice([1, 2, 3]), cols=s["cols"] + s["gb"] + rng.sample(tables[s["src"]], 2),
                            attr_cols=attr_cols_all if rng.random() < 0.6 else None)
        setup.append([["AddRecord", "_grist_ACLRules", None,
                       {"resource": ("ret", res), "aclFormula": print_lex(lex, "O"), "permissionsText": "none"}]])
        forms.append({"where": "acl", "n": len(setup) - 1, "lex": lex})
  for name, t in late:
    add_attr(name, t)
  # dropdown conditions
  for t, c, ty in refs:
    if rng.random() < 0.85:
      rt = ty.split(":")[1] if ":" in ty else rng.choice(TABLES)
      lex = valid_formula(rng, "dc", rng.choice([1, 2, 3]), cols=tables[t] + tables[rt])
      setup.append([["ModifyColumn", t, c, {"widgetOptions": json.dumps(
          {"dropdownCondition": {"text": print_lex(lex, "O")}, "alignment": "left"})}]])
      forms.append({"where": "dc", "table": t, "col": c, "lex": lex})
  for t, c, cols in sum_refs:
    lex = valid_formula(rng, "dc", rng.choice([1, 2, 3]), cols=cols)
    setup.append([["ModifyColumn", t, c, {"widgetOptions": json.dumps(
        {"dropdownCondition": {"text": print_lex(lex, "O")}, "alignment": "left"})}]])
    forms.append({"where": "dc", "table": t, "col": c, "lex": lex})
  # triggers (on the three tables and on summary tables)
  for t in TABLES + [s for s in sums if rng.random() < 0.85]:
    if isinstance(t, dict) or rng.random() < 0.8:
      if isinstance(t, dict):
        lex = valid_formula(rng, "trigger", rng.choice([1, 2, 3]), cols=t["cols"] + t["gb"])
        tr = ["@sumRef", t["n"]]
      else:
        lex = valid_formula(rng, "trigger", rng.choice([1, 2, 3]), cols=tables[t])
        tr = ("tableRef", t)
      mode = rng.choice(["plain", "text", "config"])
      text = print_lex(lex, "O")
      if mode == "plain":
        try:
          json.loads(text)
          mode = "text"          # a formula that is itself JSON (a literal) would be taken for a JSON condition
        except ValueError:
          pass
      cond = text if mode == "plain" else (json.dumps({"text": text}) if mode == "text" else
                                           json.dumps({"config": {"customExpression": text, "columnFilters": []}}))
      setup.append([["AddRecord", "_grist_Triggers", None, {"tableRef": tr, "condition": cond}]])
      forms.append({"where": "trigger", "n": len(setup) - 1, "lex": lex, "mode": "config" if mode == "config" else "text"})
  # rename steps
  steps = []
  for _ in range(rng.randint(8, 14)):
    r = rng.random()
    t = rng.choice(TABLES + ["T2", "T3"])     # the user attributes' lookup tables a little more often
    if sums and r < 0.3:
      # rename the SOURCE column of a group-by column of a summary table (renames the summary table as well)
      steps.append(("GroupBy", rng.random(), rng.random(), rng.random(), rng.choice(ENG_NEW + ["count", "group"])))
      continue
    if sums and r < 0.38:
      # rename a column of a summary table directly (allowed for its formula columns only)
      steps.append(("SummaryCol", rng.random(), rng.random(), rng.choice(ENG_NEW)))
      continue
    r = rng.random()
    if r < 0.5:
      steps.append(("RenameColumn", t, rng.random(), rng.choice(ENG_NEW)))
    elif r < 0.62:
      steps.append(("RenameTable", t, rng.choice(["Tx", "Ty", "T9", "People", "T1", "T2"])))
    elif r < 0.77:
      steps.append(("Label", t, rng.random(), rng.choice(ENG_NEW)))
    elif r < 0.9:
      steps.append(("Bulk", t, rng.random(), rng.random(), rng.choice(ENG_NEW), rng.choice(ENG_NEW)))
    else:
      steps.append(("ModifyColId", t, rng.random(), rng.choice(ENG_NEW)))
  return {"setup": setup, "forms": forms, "steps": steps}


def lexify(text):
  """lexemes of a hand-written formula in which every `.name` is an Attribute node and every `$name` a dollar
  reference (no floats, no dots or dollars inside strings / comments); used for the fixed witnesses only"""
  import re
  lex, pos = [], 0
  for m in re.finditer(r"\$([A-Za-z_]\w*)|(?<=\.)([A-Za-z_]\w*)", text):
    if m.start() > pos:
      lex.append(["o", text[pos:m.start()]])
    lex.append(["d", m.group(1)] if m.group(1) else ["a", m.group(2)])
    pos = m.end()
  if pos < len(text):
    lex.append(["o", text[pos:]])
  assert print_lex(lex, "O") == text
  return lex


def fixed_summary_history():
  """The fixed witness of the summary-table situations: table T(a, n, z) with the summary tables T_summary_a (setup
  bundle 2) and T_summary_a_n (bundle 3); ACL resources + rules on both, a user attribute looked up in T_summary_a_n,
  dropdown conditions of Ref / RefList columns that point to them (choice.X) and of a Ref column OF a summary table
  (rec.X / $X), trigger conditions on both.  Steps: renames of the SOURCE columns of the group-by columns (each also
  renames the summary tables in the same user action), by every route, a swap of two of them, renames of non-group-by
  columns, of the source table, and of a formula column of a summary table (and its sister column)."""
  A, B = 2, 3
  setup = [
    [["AddTable", "T", [{"id": "a", "type": "Text"}, {"id": "n", "type": "Int"}, {"id": "z", "type": "Text"}]]],
    [["AddTable", "U", [{"id": "a", "type": "Text"}, {"id": "k", "type": "Text"}]]],
    [["CreateViewSection", ["tableRef", "T"], 0, "record", [["@colRef", "T", "a"]], None]],
    [["CreateViewSection", ["tableRef", "T"], 0, "record", [["@colRef", "T", "a"], ["@colRef", "T", "n"]], None]],
    [["AddColumn", "U", "r", {"type": ["@sumId", A, "Ref:"]}]],
    [["AddColumn", "U", "rl", {"type": ["@sumId", B, "RefList:"]}]],
    [["AddColumn", ["@sumId", A, ""], "sr", {"type": "Ref:U", "isFormula": True, "formula": "None"}]],
  ]
  forms = []

  def add(bundle, **form):
    setup.append(bundle)
    if form:
      forms.append(dict(form, n=len(setup) - 1) if form["where"] != "dc" else form)
    return len(setup) - 1

  def resource(table, colids):
    return add([["AddRecord", "_grist_ACLResources", -1, {"tableId": table, "colIds": colids}]], where="resource")

  def rule(res, text):
    add([["AddRecord", "_grist_ACLRules", None, {"resource": ["ret", res], "aclFormula": text, "permissionsText": "none"}]],
        where="acl", lex=lexify(text))

  def dc(table, col, text):
    add([["ModifyColumn", table, col, {"widgetOptions": json.dumps({"dropdownCondition": {"text": text},
                                                                    "alignment": "left"})}]],
        where="dc", table=table, col=col, lex=lexify(text))

  star = resource("*", "*")
  add([["AddRecord", "_grist_ACLRules", None, {"resource": ["ret", star], "userAttributes": [
      "@json", {"name": "Sum", "tableId": ["@sumId", B, ""], "lookupColId": "a", "charId": "Email"}]}]], where="userattr")
  ra = resource(["@sumId", A, ""], "a,count")
  rule(ra, 'rec.a == "x" and newRec.count > 1  # keep a')
  rule(ra, "user.Sum.a == $a or user.Sum.n in [rec.count, rec.z]")
  rb = resource(["@sumId", B, ""], "n,a")
  rule(rb, "$n > 0 and not rec.a")
  ru = resource("U", "a")
  rule(ru, "rec.a == user.Sum.a and rec.k != user.Sum.count")
  dc("U", "r", "choice.a == $a and choice.count > 0")
  dc("U", "rl", "choice.n in [1, 2] or choice.a == rec.k")
  dc(["@sumId", A, ""], "sr", "choice.a == $a and rec.count > 0")
  add([["AddRecord", "_grist_Triggers", None, {"tableRef": ["@sumRef", A], "condition": json.dumps({"text": "$a != oldRec.a"})}]],
      where="trigger", lex=lexify("$a != oldRec.a"), mode="text")
  t2 = "rec.n > oldRec.n and $a"
  add([["AddRecord", "_grist_Triggers", None, {"tableRef": ["@sumRef", B], "condition": json.dumps(
      {"config": {"customExpression": t2, "columnFilters": []}})}]], where="trigger", lex=lexify(t2), mode="config")
  t3 = '$a == "x" or oldRec.n'
  add([["AddRecord", "_grist_Triggers", None, {"tableRef": ["tableRef", "T"], "condition": t3}]],
      where="trigger", lex=lexify(t3), mode="text")
  raw = lambda *ua: ("Raw", [list(ua)])
  MC = "_grist_Tables_column"
  col_a, col_n = ["@col0", "T", "a"], ["@col0", "T", "n"]      # the row ids of T.a / T.n (whatever they are called by then)
  steps = [
    raw("RenameColumn", "T", "a", "b"),                           # T_summary_a -> T_summary_b, T_summary_a_n -> T_summary_b_n
    raw("UpdateRecord", MC, col_n, {"label": "n n"}),             # label route: n -> n_n
    raw("RenameColumn", "T", "z", "zz"),                          # not a group-by column
    raw("RenameColumn", ["@sumId", A, ""], "count", "cnt"),       # formula column of a summary table (+ its sister column)
    raw("RenameColumn", ["@sumId", A, ""], "b", "q"),             # rejected: group-by column
    raw("ModifyColumn", "T", "b", {"colId": "a"}),                # ModifyColumn ignores colId: nothing changes
    raw("UpdateRecord", MC, col_a, {"colId": "a"}),
    raw("RenameTable", "T", "V"),
    raw("UpdateRecord", MC, col_a, {"colId": "n_n"}),             # n_n is taken: the engine picks another id
    raw("BulkUpdateRecord", MC, [col_a, col_n], {"colId": ["n_n", "n_n2"]}),   # both group-by columns in one action
    raw("RenameColumn", "U", "a", "b"),                           # an ordinary table's own `a`
    raw("UpdateRecord", MC, col_n, {"colId": "count"}),
    raw("UpdateRecord", MC, col_a, {"colId": "a2"}),
  ]
  return {"setup": setup, "forms": forms, "steps": steps, "fixed": "summary"}


def _pick(lst, x):
  return lst[int(x * len(lst)) % len(lst)] if lst else None


def run_history(ck, hist, level_tag="engine"):
  """Runs one history on a real engine; evaluates the property after every rename bundle.
  Returns (model ops, their expectations) for the correspondence with the Lean model."""
  from gx import engine_driver as ed
  doc = ed.Doc()
  rets = {}
  replay = {"level": "engine", "history": hist}

  def tref(t):
    for r in doc.meta("_grist_Tables"):
      if r["tableId"] == t:
        return r["id"]
    return 0

  def resolve(x):
    """placeholders of a history -> the ids of this run: ["ret", n] = return value of setup bundle n;
    ["tableRef", T]; ["@colRef", T, col]; ["@sumRef", n] / ["@sumId", n, prefix] = row id / prefix + CURRENT table id
    of the summary table that setup bundle n (a CreateViewSection) created; ["@col0", T, col] = row id of the column
    that was T.col at the end of the setup; ["@json", obj] = json.dumps(resolved obj)"""
    if isinstance(x, dict):
      return {k: resolve(v) for k, v in x.items()}
    if not isinstance(x, list):
      return x
    if len(x) == 2 and x[0] == "ret" and isinstance(x[1], int):
      return rets[x[1]]
    if len(x) == 2 and x[0] == "tableRef":
      return tref(resolve(x[1]))
    if len(x) == 3 and x[0] == "@colRef":
      tr = tref(resolve(x[1]))
      return ([c["id"] for c in doc.meta("_grist_Tables_column") if c["parentId"] == tr and c["colId"] == x[2]] + [0])[0]
    if len(x) == 3 and x[0] == "@col0":
      return col0.get((x[1], x[2]), 0)
    if len(x) == 2 and x[0] == "@sumRef":
      return rets[x[1]]["tableRef"]
    if len(x) == 3 and x[0] == "@sumId":
      return x[2] + [r["tableId"] for r in doc.meta("_grist_Tables") if r["id"] == rets[x[1]]["tableRef"]][0]
    if len(x) == 2 and x[0] == "@json":
      return json.dumps(resolve(x[1]))
    return [resolve(y) for y in x]

  # ---- setup
  for n, bundle in enumerate(hist["setup"]):
    b = resolve(json.loads(json.dumps(bundle)))
    res = doc.apply(b)
    if not res.ok:
      from gx.common import Infra
      raise Infra("setup bundle failed: %r -> %r" % (b, res.error))
    rets[n] = res.ret[0] if res.ret else None
    if b[0][0] == "CreateViewSection":
      # the ret value names the SOURCE table; the summary table is the one the new section shows
      sec = [r for r in doc.meta("_grist_Views_section") if r["id"] == rets[n]["sectionRef"]][0]
      rets[n] = {"tableRef": sec["tableRef"]}
      if sec["tableRef"] not in [r["id"] for r in doc.meta("_grist_Tables") if r["summarySourceTable"]]:
        from gx.common import Infra
        raise Infra("setup: CreateViewSection %r did not create / reuse a summary table" % (b,))
  tabs0 = {r["id"]: r["tableId"] for r in doc.meta("_grist_Tables")}
  col0 = {(tabs0[c["parentId"]], c["colId"]): c["id"] for c in doc.meta("_grist_Tables_column")}   # as set up
  forms = []
  for f in hist["forms"]:
    g = dict(f)
    if "n" in g:
      g["id"] = rets[g["n"]]
    if g["where"] == "dc":
      g["id"] = [c["id"] for c in doc.meta("_grist_Tables_column")
                 if c["colId"] == g["col"] and c["parentId"] == tref(resolve(g["table"]))][0]
    forms.append(g)

  def state():
    tabs = {r["id"]: r["tableId"] for r in doc.meta("_grist_Tables")}
    cols = {c["id"]: c for c in doc.meta("_grist_Tables_column")}
    return {"tabs": tabs, "cols": cols,
            # old table id of every summary table
            "sums": {r["id"]: r["tableId"] for r in doc.meta("_grist_Tables") if r["summarySourceTable"]},
            "res": {r["id"]: r for r in doc.meta("_grist_ACLResources")},
            "rules": {r["id"]: r for r in doc.meta("_grist_ACLRules")},
            "trig": {r["id"]: r for r in doc.meta("_grist_Triggers")}}

  def stored(st, g):
    """(text, parsed-consistent?, detail) of a formula object in state st"""
    if g["where"] == "acl":
      r = st["rules"][g["id"]]
      import predicate_formula
      okp = r["aclFormulaParsed"] == predicate_formula.parse_predicate_formula_json(r["aclFormula"])
      return r["aclFormula"], okp, r["aclFormulaParsed"]
    if g["where"] == "dc":
      wo = json.loads(st["cols"][g["id"]]["widgetOptions"])
      dc = wo["dropdownCondition"]
      import predicate_formula
      okp = dc.get("parsed") == predicate_formula.parse_predicate_formula_json(dc["text"]) and wo.get("alignment") == "left"
      return dc["text"], okp, dc.get("parsed")
    if g["where"] == "trigger":
      cond = json.loads(st["trig"][g["id"]]["condition"])
      import predicate_formula
      if g["mode"] == "config":
        cfg = cond["config"]
        okp = cfg.get("customExpressionParsed") == predicate_formula.parse_predicate_formula(cfg["customExpression"]) \
            and cfg.get("columnFilters") == []
        return cfg["customExpression"], okp, cfg.get("customExpressionParsed")
      okp = cond.get("parsed") == predicate_formula.parse_predicate_formula(cond["text"])
      return cond["text"], okp, cond.get("parsed")
    raise ValueError(g["where"])

  def context(st, g):
    if g["where"] == "acl":
      rule = st["rules"][g["id"]]
      attrs = {}
      for r in st["rules"].values():
        if r["userAttributes"]:
          info = json.loads(r["userAttributes"])
          attrs[info.get("name")] = info.get("tableId")
      return {"kind": "acl", "table": st["res"][rule["resource"]]["tableId"], "attrs": attrs}
    if g["where"] == "dc":
      col = st["cols"][g["id"]]
      ty = col["type"]
      ref = ty.split(":", 1)[1] if ty.startswith(("Ref:", "RefList:")) else None
      return {"kind": "dc", "table": st["tabs"][col["parentId"]], "ref": ref}
    return {"kind": "trigger", "table": st["tabs"][st["trig"][g["id"]]["tableRef"]]}

  # initial consistency
  st = state()
  for g in forms:
    if "lex" in g:
      text, okp, _p = stored(st, g)
      if text != print_lex(g["lex"], "O") or not okp:
        ck.violation("stored formula / parsed form inconsistent right after creation (%s)" % g["where"],
                     "%r parsed ok=%r" % (text, okp), replay)
  ops, expects = [], []
  # ---- rename steps
  for si, step in enumerate(hist["steps"]):
    st = state()
    kind, t = step[0], step[1]
    hot_names = set(l[1] for g in forms if "lex" in g for l in g["lex"] if l[0] in "ad")
    if kind in ("GroupBy", "SummaryCol"):
      sid = _pick(sorted(st["sums"]), step[1])
      if sid is None:
        ck.count("eng_step_skipped_no_summary_table")
        continue
      scols = sorted((c for c in st["cols"].values() if c["parentId"] == sid), key=lambda c: c["id"])
    elif kind != "Raw":
      # the user tables proper (summary tables are renamed through their source table / by the two kinds above)
      tabs_now = sorted(v for k, v in st["tabs"].items() if not v.startswith("_grist") and k not in st["sums"])
      tname = _pick(tabs_now, (TABLES.index(t) + 0.5) / 3.0)
      tid = [k for k, v in st["tabs"].items() if v == tname][0]
      tcols = sorted((c for c in st["cols"].values() if c["parentId"] == tid and c["colId"] != "manualSort"),
                     key=lambda c: c["id"])
      hot = [c for c in tcols if c["colId"] in hot_names]
      if hot and kind != "RenameTable" and (step[2] * 7) % 1 < 0.8:
        tcols = hot
    if kind == "Raw":
      bundle = resolve(json.loads(json.dumps(step[1])))
    elif kind == "GroupBy":
      gbs = [c for c in scols if c["summarySourceCol"]]
      hot = [c for c in gbs if c["colId"] in hot_names]
      gcol = _pick(hot if hot and (step[2] * 7) % 1 < 0.7 else gbs, step[2])
      if gcol is None:
        ck.count("eng_step_skipped_no_groupby_column")
        continue
      src = st["cols"][gcol["summarySourceCol"]]
      how = int(step[3] * 6)
      if how <= 2:
        bundle = [["RenameColumn", st["tabs"][src["parentId"]], src["colId"], step[4]]]
      elif how == 3:
        bundle = [["UpdateRecord", "_grist_Tables_column", src["id"], {"label": step[4]}]]
      elif how == 4:
        bundle = [["UpdateRecord", "_grist_Tables_column", src["id"], {"colId": step[4]}]]
      else:
        bundle = [["ModifyColumn", st["tabs"][src["parentId"]], src["colId"], {"colId": step[4]}]]
    elif kind == "SummaryCol":
      col = _pick([c for c in scols if c["colId"] != "group"], step[2])
      # (new name unique per summary table: see the note on sister columns in gen_history)
      bundle = [["RenameColumn", st["sums"][sid], col["colId"], "%s_s%d" % (step[3], sid)]]
    elif kind == "RenameColumn":
      col = _pick(tcols, step[2])
      bundle = [["RenameColumn", tname, col["colId"], step[3]]]
    elif kind == "RenameTable":
      bundle = [["RenameTable", tname, step[2]]]
    elif kind == "Label":
      col = _pick(tcols, step[2])
      bundle = [["UpdateRecord", "_grist_Tables_column", col["id"], {"label": step[3]}]]
    elif kind == "Bulk":
      c1, c2 = _pick(tcols, step[2]), _pick(tcols, step[3])
      if c1["id"] == c2["id"]:
        bundle = [["UpdateRecord", "_grist_Tables_column", c1["id"], {"colId": step[4]}]]
      else:
        bundle = [["BulkUpdateRecord", "_grist_Tables_column", [c1["id"], c2["id"]], {"colId": [step[4], step[5]]}]]
    else:
      col = _pick(tcols, step[2])
      bundle = [["ModifyColumn", tname, col["colId"], {"colId": step[3]}]]
    res = doc.apply(bundle)
    ck.evaluated()
    ck.count("eng_step_" + kind)
    if not res.ok:
      ck.count("eng_step_rejected")
      if res.error[0] == "SyntaxError":
        ck.violation("rename user action fails with SyntaxError", "%r -> %r" % (bundle, res.error), replay)
      continue
    st2 = state()
    col_ren = {}
    for cid, c in st["cols"].items():
      if cid in st2["cols"] and st2["cols"][cid]["colId"] != c["colId"]:
        col_ren[(st["tabs"][c["parentId"]], c["colId"])] = st2["cols"][cid]["colId"]
    tab_ren = {v: st2["tabs"][k] for k, v in st["tabs"].items() if k in st2["tabs"] and st2["tabs"][k] != v}
    if col_ren:
      ck.count("eng_col_renames", len(col_ren))
    if tab_ren:
      ck.count("eng_table_renames")
    # ---- the summary-table situations of this bundle (table ids as they were BEFORE the bundle)
    sum_ids = set(st["sums"].values())
    sum_tab_ren = sorted(t_ for t_ in tab_ren if t_ in sum_ids)
    sum_col_ren = sorted(k for k in col_ren if k[0] in sum_ids)
    gb_ren = [k for k in sum_col_ren
              if any(c["summarySourceCol"] for c in st["cols"].values() if (st["tabs"][c["parentId"]], c["colId"]) == k)]
    if gb_ren and sum_tab_ren:
      ck.count("eng_summary_groupby_col_and_table_renamed_in_one_action")
    elif gb_ren:
      ck.count("eng_summary_groupby_col_renamed_table_id_unchanged")
    elif sum_col_ren:
      ck.count("eng_summary_formula_col_renamed")
    elif sum_tab_ren:
      ck.count("eng_summary_table_renamed_with_source_table")
    rp = dict(replay, step=si)
    for g in forms:
      if g["where"] == "resource":
        a, b = st["res"][g["id"]], st2["res"][g["id"]]
        if a["tableId"] in sum_ids:
          ck.count("eng_summary_resource_checks")
          if a["colIds"] not in ("", "*") and any((a["tableId"], c) in col_ren for c in a["colIds"].split(",")):
            ck.count("eng_summary_resource_colids_to_rename" + ("_with_table_rename" if a["tableId"] in tab_ren else ""))
        exp_t = tab_ren.get(a["tableId"], a["tableId"])
        exp_c = a["colIds"]
        if a["colIds"] and a["colIds"] != "*":
          exp_c = ",".join(col_ren.get((a["tableId"], c), c) for c in a["colIds"].split(","))
        if (b["tableId"], b["colIds"]) != (exp_t, exp_c):
          ck.violation("ACL resource not renamed exactly", "%r -> %r expected %r" % (a, b, (exp_t, exp_c)), rp)
        if a["colIds"] and a["colIds"] != "*":
          ops.append({"m": "predrename", "op": "colids", "kind": "acl", "table": a["tableId"], "renames":
                      [[tt, c, n] for (tt, c), n in sorted(col_ren.items())], "cols": a["colIds"].split(",")})
          expects.append(("colids", b["colIds"].split(",") if b["colIds"] != a["colIds"] else None, rp))
        continue
      if g["where"] == "userattr":
        a, b = st["rules"][g["id"]], st2["rules"][g["id"]]
        ia, ib = json.loads(a["userAttributes"]), json.loads(b["userAttributes"])
        if ia["tableId"] in sum_ids:
          ck.count("eng_summary_userattr_checks")
          if (ia["tableId"], ia["lookupColId"]) in col_ren:
            ck.count("eng_summary_lookupColId_to_rename" + ("_with_table_rename" if ia["tableId"] in tab_ren else ""))
        exp = dict(ia)
        exp["tableId"] = tab_ren.get(ia["tableId"], ia["tableId"])
        exp["lookupColId"] = col_ren.get((ia["tableId"], ia["lookupColId"]), ia["lookupColId"])
        if ib != exp or {k: v for k, v in a.items() if k != "userAttributes"} != {k: v for k, v in b.items() if k != "userAttributes"}:
          ck.violation("userAttributes rule not renamed exactly", "%r -> %r expected %r" % (ia, ib, exp), rp)
        ops.append({"m": "predrename", "op": "lookup", "kind": "acl", "table": "", "renames":
                    [[tt, c, n] for (tt, c), n in sorted(col_ren.items())], "tableId": ia["tableId"],
                    "lookupColId": ia["lookupColId"]})
        expects.append(("lookup", ib["lookupColId"] if ib["lookupColId"] != ia["lookupColId"] else None, rp))
        continue
      ctx = context(st, g)
      new_lex, old_dump, new_dump = oracle_expected(g["lex"], ctx, col_ren)
      exp_lex = g["lex"] if new_lex is None else new_lex
      text, okp, parsed = stored(st2, g)
      changed = exp_lex != g["lex"]
      ck.count("eng_formula_checks")
      if changed:
        ck.count("eng_formula_renamed_" + g["where"])
        ck.nontrivial_case([print_lex(g["lex"], "O"), sorted(map(list, col_ren.items())), g["where"]])
      ctx_tabs = [ctx["table"], ctx.get("ref")] + list(ctx.get("attrs", {}).values())
      if sum_col_ren and any(t_ in sum_ids for t_ in ctx_tabs):
        # does this formula refer to a renamed column OF A SUMMARY TABLE?  (the expectation without the summary
        # tables' renames differs from the full expectation)
        part = oracle_expected(g["lex"], ctx, {k: v for k, v in col_ren.items() if k[0] not in sum_ids})[0]
        if part is not None and part != exp_lex:
          ck.count("eng_summary_formula_to_rename_%s%s" % (g["where"], "_with_table_rename" if sum_tab_ren else ""))
      if text != print_lex(exp_lex, "O"):
        ck.violation("%s formula not renamed exactly through the engine" % g["where"],
                     "%r with %r (ctx %r) -> %r, expected %r" % (print_lex(g["lex"], "O"), col_ren, ctx, text,
                                                              print_lex(exp_lex, "O")), rp)
      elif not okp:
        ck.violation("stored parsed form inconsistent with the formula text (%s)" % g["where"],
                     "%r parsed=%r" % (text, parsed), rp)
      else:
        others_a = {k: v for k, v in (st["rules"].get(g["id"], {}) if g["where"] == "acl" else {}).items()
                    if k not in ("aclFormula", "aclFormulaParsed")}
        others_b = {k: v for k, v in (st2["rules"].get(g["id"], {}) if g["where"] == "acl" else {}).items()
                    if k not in ("aclFormula", "aclFormulaParsed")}
        if others_a != others_b:
          ck.violation("other fields of the ACL rule changed", "%r -> %r" % (others_a, others_b), rp)
      if new_lex is not None:
        ops.append(model_op(g["lex"], old_dump, ixs_of(g["lex"], old_dump), ctx, col_ren))
        expects.append(("rename", text, rp))
      g["lex"] = exp_lex if text == print_lex(exp_lex, "O") else g["lex"]
      if text != print_lex(g["lex"], "O"):
        break       # the formula is out of sync with what the harness tracks: stop this history
  return ops, expects


def special_scenarios(ck):
  """Deterministic engine scenarios: a dropdown condition stored on a view FIELD, and an
  unparsable dropdown condition."""
  from gx import engine_driver as ed
  import predicate_formula
  # ---- S1: field-level dropdown condition
  doc = ed.Doc()
  for b in ([["AddTable", "T1", [{"id": "A", "type": "Text"}, {"id": "r2", "type": "Text"}]]],
            [["AddTable", "T2", [{"id": "city", "type": "Text"}]]],
            [["ModifyColumn", "T1", "r2", {"type": "Ref:T2"}]]):
    r = doc.apply(b)
    if not r.ok:
      from gx.common import Infra
      raise Infra("special setup failed %r %r" % (b, r.error))
  tref = {r["tableId"]: r["id"] for r in doc.meta("_grist_Tables")}
  colref = [c["id"] for c in doc.meta("_grist_Tables_column") if c["colId"] == "r2" and c["parentId"] == tref["T1"]][0]
  fields = [f["id"] for f in doc.meta("_grist_Views_section_field") if f["colRef"] == colref]
  ck.evaluated()
  if fields:
    text = "choice.city == $A"
    r = doc.apply([["UpdateRecord", "_grist_Views_section_field", fields[0],
                    {"widgetOptions": json.dumps({"dropdownCondition": {"text": text}})}]])
    r1 = doc.apply([["RenameColumn", "T2", "city", "town"]])
    r2 = doc.apply([["RenameColumn", "T1", "A", "AA"]])
    if r.ok and r1.ok and r2.ok:
      wo = [f["widgetOptions"] for f in doc.meta("_grist_Views_section_field") if f["id"] == fields[0]][0]
      dc = json.loads(wo)["dropdownCondition"]
      ok_text = dc["text"] == "choice.town == $AA"
      ok_parsed = dc.get("parsed") == predicate_formula.parse_predicate_formula_json(dc["text"])
      ck.count("special_field_dc")
      if not ok_text:
        ck.violation(SIG_FIELD_DC, "field widgetOptions after renaming T2.city->town, T1.A->AA: %r" % (dc,),
                     {"level": "special"})
      elif not ok_parsed:
        ck.violation("field dropdown condition parsed form inconsistent", repr(dc), {"level": "special"})
  # ---- S2: unparsable dropdown condition
  doc = ed.Doc()
  doc.apply([["AddTable", "T", [{"id": "a", "type": "Text"}, {"id": "b", "type": "Text"}]]])
  bad = json.dumps({"dropdownCondition": {"text": "rec.a +"}})
  r = doc.apply([["AddColumn", "T", "c", {"type": "Text", "widgetOptions": bad}]])
  ck.evaluated()
  if r.ok:
    r2 = doc.apply([["RenameColumn", "T", "b", "bb"]])
    ck.count("special_unparsable_dc")
    if not r2.ok:
      if r2.error[0] == "SyntaxError":
        ck.violation(SIG_ENGINE_UNPARSABLE, "RenameColumn T.b -> bb with T.c dropdownCondition 'rec.a +': %r" % (r2.error,),
                     {"level": "special"})
      else:
        ck.violation("rename fails with %s next to an unparsable dropdown condition" % r2.error[0], repr(r2.error),
                     {"level": "special"})
    else:
      wo = [c["widgetOptions"] for c in doc.meta("_grist_Tables_column") if c["colId"] == "c"][0]
      if wo != bad:
        ck.violation("unparsable dropdown condition changed", repr(wo), {"level": "special"})


def lean_witness(ck):
  """Replay of unparsable_untouched_full_is_false: the text `rec.A +`."""
  ck.evaluated()
  ctx = {"kind": "dc", "table": "T", "ref": None}
  rp = real_process("rec.A +", ctx, {})
  if rp[0] == "exc" and rp[1] == "SyntaxError":
    ck.violation(SIG_UNPARSABLE, "Lean witness 'rec.A +' raised SyntaxError: %s" % rp[2],
                 {"level": "function", "lex": [["o", "rec.A +"]], "ctx": ctx, "renames": []})
    ck.count("lean_witness_confirmed")
  elif rp[0] == "ok" and rp[1] == "rec.A +":
    out = ck.driver([model_op([["o", "rec.A +"]], None, [], ctx, {}, dparse=False)])[0]
    if out.get("out") == {"syntax": True}:
      ck.broken("lean witness 'rec.A +' not reproduced", "the code returns the text unchanged, the model raises", {"text": "rec.A +"})
  else:
    ck.violation("process_renames misbehaves on 'rec.A +'", repr(rp), {"level": "function", "lex": [["o", "rec.A +"]],
                                                                    "ctx": ctx, "renames": []})


class Rec(object):
  """What run_history needs from a Check, collectable in a worker process."""
  def __init__(self):
    self.events = []

  def evaluated(self, n=1): self.events.append(("evaluated", n))
  def count(self, key, n=1): self.events.append(("count", key, n))
  def nontrivial_case(self, obj): self.events.append(("nontrivial", obj))
  def sample(self, obj): self.events.append(("sample", obj))
  def violation(self, sig, detail, replay): self.events.append(("violation", sig, detail, replay))


def _history_worker(args):
  import random
  from gx.common import setup_repo_path
  setup_repo_path()
  seed_str, n = args
  rng = random.Random(seed_str)
  rec = Rec()
  ops, expects = [], []
  for _ in range(n):
    if seed_str == "fixed-summary":
      h = fixed_summary_history()
      rec.count("eng_fixed_summary_history")
    else:
      h = gen_history(rng)
    o, e = run_history(rec, h)
    ops += o
    expects += e
  return rec.events, ops, expects


def merge_events(ck, events):
  for ev in events:
    if ev[0] == "evaluated": ck.evaluated(ev[1])
    elif ev[0] == "count": ck.count(ev[1], ev[2])
    elif ev[0] == "nontrivial": ck.nontrivial_case(ev[1])
    elif ev[0] == "sample": ck.sample(ev[1])
    elif ev[0] == "violation": ck.violation(ev[1], ev[2], ev[3])


def check_engine_model(ck, ops, expects):
  outs = ck.driver(ops)
  mism = None
  for (kind, want, rp), mo in zip(expects, outs):
    ck.count("eng_model_compared")
    got = mo.get("update") if kind != "rename" else mo.get("out", {}).get("ok")
    if kind != "rename" and want is None:
      okk = got is None
    else:
      okk = got == want
    if not okk:
      ck.count("model_impl_disagreements")
      if mism is None:
        mism = {"what": kind, "impl": want, "model": mo, "step": rp.get("step")}
  return mism


def run(ck):
  ck.rule = ("function level: generated predicate formulas (typed generator of c40 with rec/$/newRec/oldRec/choice/"
             "user.Attr references and distractors, random trivia, comments and strings that mention the names), a random "
             "context per kind (acl / dropdown / trigger) and renames biased to hit (incl. swaps, names used elsewhere, the "
             "same column name in several tables), plus formulas outside the subset and unparsable text; engine level: "
             "documents with ACL resources/rules, user attributes, dropdown conditions on Ref/RefList/Choice columns and "
             "trigger conditions (plain, text and config mode), 8-14 rename steps each (RenameColumn, RenameTable, label "
             "change, bulk colId update, ModifyColumn colId); most documents also have 1-3 SUMMARY tables with ACL resources/"
             "rules, a user attribute looked up in one, dropdown conditions of Ref/RefList columns pointing to them (choice.X) "
             "and of a Ref column of a summary table, trigger conditions on them, and steps that rename the SOURCE column of a "
             "group-by column (by RenameColumn / label / colId update; the summary table id changes in the same user action) "
             "or a summary table's formula column; one fixed summary-table history on every run. non-trivial = a formula in which at least one reference was "
             "renamed and all clauses were evaluated; distinct by (text, renames, kind)")
  ck.assumptions = [
    "Python's tokenizer/parser, asttokens positions and get_dollar_replacer's view of `$` are parameters (checked "
    "differentially on the old and on the renamed text)",
    "column ids and new names are ASCII identifiers (Grist sanitises column ids); `$name` needs an ASCII name",
    "ACL resource colIds is a comma separated list without blanks",
    "one rename user action per bundle at engine level (several columns at once only through one BulkUpdateRecord)",
    "summary-table situations (rules / resources / user attributes / dropdown and trigger conditions on summary tables, "
    "renames of a group-by column through its source column together with the automatic rename of the summary table): "
    "which columns and tables a bundle renamed is READ OFF the metadata before/after (keyed by the table id BEFORE the "
    "bundle); the order of the engine's bookkeeping (rules rewritten before the summary table is renamed) is not "
    "modelled in Lean - the Lean tie only re-computes each stored formula / colIds / lookupColId from those observed "
    "renames (same pure functions as for ordinary tables), so these situations are judged by the direct oracle plus "
    "that per-formula tie; how summary tables and their columns get their new ids is not part of C17",
  ]
  ck.lean(LEAN_MODULES)
  lean_witness(ck)
  mism, chunk = None, []
  for c in gen_function_cases(ck):
    chunk.append(c)
    if len(chunk) >= 3000:
      mism = check_function_cases(ck, chunk) or mism
      chunk = []
  mism = check_function_cases(ck, chunk) or mism
  # engine level
  quick = ck.tier == "quick"
  jobs = [("%s/%s/eng/%d" % (ck.pid, ck.seed, i), 1 if quick else 4) for i in range(5 if quick else 40)]
  jobs.insert(0, ("fixed-summary", 1))      # the fixed witness of the summary-table situations (every run, both tiers)
  import multiprocessing
  with multiprocessing.Pool(4) as pool:
    results = pool.map(_history_worker, jobs, 1)
  ops, expects = [], []
  for events, o, e in results:
    merge_events(ck, events)
    ops += o
    expects += e
  mism = mism or check_engine_model(ck, ops, expects)
  special_scenarios(ck)
  if mism and not ck.has_impl_violation():
    ck.broken("correspondence process_renames/perform_*_renames vs Grist.PredRename",
              "model and implementation differ and the property's clauses hold on all explored inputs", mism)


def replay(ck, rp):
  r = rp["replay"]
  if r.get("level") == "function":
    c = Case()
    c.lex, c.ctx = r["lex"], r["ctx"]
    c.renames = {(t, cc): n for t, cc, n in r["renames"]}
    c.kind = c.ctx["kind"]
    text = print_lex(c.lex, "O")
    if real_parse(text)[0] == "syntax" and len(c.lex) == 1:
      c.stream, c.nodes, c.ixs = "invalid", [], []
    else:
      c.stream = "subset"
      dump = P40.dump_expr(ast.parse(print_lex(c.lex, "M"), mode="eval").body)
      c.nodes = visit_order(dump, [])
      c.ixs = ixs_of(c.lex, dump) or []
      for n, ix in zip(c.nodes, c.ixs):
        n["ix"] = ix
    print("replay: %r with %r -> %r" % (text, c.renames, real_process(text, c.ctx, c.renames)[:2]))
    mism = check_function_cases(ck, [c])
    if mism:
      ck.broken("correspondence process_renames vs Grist.PredRename", "replayed mismatch", mism)
  elif r.get("level") == "engine":
    ops, expects = run_history(ck, r["history"])
    mism = check_engine_model(ck, ops, expects)
    if mism and not ck.has_impl_violation():
      ck.broken("correspondence perform_*_renames vs Grist.PredRename", "replayed mismatch", mism)
  else:
    special_scenarios(ck)
  ck.nontrivial_case("replay"); ck.nontrivial_case("replay2")
  ck.lean(LEAN_MODULES)
