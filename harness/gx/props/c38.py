"""
C38  Node and the engine agree on metadata schema and type defaults.

Interpretation
  * Clause 1 "schema.ts is exactly what the generator produces from the Python schema" is read
    literally: the stdout of `sandbox/gen_js_schema.py` (run the way buildtools/update_schema.sh runs
    it, against the tree's schema.py) equals app/common/schema.ts byte for byte.  "Same version,
    tables, columns and types" is the data-level content of that: SCHEMA_VERSION, the `schema`
    object (tables and columns IN ORDER, Grist types) and the `SchemaTypes` interface (same tables
    and columns, type = get_ts_type(column type)).  isFormula/formula are not part of schema.ts.
  * Clause 2 "the default value of every Grist type in gristTypes.ts equals the Python default":
    for every type name T known to either side (keys of `_defaultValues`, keys of
    usertypes._type_defaults, typename() of every BaseColumnType subclass, base types of the
    metadata column types) and for the suffixed forms (`Ref:<table>`, `DateTime:<tz>`), the value
    `getDefaultForType(T)` (first element of the pair, with its `|| _defaultValues.Any` fallback
    and extractTypeFromColType) equals `usertypes.get_type_default(T)`; and the `.default` of an
    instance of each type class equals it too.  Values are compared as JSON cell values: None=null,
    0 == 0.0 (JS has one number type), float('inf') == Number.POSITIVE_INFINITY, '' == "".
    The SQLite text (second element of each pair) is not part of the property.
  * The quantifier "the current tree (any edit to either side)" = proof by regeneration: every run
    re-reads both sides (GRIST_REPO root), regenerates lean/Generated/*.lean and re-proves.

Theorems (lean/GristProps/C38.lean, C38Text.lean; model lean/GristModel/SchemaGen.lean)
  closed : schema_ts_matches_python, schema_ts_columns_match, schema_ts_text_matches, defaults_agree,
           defaults_agree_everywhere
  general: agree_iff, agree_lookup, tsTypeOf_suffix, tsDefault_suffix, pyDefault_suffix,
           defaultsAgree_sound, defaultsAgree_total
Tie    : (i) the REAL generator's stdout vs schema.ts (direct oracle of clause 1), and vs the model's
         `render` (driver) — on the real schema and, by running the real `gen_js_schema.main()`
         in-process against stub `schema` modules, on seeded random / mutated schemas;
         (ii) driver `agree` / `defaultsAgree` / `tsTypeOf` / `pyDefault` vs Python twins and the real
         `get_ts_type`, `usertypes.get_type_default`; (iii) the TS parsers vs the generator's fresh
         output, vs round trips on random schemas, and vs node's own evaluation of the object
         literals when node is installed.
Trusted: harness/gx/translate.py (py_schema, py_defaults, parse_schema_ts, parse_default_values,
         emit_*), the model of getDefaultForType (3 lines of TS, not executed here).
Order  : the direct oracle runs FIRST (it needs no Lean).  If it finds a violating table/column/type, the
         quick tier reports it and does not re-run the (now necessarily failing, ~1 min) kernel evaluation;
         the thorough tier regenerates and lets the theorems fail as well.  A schema.ts that the parser
         cannot read is a violation when it differs from the generator's output, an infrastructure error
         (exit 2) when it equals it.  Generated/*.lean that do not compile are an infrastructure error.
Roots  : both sandbox/ and app/common/ are read under GRIST_REPO; a file that a partial copy lacks
         altogether is taken from /repo (listed in the evidence as tree.files_taken_from_/repo).
"""
import contextlib
import copy
import io
import json
import os
import shutil
import subprocess
import sys
import types

from gx import translate_schema as T
from gx.common import Infra, REPO, LEAN_DIR, lake_lock, run_cmd

LEVEL = "proof"
MODULES = ["GristProps.C38", "GristProps.C38Text"]
MAX_REPORTED = 12


# ============================================================================ real code access
def run_real_generator():
  """stdout of sandbox/gen_js_schema.py, invoked as buildtools/update_schema.sh does."""
  script = T.repo_path(*T.GEN_JS_SCHEMA)
  if not os.path.exists(script):
    raise Infra("generator not found: " + script)
  env = dict(os.environ)
  env["PYTHONPATH"] = os.pathsep.join([T.repo_path("sandbox", "grist"), T.repo_path("sandbox", "thirdparty")])
  env["PYTHONDONTWRITEBYTECODE"] = "1"
  p = subprocess.run([sys.executable, "-B", script], cwd=REPO, env=env, stdout=subprocess.PIPE,
                     stderr=subprocess.PIPE, timeout=300)
  if p.returncode != 0:
    raise Infra("gen_js_schema.py exited %d: %s" % (p.returncode, p.stderr.decode("utf-8", "replace")[-400:]))
  try:
    return p.stdout.decode("utf-8")
  except UnicodeDecodeError as e:
    raise Infra("generator output is not UTF-8: %s" % e)


class _StubTable(object):
  def __init__(self, t):
    self.table_id = t["tableId"]
    self.columns = [dict(c) for c in t["columns"]]


def load_generator_module():
  """The tree's gen_js_schema.py as a module object (its `import schema` satisfied by the tree's
  schema.py; `main()` is not run)."""
  path = T.repo_path(*T.GEN_JS_SCHEMA)
  src = T.read_text(*T.GEN_JS_SCHEMA)
  mod = types.ModuleType("gen_js_schema_under_test")
  mod.__file__ = path
  try:
    exec(compile(src, path, "exec"), mod.__dict__)
  except Exception as e:
    raise Infra("cannot load gen_js_schema.py: %r" % (e,))
  for name in ("main", "get_ts_type"):
    if not callable(getattr(mod, name, None)):
      raise Infra("gen_js_schema.py has no %s()" % name)
  return mod


def real_render(mod, py):
  """Run the REAL main() of gen_js_schema.py on the schema `py` (a stub `schema` module)."""
  stub = types.SimpleNamespace(SCHEMA_VERSION=py["version"],
                               schema_create_actions=lambda: [_StubTable(t) for t in py["tables"]])
  saved = mod.schema
  mod.schema = stub
  buf = io.StringIO()
  try:
    with contextlib.redirect_stdout(buf):
      mod.main()
  finally:
    mod.schema = saved
  return buf.getvalue()


# ============================================================================ Python twins (of the model)
TS_TYPES = {"Bool": "boolean", "DateTime": "number", "Int": "number", "PositionNumber": "number",
            "Ref": "number", "RefList": "[GristObjCode.List, ...number[]]|null",
            "ChoiceList": "[GristObjCode.List, ...string[]]|null", "Text": "string"}


def twin_pure(t):
  i = t.find(":")
  return t if i < 0 else t[:i]


def twin_ts_type(t):
  return TS_TYPES.get(twin_pure(t), "CellValue")


def twin_expected(py, fn):
  return [{"tableId": t["tableId"], "entries": [[c["id"], fn(c["type"])] for c in t["columns"]]}
          for t in py["tables"]]


def twin_agree(py, ts):
  return (py["version"] == ts["version"] and twin_expected(py, lambda x: x) == ts["schema"]
          and twin_expected(py, twin_ts_type) == ts["iface"])


def twin_render(py):
  out = ["/* eslint-disable */\n\n/*** THIS FILE IS AUTO-GENERATED BY core/sandbox/gen_js_schema.py ***/\n\n"
         "import { GristObjCode } from \"app/plugin/GristData\";\n\n"
         "// tslint:disable:object-literal-key-quotes\n\n"
         "export const SCHEMA_VERSION = " + str(py["version"]) + ";\n\nexport const schema = {\n\n"]
  for t in py["tables"]:
    out.append('  "' + t["tableId"] + '": {\n')
    for c in t["columns"]:
      out.append("    " + c["id"] + " " * max(0, 20 - len(c["id"])) + ': "' + c["type"] + '",\n')
    out.append("  },\n\n")
  out.append("};\n\nexport interface SchemaTypes {\n\n")
  for t in py["tables"]:
    out.append('  "' + t["tableId"] + '": {\n')
    for c in t["columns"]:
      out.append("    " + c["id"] + ": " + twin_ts_type(c["type"]) + ";\n")
    out.append("  };\n\n")
  out.append("}\n")
  return "".join(out)


def _lookup(tbl, k):
  for k0, v in tbl:
    if k0 == k:
      return v
  return None


def twin_ts_default(ts_tbl, ty):
  v = _lookup(ts_tbl, twin_pure(ty))
  if v is None:
    v = _lookup(ts_tbl, "Any")
  return v if v is not None else {"error": "TypeError"}


def twin_py_default(py_tbl, ty):
  v = _lookup(py_tbl, twin_pure(ty))
  return v if v is not None else {"k": "null"}


def twin_defaults_agree(py_tbl, ts_tbl, extra):
  return all(twin_ts_default(ts_tbl, ty) == twin_py_default(py_tbl, ty)
             for ty in [k for k, _ in py_tbl] + [k for k, _ in ts_tbl] + list(extra))


# ============================================================================ direct oracle (real code only)
def show(v):
  k = v.get("k")
  if "error" in v:
    return "<TypeError>"
  return {"null": "null/None", "posInf": "+Infinity", "negInf": "-Infinity", "nan": "NaN"}.get(k) or \
    ("%s %r" % (k, v.get("v")))


def schema_findings(py, ts, get_ts_type):
  """Naive, name-based comparison of schema.py (imported) with schema.ts (parsed).  `get_ts_type` is
  the REAL function of the tree's gen_js_schema.py.  -> [(signature, detail, replay)]"""
  out = []
  def add(sig, detail, **rp):
    rp["clause"] = "schema"
    out.append((sig, detail, rp))
  if py["version"] != ts["version"]:
    add("SCHEMA_VERSION differs between schema.py and schema.ts",
        "schema.py SCHEMA_VERSION=%r, schema.ts SCHEMA_VERSION=%r" % (py["version"], ts["version"]),
        what="version", py=py["version"], ts=ts["version"])
  pnames = [t["tableId"] for t in py["tables"]]
  ptab = {}
  for t in py["tables"]:
    ptab.setdefault(t["tableId"], t)
  for block, label, fn in (("schema", "schema", lambda x: x), ("iface", "SchemaTypes", get_ts_type)):
    start = len(out)
    tnames = [t["tableId"] for t in ts[block]]
    ttab = {}
    for t in ts[block]:
      ttab.setdefault(t["tableId"], t)
    for n in pnames:
      if n not in ttab:
        add("schema.ts %s lacks table %s of schema.py" % (label, n), "table %s missing" % n,
            what="table-missing", block=block, table=n)
    for n in tnames:
      if n not in ptab:
        add("schema.ts %s has table %s absent from schema.py" % (label, n), "extra table %s" % n,
            what="table-extra", block=block, table=n)
    if len(set(pnames)) != len(pnames) or len(set(tnames)) != len(tnames):
      if pnames != tnames:
        add("schema.ts %s repeats or drops a repeated table" % label,
            "schema.py tables %r vs %r" % (pnames, tnames), what="table-dup", block=block)
    elif sorted(pnames) == sorted(tnames) and pnames != tnames:
      i = next(i for i in range(len(pnames)) if pnames[i] != tnames[i])
      add("schema.ts %s lists tables in a different order than schema.py" % label,
          "position %d: schema.py %s, schema.ts %s" % (i, pnames[i], tnames[i]),
          what="table-order", block=block, index=i)
    for n in pnames:
      if n not in ttab:
        continue
      pc = [(c["id"], fn(c["type"])) for c in ptab[n]["columns"]]
      tc = [(e[0], e[1]) for e in ttab[n]["entries"]]
      pids, tids = [c[0] for c in pc], [c[0] for c in tc]
      tstart = len(out)
      for cid, ty in pc:
        if cid not in tids:
          add("schema.ts %s lacks column %s.%s of schema.py" % (label, n, cid),
              "schema.py has %s.%s : %s" % (n, cid, ty), what="column-missing", block=block, table=n, column=cid)
      for cid, ty in tc:
        if cid not in pids:
          add("schema.ts %s has column %s.%s absent from schema.py" % (label, n, cid),
              "schema.ts has %s.%s : %s" % (n, cid, ty), what="column-extra", block=block, table=n, column=cid)
      pd, td = dict(reversed(pc)), dict(reversed(tc))
      for cid in pids:
        if cid in td and pd[cid] != td[cid]:
          add("schema.ts %s type of %s.%s differs from schema.py" % (label, n, cid),
              "expected %r (from schema.py%s), schema.ts has %r" % (
                pd[cid], "" if block == "schema" else " through get_ts_type", td[cid]),
              what="column-type", block=block, table=n, column=cid, expected=pd[cid], found=td[cid])
      if pc != tc and sorted(pids) == sorted(tids) and pids != tids:
        i = next(i for i in range(len(pids)) if pids[i] != tids[i])
        add("schema.ts %s lists the columns of %s in a different order than schema.py" % (label, n),
            "position %d: schema.py %s, schema.ts %s" % (i, pids[i], tids[i]),
            what="column-order", block=block, table=n, index=i)
      if pc != tc and len(out) == tstart:
        add("schema.ts %s repeats a column of %s or schema.py does" % (label, n),
            "schema.py columns %r vs schema.ts %r" % (pids, tids), what="column-dup", block=block, table=n)
    want = [(t["tableId"], [(c["id"], fn(c["type"])) for c in t["columns"]]) for t in py["tables"]]
    got = [(t["tableId"], [(e[0], e[1]) for e in t["entries"]]) for t in ts[block]]
    if want != got and len(out) == start:
      add("schema.ts %s differs from schema.py in a repeated table" % label,
          "tables %r vs %r" % (pnames, tnames), what="table-dup-content", block=block)
  return out


def text_finding(gen_text, ts_text):
  if gen_text == ts_text:
    return None
  a, b = gen_text.split("\n"), ts_text.split("\n")
  i = next((i for i in range(min(len(a), len(b))) if a[i] != b[i]), min(len(a), len(b)))
  ga = a[i] if i < len(a) else "<end of output>"
  gb = b[i] if i < len(b) else "<end of file>"
  return ("schema.ts text is not the output of gen_js_schema.py",
          "first difference at line %d: generator prints %r, schema.ts has %r" % (i + 1, ga, gb),
          {"clause": "text", "line": i + 1, "generator": ga, "file": gb})


def type_instances():
  """[(class name, typename, canonical default of an instance)] for every BaseColumnType subclass."""
  import usertypes
  base = getattr(usertypes, "BaseColumnType", None)
  out = []
  if base is None:
    return out
  for n in sorted(dir(usertypes)):
    c = getattr(usertypes, n)
    if not (isinstance(c, type) and issubclass(c, base) and c is not base):
      continue
    inst = None
    for args in ((), ("_grist_Tables",)):
      try:
        inst = c(*args)
        break
      except TypeError:
        continue
      except Exception:
        break
    if inst is None or not hasattr(inst, "default"):
      continue
    out.append((n, c.typename(), T.canon_py_value(inst.default)))
  return out


def defaults_findings(d):
  """Real usertypes.get_type_default vs the parsed `_defaultValues` (with getDefaultForType's
  fallback), per type name and per metadata column type; plus type-class instances."""
  import usertypes
  out = []
  ts_tbl = d["ts_defaults"]
  names = [k for k, _ in d["py_defaults"]]
  probes = list(dict.fromkeys(names + [k for k, _ in ts_tbl] + d["col_types"] + [d["unknown_type"]] +
                              [n + ":X" for n in names]))
  for ty in probes:
    pv = T.canon_py_value(usertypes.get_type_default(ty))
    tv = twin_ts_default(ts_tbl, ty)
    if pv != tv:
      base = twin_pure(ty)
      out.append(("default of type %s differs between usertypes.py and gristTypes.ts" % base,
                  "type %r: usertypes.get_type_default -> %s, gristTypes.ts getDefaultForType -> %s" % (
                    ty, show(pv), show(tv)),
                  {"clause": "defaults", "type": ty, "py": pv, "ts": tv}))
  for cname, tname, iv in type_instances():
    tv = twin_ts_default(ts_tbl, tname)
    if iv != tv:
      out.append(("default of type class %s differs from gristTypes.ts" % cname,
                  "usertypes.%s().default (typename %s) -> %s, gristTypes.ts getDefaultForType -> %s" % (
                    cname, tname, show(iv), show(tv)),
                  {"clause": "defaults-instance", "class": cname, "type": tname, "py": iv, "ts": tv}))
  # one finding per signature
  seen, uniq = set(), []
  for f in out:
    if f[0] not in seen:
      seen.add(f[0]); uniq.append(f)
  return uniq, probes


ORDER_TYPES = ["Any", "Attachments", "Bool", "Choice", "ChoiceList", "Date", "DateTime:UTC", "Int", "Numeric",
               "Ref:T", "RefList:T", "Text"]


def _uncanon(c):
  if c is None or c[0] == "n":
    return None
  if c[0] == "f":
    return float(c[1])
  return c[1]


def order_findings(ck, d):
  """The defaults the ENGINE uses (type objects, live columns, cells of a record added with no values) must be
  gristTypes.ts's defaults whatever the order in which the types are first instantiated in a process (class-level
  state of usertypes starts empty in every child)."""
  import subprocess
  rng = ck.rng
  orders = [sorted(ORDER_TYPES), sorted(ORDER_TYPES, reverse=True)]
  for first in ("Numeric", "Text", "Int", "RefList:T"):
    rest = [t for t in ORDER_TYPES if t != first]
    rng.shuffle(rest)
    orders.append([first] + rest)
  for _ in range(2 if ck.tier == "quick" else 30):
    o = list(ORDER_TYPES); rng.shuffle(o); orders.append(o)
  out = []
  procs = []
  for o in orders:
    p = subprocess.Popen(["/venv/bin/python", "-m", "gx.c38_child"], stdin=subprocess.PIPE, stdout=subprocess.PIPE,
                         stderr=subprocess.PIPE, text=True)
    p.stdin.write(json.dumps({"order": o})); p.stdin.close()
    procs.append((o, p))
  for o, p in procs:
    txt = p.stdout.read(); err = p.stderr.read(); p.wait()
    if p.returncode != 0:
      raise Infra("c38_child failed: %s" % err[-400:])
    rep = json.loads(txt)
    ck.evaluated(len(o))
    ck.count("instantiation_orders")
    if "error" in rep:
      out.append(("engine rejects a table with one column per type", repr(rep["error"]), {"clause": "order", "order": o}))
      continue
    for ty in o:
      tv = twin_ts_default(d["ts_defaults"], ty)
      for where in ("type_obj", "type_obj_again", "column", "cell"):
        c = rep[where].get(ty)
        if c is None or c[0] == "x":
          continue
        pv = T.canon_py_value(_uncanon(c))
        if pv != tv:
          out.append(("engine default of type %s differs from gristTypes.ts (%s)" % (twin_pure(ty), where),
                      "types instantiated in the order %r: %s default of %s is %s, gristTypes.ts getDefaultForType -> %s" % (
                        o, where, ty, show(pv), show(tv)), {"clause": "order", "order": o, "type": ty, "where": where}))
  return out


def all_findings(ck, d, gen_text, genmod):
  fs = []
  if d["ts"] is not None:
    fs += schema_findings(d["py"], d["ts"], genmod.get_ts_type)
  tf = text_finding(gen_text, d["ts_text"])
  if tf and not fs:
    if d["ts"] is None:
      tf = (tf[0] + " (and is not in the generated shape)", tf[1] + "; parser: " + str(d["ts_error"]), tf[2])
    fs.append(tf)
  df, probes = defaults_findings(d)
  return fs + df + order_findings(ck, d), probes


# ============================================================================ node cross-check (optional)
NODE_SCHEMA_JS = r"""
const fs = require('fs');
let src = fs.readFileSync(0, 'utf8');
src = src.replace(/^import .*$/mg, '').replace(/^export interface[\s\S]*$/m, '').replace(/^export /mg, '');
const r = new Function(src + '\n;return {v: SCHEMA_VERSION, s: schema};')();
console.log(JSON.stringify({version: r.v, schema: Object.entries(r.s).map(([t, cols]) =>
  ({tableId: t, entries: Object.entries(cols)}))}));
"""

def _node(script, data):
  node = shutil.which("node")
  if not node:
    return None
  try:
    p = subprocess.run([node, "-e", script], input=data.encode("utf-8"), stdout=subprocess.PIPE,
                       stderr=subprocess.PIPE, timeout=60)
  except (OSError, subprocess.TimeoutExpired):
    return None
  if p.returncode != 0:
    return {"node_error": p.stderr.decode("utf-8", "replace")[-300:]}
  return json.loads(p.stdout.decode("utf-8"))


def node_crosscheck(ck, d):
  """node's own reading of `schema` / `_defaultValues` vs the two parsers of translate.py."""
  r = _node(NODE_SCHEMA_JS, d["ts_text"]) if d["ts"] is not None else None
  if r is None:
    ck.count("node_schema_crosscheck_skipped")
  elif "node_error" in r:
    ck.count("node_schema_crosscheck_failed_to_evaluate")
  else:
    ck.count("node_schema_crosscheck")
    mine = {"version": d["ts"]["version"], "schema": d["ts"]["schema"]}
    if r != mine:
      ck.broken("parse_schema_ts vs node evaluation of schema.ts",
                "the schema.ts parser and node disagree on SCHEMA_VERSION / schema", {"node": r, "parser": mine})
  ck.count("ts_defaults_read_by_" + d["ts_defaults_how"])
  r = T.node_eval_defaults(d["ts_defaults_literal"])
  if r is None:
    ck.count("node_defaults_crosscheck_skipped")
  else:
    ck.count("node_defaults_crosscheck")
    theirs = [[k, v] for k, v in r]
    mine = [[k, v] for k, v in d["ts_defaults"]]
    if theirs != mine:
      ck.broken("parse_default_values vs node evaluation of _defaultValues",
                "the gristTypes.ts parser and node disagree", {"node": theirs, "parser": mine})


# ============================================================================ Lean side
def build_generated():
  """Generated/*.lean must compile: a failure here is a translator bug, never a verdict."""
  lock = lake_lock()
  try:
    rc, out = run_cmd(["lake", "build"] + T.GENERATED_MODULES, cwd=LEAN_DIR, timeout=3000)
  finally:
    lock.close()
  if rc != 0:
    raise Infra("lean/Generated/*.lean does not compile (translator output changed shape?): " +
                "; ".join(l for l in out.splitlines() if "error" in l)[:600])


# ============================================================================ generators
ID_POOL = ["id", "a", "tableId", "parentId", "x1", "_private", "recordCardViewSectionRef", "exactly20characters_",
           "nineteen_characters", "twentyone_characters_", "colRef", "type", "A", "manualSort", "$x", "ünï", "日本"]
BASES = ["Text", "Int", "Bool", "Ref", "RefList", "DateTime", "ChoiceList", "PositionNumber", "Numeric", "Any",
         "Choice", "Date", "Attachments", "Blob", "Id", "ManualSortPos", "text", "Reference", "", "Refx", "Re"]
SUFFIXES = ["", "", "", ":_grist_Tables", ":UTC", ":America/New_York", ":", "::", ":a:b", ":Text"]


def rand_type(rng):
  return rng.choice(BASES) + rng.choice(SUFFIXES)


def rand_schema(rng, sane=True):
  tables = []
  used = set()
  for _ in range(rng.choice([0, 1, 1, 2, 3, 5])):
    tid = rng.choice(["_grist_Tables", "_grist_Views", "T", "_grist_X", "Table1", "_grist_Tables_column", "A_b"])
    if sane and tid in used:
      continue
    used.add(tid)
    cols, cused = [], set()
    for _ in range(rng.choice([0, 1, 2, 3, 6, 9])):
      cid = rng.choice(ID_POOL)
      if not sane and rng.random() < 0.1:
        cid = rng.choice(["has space", "q\"uote", "c:olon", "", "tab\tbed"])
      if sane and (cid in cused or not cid.isascii()):
        continue
      cused.add(cid)
      ty = rand_type(rng)
      if not sane and rng.random() < 0.05:
        ty = rng.choice(['Te"xt', "a b", "Réf:T"])
      cols.append({"id": cid, "type": ty, "isFormula": rng.random() < 0.1,
                   "formula": rng.choice(["", "", "rec.x", "'\"'"])})
    tables.append({"tableId": tid, "columns": cols})
  return {"version": rng.choice([0, 1, 9, 46, 47, 100, 12345, -3]), "tables": tables}


def mutate_pair(rng, py, ts):
  """A copy of (py, ts) with 0-2 random edits on either side; returns (py, ts, names of edits)."""
  py, ts = copy.deepcopy(py), copy.deepcopy(ts)
  edits = []
  for _ in range(rng.choice([0, 1, 1, 1, 2])):
    e = rng.choice(["version_py", "version_ts", "drop_col_py", "drop_col_ts", "type_py", "type_ts", "iface_ts",
                    "swap_cols_py", "swap_cols_ts", "swap_tables_ts", "drop_table_py", "drop_table_ts",
                    "add_col_py", "add_col_ts", "rename_col_ts", "rename_table_ts", "suffix_py", "formula_py",
                    "drop_iface_col", "dup_col_ts"])
    edits.append(e)
    side = py["tables"] if e.endswith("_py") else ts[rng.choice(["schema", "iface"]) if e != "iface_ts" else "iface"]
    if e == "drop_iface_col":
      side = ts["iface"]
    if e == "version_py":
      py["version"] += rng.choice([1, -1, 10]); continue
    if e == "version_ts":
      ts["version"] += rng.choice([1, -1, 10]); continue
    if not side:
      continue
    t = rng.choice(side)
    cols = t["columns"] if e.endswith("_py") else t["entries"]
    if e in ("drop_table_py", "drop_table_ts"):
      side.remove(t)
    elif e == "swap_tables_ts" and len(side) > 1:
      i = rng.randrange(len(side) - 1); side[i], side[i + 1] = side[i + 1], side[i]
    elif e == "rename_table_ts":
      t["tableId"] += "2"
    elif e == "add_col_py":
      cols.insert(rng.randrange(len(cols) + 1), {"id": "newCol", "type": rand_type(rng), "isFormula": False, "formula": ""})
    elif e == "add_col_ts":
      cols.insert(rng.randrange(len(cols) + 1), ["newCol", "Text"])
    elif not cols:
      continue
    elif e in ("drop_col_py", "drop_col_ts", "drop_iface_col"):
      cols.pop(rng.randrange(len(cols)))
    elif e == "type_py":
      rng.choice(cols)["type"] = rand_type(rng)
    elif e == "suffix_py":
      c = rng.choice(cols); c["type"] = twin_pure(c["type"]) + rng.choice(SUFFIXES)
    elif e == "formula_py":
      c = rng.choice(cols); c["formula"] = "1"; c["isFormula"] = not c["isFormula"]
    elif e in ("type_ts", "iface_ts"):
      rng.choice(cols)[1] = rng.choice(["Text", "Int", "number", "string", "CellValue", "boolean", "Ref:_grist_Tables"])
    elif e == "rename_col_ts":
      rng.choice(cols)[0] += "_"
    elif e == "dup_col_ts":
      cols.append(list(rng.choice(cols)))
    elif e in ("swap_cols_py", "swap_cols_ts") and len(cols) > 1:
      i = rng.randrange(len(cols) - 1); cols[i], cols[i + 1] = cols[i + 1], cols[i]
  return py, ts, edits


VALS = [{"k": "null"}, {"k": "bool", "v": False}, {"k": "bool", "v": True}, {"k": "num", "v": "0"},
        {"k": "num", "v": "1"}, {"k": "num", "v": "-7"}, {"k": "str", "v": ""}, {"k": "str", "v": "0"},
        {"k": "posInf"}, {"k": "negInf"}, {"k": "nan"}, {"k": "frac", "v": "0.5"}, {"k": "list", "v": []},
        {"k": "list", "v": ['{"k": "str", "v": "L"}']}, {"k": "other", "v": "py:b''"},
        {"k": "num", "v": "123456789012345678901234567890"}]


def mutate_defaults(rng, py_tbl, ts_tbl):
  py_tbl, ts_tbl = [list(x) for x in py_tbl], [list(x) for x in ts_tbl]
  for _ in range(rng.choice([0, 1, 1, 2])):
    tbl = rng.choice([py_tbl, ts_tbl])
    e = rng.choice(["value", "drop", "add", "shuffle", "dropany", "dup"])
    if e == "value" and tbl:
      rng.choice(tbl)[1] = rng.choice(VALS)
    elif e == "drop" and tbl:
      tbl.pop(rng.randrange(len(tbl)))
    elif e == "add":
      tbl.insert(rng.randrange(len(tbl) + 1), [rng.choice(["New", "Any", "Ref:x", "Text", ""]), rng.choice(VALS)])
    elif e == "shuffle":
      rng.shuffle(tbl)
    elif e == "dropany":
      tbl[:] = [x for x in tbl if x[0] != "Any"]
    elif e == "dup" and tbl:
      k = rng.choice(tbl)[0]; tbl.append([k, rng.choice(VALS)])
  return py_tbl, ts_tbl


# ============================================================================ run
def run(ck):
  import usertypes
  ck.rule = ("1 evaluation per compared item: the real tree (generator text vs schema.ts; every table/column of both "
             "sides; every type name and metadata column type for defaults) plus seeded variants: mutated copies of "
             "the real (schema.py, schema.ts) pair for `agree`, random schemas rendered by the REAL gen_js_schema.main() "
             "vs the model's render, random type strings for get_ts_type / get_type_default, mutated default tables. "
             "non-trivial = a schema with >=1 table having >=1 column (agree/render cases), a type string (type cases), "
             "a default-table pair with >=1 entry; distinct by content")
  ck.assumptions = [
    "the metadata schema is what `import schema; schema.SCHEMA_VERSION, schema.schema_create_actions()` give, and the "
    "generator is run as buildtools/update_schema.sh runs it (PYTHONPATH=sandbox/grist)",
    "getDefaultForType is `(_defaultValues[extractTypeFromColType(t)] || _defaultValues.Any)[0]` (modelled, not executed); "
    "its `_defaultValues` literal is read by translate.parse_default_values (cross-checked with node when installed)",
    "default values compared as cell values: None=null, Python 0 == 0.0 == JS 0, float('inf') == Number.POSITIVE_INFINITY",
  ]
  ck.trusted += [
    "harness/gx/translate.py: py_schema/py_defaults (import + call of the tree's schema.py / usertypes.py), "
    "parse_schema_ts, parse_default_values, emit_* (data -> lean/Generated/*.lean)",
  ]
  ck.level = LEVEL
  ck.explanation = ("proof by regeneration: lean/Generated/*.lean is rewritten from the current tree (GRIST_REPO root: %s) "
                    "on every run and the closed theorems are re-checked by the kernel" % REPO)

  # ---- both sides of the tree, the real generator
  d = T.collect()
  gen_text = run_real_generator()
  genmod = load_generator_module()
  ck.extra["tree"] = {"repo": REPO, "schema_version_py": d["py"]["version"],
                      "tables": len(d["py"]["tables"]), "columns": sum(len(t["columns"]) for t in d["py"]["tables"]),
                      "ts_default_types": len(d["ts_defaults"]), "py_default_types": len(d["py_defaults"]),
                      "files_taken_from_/repo": list(T.fallbacks_used)}

  # ---- direct oracle on the real tree
  findings, probes = all_findings(ck, d, gen_text, genmod)
  ck.evaluated(1 + 2 * sum(len(t["columns"]) for t in d["py"]["tables"]) + len(probes))
  ck.count("real_tree_columns", sum(len(t["columns"]) for t in d["py"]["tables"]))
  ck.count("real_tree_default_probes", len(probes))
  for sig, detail, rp in findings[:MAX_REPORTED]:
    ck.violation(sig, detail, rp)
  if len(findings) > MAX_REPORTED:
    ck.count("further_findings_not_listed", len(findings) - MAX_REPORTED)

  if d["ts"] is None:
    if gen_text == d["ts_text"]:
      raise Infra("schema.ts equals the generator's output but translate.parse_schema_ts rejects it: %s" % d["ts_error"])
    ck.obligations.append(("regenerate:lean/Generated (schema.ts not parseable)", False, d["ts_error"]))
    return

  # ---- the parser on the generator's FRESH output: must read back exactly the Python data
  try:
    fresh = T.parse_schema_ts(gen_text)
  except T.TsParseError as e:
    fresh = None
    if not ck.has_impl_violation():
      raise Infra("translate.parse_schema_ts rejects the generator's output: %s" % e)
  if fresh is not None:
    want = {"version": d["py"]["version"], "schema": twin_expected(d["py"], lambda x: x),
            "iface": twin_expected(d["py"], genmod.get_ts_type)}
    if fresh != want and not ck.has_impl_violation():
      ck.broken("parse_schema_ts(generator output) vs schema.py data",
                "the TS parser does not read back what the generator was given", {"parsed": fresh, "expected": want})
    if gen_text == d["ts_text"] and fresh != d["ts"]:
      raise Infra("parse_schema_ts is not deterministic")
  node_crosscheck(ck, d)

  # ---- regenerate + prove
  if ck.has_impl_violation() and ck.tier == "quick":
    # The direct oracle already holds a concrete violating table/column/type of the real tree; re-proving
    # would only make the kernel evaluate the same (now false) Boolean for up to a minute.  (thorough: done.)
    ck.obligations.append(("lean:closed theorems not re-attempted (direct oracle already found a violation)", False, ""))
    return
  T.gen_schema(d)
  build_generated()
  ck.lean(MODULES)

  # ---- correspondence: model (driver) vs real code and twins
  correspondence(ck, d, gen_text, genmod, usertypes)


def correspondence(ck, d, gen_text, genmod, usertypes):
  rng = ck.rng
  quick = ck.tier == "quick"
  ops, expect = [], []     # expect: (kind, payload)

  def add(op, kind, payload):
    op["m"] = "schemagen"
    ops.append(op); expect.append((kind, payload))

  # the real tree
  add({"op": "agree", "py": d["py"], "ts": d["ts"]}, "agree", (d["py"], d["ts"], ["real tree"]))
  add({"op": "render", "py": d["py"]}, "render-real", gen_text)
  # mutated copies of the real pair
  for _ in range(150 if quick else 1500):
    py, ts, edits = mutate_pair(rng, d["py"], d["ts"])
    add({"op": "agree", "py": py, "ts": ts}, "agree", (py, ts, edits))
  # random schemas through the REAL generator main()
  for k in range(400 if quick else 6000):
    sane = k % 3 != 0
    py = rand_schema(rng, sane=sane)
    add({"op": "render", "py": py}, "render", (py, sane))
    if sane:
      ts = {"version": py["version"], "schema": twin_expected(py, lambda x: x), "iface": twin_expected(py, twin_ts_type)}
      py2, ts2, edits = mutate_pair(rng, py, ts)
      add({"op": "agree", "py": py2, "ts": ts2}, "agree", (py2, ts2, edits))
  # type strings
  tys = list(dict.fromkeys(d["col_types"] + [k for k, _ in d["py_defaults"]] +
                           [rand_type(rng) for _ in range(300 if quick else 3000)] +
                           ["".join(rng.choice("RefTxt:_ eé") for _ in range(rng.randint(0, 8)))
                            for _ in range(200 if quick else 3000)]))
  add({"op": "tstype", "types": tys}, "tstype", tys)
  # defaults: the real tables probed with many type strings, and mutated tables
  pyt = [[k, v] for k, v in d["py_defaults"]]
  tst = [[k, v] for k, v in d["ts_defaults"]]
  extra = [d["unknown_type"]] + d["col_types"]
  add({"op": "defaults", "py": pyt, "ts": tst, "extra": extra, "probe": tys}, "defaults-real", (pyt, tst, extra, tys))
  for _ in range(200 if quick else 3000):
    p2, t2 = mutate_defaults(rng, pyt, tst)
    ex = rng.sample(tys, min(len(tys), rng.randint(0, 4)))
    pr = rng.sample(tys, min(len(tys), 6)) + [k for k, _ in p2][:3]
    add({"op": "defaults", "py": p2, "ts": t2, "extra": ex, "probe": pr}, "defaults", (p2, t2, ex, pr))

  outs = ck.driver(ops)
  mism = None
  def bad(what, case, model, real):
    nonlocal mism
    ck.count("model_impl_disagreements")
    if mism is None:
      mism = {"what": what, "case": case, "model": model, "real": real}

  for (kind, pl), op, mo in zip(expect, ops, outs):
    if "error" in mo and kind != "never":
      bad("driver error", op, mo, None); continue
    if kind == "agree":
      py, ts, edits = pl
      ck.evaluated()
      want = twin_agree(py, ts)
      ck.count("agree_true" if want else "agree_false")
      for e in edits:
        ck.count("edit:" + e)
      if any(t["columns"] for t in py["tables"]):
        ck.nontrivial_case(["agree", py, ts])
      # the name-based oracle must say the same thing as the positional twin
      fs = schema_findings(py, ts, genmod.get_ts_type)
      if want != (not fs):
        bad("twin_agree vs name-based oracle", {"py": py, "ts": ts}, want, [f[0] for f in fs])
      if mo["agree"] != want or mo["expectedSchema"] != twin_expected(py, lambda x: x) \
         or mo["expectedIface"] != twin_expected(py, genmod.get_ts_type):
        bad("agree", {"py": py, "ts": ts, "edits": edits}, mo, want)
    elif kind == "render-real":
      ck.evaluated()
      if mo["text"] != pl:
        bad("render(real schema.py) vs real generator stdout", "real tree", mo["text"][:2000], pl[:2000])
    elif kind == "render":
      py, sane = pl
      ck.evaluated()
      real = real_render(genmod, py)
      ck.count("render_sane" if sane else "render_odd_names")
      if any(t["columns"] for t in py["tables"]):
        ck.nontrivial_case(["render", py])
        ck.sample({"schema": py, "generator_output_head": real.split("\n")[8:16]}, limit=2)
      if mo["text"] != real:
        bad("render vs real gen_js_schema.main()", py, mo["text"], real)
      if twin_render(py) != real:
        bad("twin_render vs real gen_js_schema.main()", py, twin_render(py), real)
      if sane:
        # parser round trip on the REAL generator's text
        try:
          back = T.parse_schema_ts(real)
        except T.TsParseError as e:
          back = "TsParseError: %s" % e
        want = {"version": py["version"], "schema": twin_expected(py, lambda x: x),
                "iface": twin_expected(py, genmod.get_ts_type)}
        ck.count("parser_round_trips")
        if back != want:
          bad("parse_schema_ts(real generator output) round trip", py, back, want)
    elif kind == "tstype":
      for ty, pu, tt in zip(pl, mo["pure"], mo["ts"]):
        ck.evaluated()
        ck.nontrivial_case(["type", ty])
        if tt != genmod.get_ts_type(ty) or pu != usertypes.get_pure_type(ty):
          bad("tsTypeOf/pureType vs real get_ts_type/get_pure_type", ty, [pu, tt],
              [usertypes.get_pure_type(ty), genmod.get_ts_type(ty)])
        ck.count("ts_type:" + genmod.get_ts_type(ty).split("|")[0][:24])
    elif kind in ("defaults", "defaults-real"):
      p2, t2, ex, pr = pl
      ck.evaluated()
      if p2 or t2:
        ck.nontrivial_case(["defaults", p2, t2, ex])
      want = twin_defaults_agree(p2, t2, ex)
      ck.count("defaults_agree_true" if want else "defaults_agree_false")
      if mo["agree"] != want:
        bad("defaultsAgree", {"py": p2, "ts": t2, "extra": ex}, mo["agree"], want)
      for ty, a, b in zip(pr, mo["tsDefault"], mo["pyDefault"]):
        if a != twin_ts_default(t2, ty) or b != twin_py_default(p2, ty):
          bad("tsDefault/pyDefault vs twin", {"py": p2, "ts": t2, "type": ty}, [a, b],
              [twin_ts_default(t2, ty), twin_py_default(p2, ty)])
      if kind == "defaults-real":
        # the model's get_type_default over the tabulated table vs the REAL function, on every probe
        for ty, b in zip(pr, mo["pyDefault"]):
          ck.evaluated()
          real = T.canon_py_value(usertypes.get_type_default(ty))
          if b != real:
            bad("pyDefault (model over tabulated table) vs real usertypes.get_type_default", ty, b, real)
        ck.sample({"defaults": {k: show(v) for k, v in t2}}, limit=3)
  if mism and not ck.has_impl_violation():
    ck.broken("correspondence gen_js_schema.py / usertypes.py vs Grist.SchemaGen (%s)" % mism["what"],
              "model and real code (or twin) differ while the property's clauses hold on the real tree", mism)


# ============================================================================ replay
def replay(ck, rp):
  r = rp.get("replay") or {}
  d = T.collect()
  gen_text = run_real_generator()
  genmod = load_generator_module()
  findings, probes = all_findings(ck, d, gen_text, genmod)
  ck.evaluated(len(probes) + 1)
  ck.nontrivial_case("replay"); ck.nontrivial_case(r)
  sig = rp.get("signature")
  print("replay on %s: recorded finding: %s" % (REPO, sig))
  print("  recorded detail: %s" % (rp.get("detail"),))
  still = [f for f in findings if f[0] == sig]
  if still:
    print("  STILL PRESENT: %s" % still[0][1])
  else:
    print("  not present any more")
  for f in findings:
    if f[0] != sig:
      print("  other difference now present: %s -- %s" % (f[0], f[1]))
  if not findings:
    print("  property holds on the current tree")
  for s, detail, rpl in findings[:MAX_REPORTED]:
    ck.violation(s, detail, rpl)
  if d["ts"] is not None and not findings:
    T.gen_schema(d)
    build_generated()
    ck.lean(MODULES)
  else:
    ck.obligations.append(("replay:oracle only", True, ""))
