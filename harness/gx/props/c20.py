"""
C20  Row positions stay unique and order-preserving.

Theorems: lean/GristProps/C20.lean about GristModel/Relabel.lean (one transcription of
relabeling.py, generic over the key type; the theorems are about any lawful linear order):
  bisect_left_spec, group_insertions_spec, ungroup_slot, ungroup_order, apply_adjustments_order,
  checker_sound / checker_complete (validOutcome <=> the clauses), prepare_inserts_partial (a normal return on
  which no relabel/renumber step ran satisfies the four clauses, under the listed get_range laws).
Tie: the SAME Lean code instantiated at Float (Grist.Relabel.Flt.floatOps) is run by the driver and
  compared BIT-FOR-BIT (IEEE bit patterns) with relabeling.prepare_inserts: adjustments, new keys,
  which exception (which assert) fires, and how many _adjust_range/_adjust_all steps ran; plus the
  primitives get_range / range_around_float / nextfloat / prevfloat / thresholds / _group_insertions.
  The proved-sound checker validOutcome is evaluated (in Lean) on every REAL outcome and on corrupted
  outcomes and must agree with the oracle below.
Search (direct oracle, independent of the model): see `oracle`.

INTERPRETATION (decisions):
 * Contract of prepare_inserts: `sortedlist` is a SortedListWithKey, so existing keys arrive sorted
   ascending; keys are floats, no NaN anywhere (NaN has no position; PositionNumber.do_convert gives
   +inf for None/"" and column.py passes floats).  Requested keys may be ANY non-NaN float incl.
   +-inf, 0, negatives, duplicates, ties with existing keys.
 * Existing DUPLICATES are not promised by the docstring ("takes a SortedListWithKey and a list of
   keys"), but test_relabeling.test_with_dups/test_with_invalid call it with duplicates, zeros,
   negatives and +inf and expect sane results ("invalid positions from before this logic", comment
   in prep_inserts_at_index).  Decision:
     - existing finite and pairwise distinct (the state the property itself maintains; what
       PositionColumn._sorted_rows holds): ALL clauses, and no exception may escape;
     - existing finite with duplicates / zero / negative values: generated with low weight; all
       clauses except that two UNTOUCHED existing rows which were equal may stay equal;
     - existing containing +-inf: out of contract for the oracle (PositionColumn.set never puts the
       +inf default into _sorted_rows, prepare_new_values only ever writes finite values); still
       generated and covered by the bit-for-bit differential.  [Observed there: with an existing
       -inf row a requested -inf is placed AFTER it, because the placeholder -inf ties with it.]
 * "place each new row where its requested position falls (before existing rows with an equal
   position)": new row with request q ends up after every existing row whose OLD key is < q and
   before every existing row whose OLD key is >= q.  "new rows keeping the order of their requested
   positions": request a before request b whenever (q_a, a) < (q_b, b), i.e. ties by request index.
 * An exception escaping prepare_inserts on in-contract input means no positions are computed at all,
   so "give all rows finite distinct positions" fails: it is reported as a violation with a
   signature naming the assert and the class of input.  (The Lean theorem deliberately does not
   claim totality; the three classes found on the unchanged tree are in known_findings.json.)
 * The engine-level clause ("manualSort ... distinct after any history") is in engine_level().
"""
import math
import os
import struct
import sys
import traceback

NONTRIVIAL_RULE = ("non-trivial = the real run relabelled a crowded neighbourhood (_adjust_range), renumbered everything "
                   "(_adjust_all) or raised; distinct by (existing bits, requested bits)")


def bits(x):
  if x != x:
    return "nan"      # NaN payloads are not compared (only prevfloat(0.0) produces one; unreachable from prepare_inserts)
  return struct.unpack('<Q', struct.pack('<d', float(x)))[0]


def unbits(n):
  return struct.unpack('<d', struct.pack('<Q', n))[0]


def nf(x, n=1):
  """next representable float (own implementation, not relabeling.nextfloat)"""
  for _ in range(n):
    x = math.nextafter(x, math.inf)
  return x


def pf(x, n=1):
  for _ in range(n):
    x = math.nextafter(x, -math.inf)
  return x


# ---------------------------------------------------------------------------------------------
# running the real code (observation only: pass-through wrappers count relabel steps and keep a
# snapshot of the worklist when an exception escapes)

ASSERT_TAGS = [
  ("assert count > 0", "AssertionError:count"),
  ("assert self.count_range(begin, end) > 0", "AssertionError:count_range"),
  ("assert self.count_range(rbegin, rend) > 0", "AssertionError:sparse"),
  ("assert is_valid_range(begin, self._insertions.irange(begin, end), end)", "AssertionError:valid"),
]


class Observer(object):
  def __init__(self):
    import relabeling
    self.r = relabeling
    self.cls = relabeling.ListWithAdjustments
    self.saved = {}
    self.reset()

  def reset(self):
    self.relabels = 0
    self.renumbers = 0
    self.snap = None
    self.sparse_args = None

  def __enter__(self):
    cls, ob = self.cls, self
    for name in ("_adjust_range", "_adjust_all", "prep_inserts_at_index", "_find_sparse_enough_range"):
      self.saved[name] = cls.__dict__[name]
    o_range, o_all = self.saved["_adjust_range"], self.saved["_adjust_all"]
    o_prep, o_sparse = self.saved["prep_inserts_at_index"], self.saved["_find_sparse_enough_range"]

    def _adjust_range(self, begin, end):
      ob.relabels += 1
      return o_range(self, begin, end)

    def _adjust_all(self):
      ob.renumbers += 1
      return o_all(self)

    def prep_inserts_at_index(self, index, count):
      try:
        return o_prep(self, index, count)
      except Exception:
        ob.snap = {"index": index, "count": count,
                   "adj": [tuple(a) for a in self._adjustments],
                   "ins": list(self._insertions)}
        raise

    def _find_sparse_enough_range(self, begin, end):
      ob.sparse_args = (begin, end)
      return o_sparse(self, begin, end)

    cls._adjust_range = _adjust_range
    cls._adjust_all = _adjust_all
    cls.prep_inserts_at_index = prep_inserts_at_index
    cls._find_sparse_enough_range = _find_sparse_enough_range
    return self

  def __exit__(self, *a):
    for name, f in self.saved.items():
      setattr(self.cls, name, f)


def classify_exception(e):
  tbs = traceback.extract_tb(e.__traceback__)
  name = type(e).__name__
  if isinstance(e, AssertionError):
    line = (tbs[-1].line or "").strip()
    for text, tag in ASSERT_TAGS:
      if line == text:
        return tag
    return "AssertionError:? " + line[:60]
  if isinstance(e, ValueError):
    if "This isn't expected" in str(e):
      return "ValueError:not_expected"
    if "not in list" in str(e):
      return "ValueError:remove"
    return "ValueError:? " + str(e)[:60]
  return name


def real_prepare(ob, existing, keys):
  """-> dict(adj=[(i,key)], new=[...], relabels, renumbers) or dict(error=tag, snap=..., sparse_args=...)"""
  from sortedcontainers import SortedListWithKey
  ob.reset()
  sl = SortedListWithKey(range(len(existing)), key=lambda i: existing[i])
  assert list(sl) == list(range(len(existing))), "generator must hand over sorted existing keys"
  try:
    adj, new = ob.r.prepare_inserts(sl, list(keys))
  except Exception as e:    # pylint: disable=broad-except
    return {"error": classify_exception(e), "snap": ob.snap, "sparse_args": ob.sparse_args,
            "relabels": ob.relabels, "renumbers": ob.renumbers}
  return {"adj": [(int(i), k) for (i, k) in adj], "new": list(new),
          "relabels": ob.relabels, "renumbers": ob.renumbers}


# ---------------------------------------------------------------------------------------------
# the oracle: the property's clauses on the real outputs (naive O(n*m), no bisect, no grouping)

def all_finite(existing):
  return all(math.isfinite(x) for x in existing)


def strict_existing(existing):
  return all(math.isfinite(x) for x in existing) and \
    all(existing[i] < existing[i + 1] for i in range(len(existing) - 1))


def oracle(existing, req, adj, new):
  """None if the clauses hold, else (signature, detail)."""
  n = len(existing)
  if len(new) != len(req):
    return ("number of new positions differs from number of requests", "%d vs %d" % (len(new), len(req)))
  final = list(existing)
  seen = set()
  for (i, k) in adj:
    if not (isinstance(i, int) and 0 <= i < n):
      return ("adjustment names a row index that does not exist", "index %r" % (i,))
    if i in seen:
      return ("same existing row adjusted twice", "index %r" % (i,))
    seen.add(i)
    final[i] = k
  for k in list(new) + [k for (_, k) in adj]:
    if not (isinstance(k, float) and math.isfinite(k)):
      return ("computed position is not a finite float", "%r" % (k,))
  # existing rows keep their order
  for i in range(n - 1):
    if existing[i] < existing[i + 1] or i in seen or (i + 1) in seen:
      if not final[i] < final[i + 1]:
        return ("existing rows reordered or collide after adjustments",
                "rows %d,%d: %r,%r -> %r,%r" % (i, i + 1, existing[i], existing[i + 1], final[i], final[i + 1]))
    elif not final[i] <= final[i + 1]:
      return ("existing rows reordered or collide after adjustments", "rows %d,%d" % (i, i + 1))
  # distinctness of new rows among themselves and against existing rows
  pos = {}
  for j, k in enumerate(new):
    if k in pos:
      return ("two new rows get the same position", "requests %d and %d -> %r" % (pos[k], j, k))
    pos[k] = j
  for i, k in enumerate(final):
    if k in pos:
      return ("new row gets the position of an existing row", "request %d, row %d -> %r" % (pos[k], i, k))
  # placement relative to existing rows (before existing rows with an equal position)
  for j, q in enumerate(req):
    for i in range(n):
      if existing[i] < q:
        if not final[i] < new[j]:
          return ("new row placed before an existing row with a smaller position",
                  "request %d (%r) vs row %d (%r): %r !> %r" % (j, q, i, existing[i], new[j], final[i]))
      else:
        if not new[j] < final[i]:
          return ("new row placed after an existing row with an equal or larger position",
                  "request %d (%r) vs row %d (%r): %r !< %r" % (j, q, i, existing[i], new[j], final[i]))
  # new rows among themselves: requested order, ties by request index
  order = sorted(range(len(req)), key=lambda j: (req[j], j))
  for a, b in zip(order, order[1:]):
    if not new[a] < new[b]:
      return ("new rows do not keep the order of their requested positions",
              "requests %d (%r) and %d (%r) -> %r, %r" % (a, req[a], b, req[b], new[a], new[b]))
  return None


def exception_signature(existing, req, res):
  """An exception escaped prepare_inserts.  Name the class of input precisely."""
  tag = res["error"]
  snap = res.get("snap") or {}
  n = len(existing)

  def cur_key(i):
    for (j, k) in snap.get("adj", []):
      if j == i:
        return k
    return existing[i]

  if tag == "AssertionError:valid" and snap:
    # Is the worklist at the moment of the failed assert a valid outcome for the groups processed so far?
    idx = snap["index"]
    part = [j for j in sorted(range(len(req)), key=lambda j: (req[j], j))
            if sum(1 for x in existing if x < req[j]) <= idx]
    ins = snap["ins"]
    if len(ins) == len(part):
      new = dict(zip(part, ins))
      sub_req = [req[j] for j in sorted(part)]
      sub_new = [new[j] for j in sorted(part)]
      if oracle(existing, sub_req, snap["adj"], sub_new) is None:
        return ("AssertionError: stale post-relabel assert (worklist valid; a relabelled key coincides with the pre-relabel neighbour)",
                "relabeling.py prep_inserts_at_index re-checks is_valid_range with the begin/end taken BEFORE _adjust_range")
    return ("AssertionError: post-relabel assert fails and the worklist is not a valid outcome", str(snap)[:300])
  if tag == "AssertionError:count_range" and snap:
    idx, count = snap["index"], snap["count"]
    if idx == n and n > 0:
      b = cur_key(n - 1)
      if b >= 2.0 ** 53 and (b + count + 1) == b:
        return ("AssertionError: append after a last position >= 2^53 (begin + count + 1 == begin)",
                "last=%r count=%d" % (b, count))
  if tag == "AssertionError:sparse" and res.get("sparse_args"):
    b = res["sparse_args"][0]
    if 0.0 < b < sys.float_info.min:
      return ("AssertionError: crowded neighbourhood of a subnormal position (range_around_float is empty there)",
              "begin=%r" % (b,))
  return ("prepare_inserts raises %s" % tag, "snap=%s" % (str(snap)[:300],))


# ---------------------------------------------------------------------------------------------
# generators

BASES = [1.0, 0.5, 3.0, 0.1, 1.2, 2.4, 17.0, 123456.789, 1e-300, 2.0 ** -1000, 2.0 ** 40, 1e12,
         2.0 ** 49 - 4, 2.0 ** 50, 2.0 ** 52 - 8, 2.0 ** 52, 1e15]
EXTREME_BASES = [5e-324, 1e-322, sys.float_info.min, 2.0 ** 53 - 4, 2.0 ** 53, 1e16, 2.0 ** 60, 1e300, 1.7e308]
INF = float('inf')


def gen_static(rng, extreme=False):
  n = rng.choice([0, 1, 2, 2, 3, 3, 4, 5, 8, 20, 60])
  base = rng.choice(EXTREME_BASES if extreme else BASES)
  ex, x = [], base
  dense = rng.random()
  for _ in range(n):
    ex.append(x)
    m = rng.random()
    if m < dense:
      x = nf(x)
    elif m < dense + 0.15:
      x = nf(x, rng.randint(2, 40))
    elif m < dense + 0.25:
      x = x * 2
    else:
      x = x + rng.choice([1.0, 0.25, 1e-3 * base])
    if x <= ex[-1]:
      x = nf(ex[-1])
  ex = [e for e in ex if math.isfinite(e)]
  style = rng.random()
  if style < 0.06 and ex:      # legacy / invalid positions
    ex = [rng.choice([0.0, -0.0, -1.0, -5e-324, -1e300])] + ex
  elif style < 0.10 and ex:    # duplicates among existing
    k = rng.randrange(len(ex))
    ex = ex[:k] + [ex[k]] * rng.randint(1, 3) + ex[k:]
  elif style < 0.12 and ex:
    ex = ex + [INF] if rng.random() < 0.5 else [-INF] + ex
  ex = sorted(ex)
  m = rng.choice([1, 1, 1, 2, 2, 3, 5, 8, 13, 40, 120])
  req = []
  for _ in range(m):
    c = rng.random()
    if c < 0.55 and ex:
      e = rng.choice(ex)
      req.append(rng.choice([e, e, nf(e), pf(e), nf(e, 2), (e + rng.choice(ex)) / 2]))
    elif c < 0.63:
      req.append(INF)
    elif c < 0.68:
      req.append(-INF)
    elif c < 0.73:
      req.append(rng.choice([0.0, -0.0]))
    elif c < 0.88 and req:
      req.append(rng.choice(req))
    else:
      req.append(rng.choice([1.0, -3.0, 1e308, base * 1.5, 2.5, base / 2, 2.0 ** 51]))
  req = [q for q in req if q == q]
  return ex, (req or [1.0])


def gen_multislot(rng):
  """Several adjacent crowded slots hit in ONE batch (later groups then work on rows that an earlier
  group's relabeling has moved): a far-away first row, a short chain of (nearly) adjacent floats, and
  several requests at each chain element and above the last one."""
  base = rng.choice(BASES + [2.0 ** 53, 9.1e15, 2.0 ** 53, 9.1e15, 2.0 ** 54 + 8])
  k = rng.randint(1, 4)
  chain, x = [], base * 1.001
  for _ in range(k):
    chain.append(x)
    x = nf(x, rng.choice([1, 1, 2]))
  ex = ([base] if rng.random() < 0.7 else []) + chain
  req = []
  for c in chain + [nf(chain[-1], 2)]:
    req += [c] * rng.choice([0, 1, 2, 3, 4, 6])
  rng.shuffle(req)
  return ex, (req or [chain[0]])


def gen_small_exhaustive(rng, tier):
  """All subsets of a 4-chain of adjacent floats x all request tuples (<=2 or 3) over the chain and its
  neighbours, for a few bases."""
  import itertools
  bases = [1.2, 0.1, 2.0 ** 52 - 2] if tier == "quick" else [1.2, 0.1, 1.0, 2.4, 2.0 ** 40, 2.0 ** 52 - 2, 1e-300]
  maxreq = 2 if tier == "quick" else 3
  for base in bases:
    chain = [nf(base, k) for k in range(4)]
    cand = [pf(base)] + chain + [nf(chain[-1]), INF, 0.0]
    for mask in range(1, 16):
      ex = [chain[k] for k in range(4) if mask >> k & 1]
      for m in range(1, maxreq + 1):
        for req in itertools.product(cand, repeat=m):
          if m == 3 and rng.random() > 0.35:
            continue
          yield ex, list(req)


def apply_outcome(existing, req, adj, new):
  final = list(existing)
  for (i, k) in adj:
    final[i] = k
  return sorted(final + list(new))


def gen_history(rng, ob, steps, big=False):
  """Grow a list by repeated prepare_inserts calls aimed at the same spots (as test_relabeling does),
  yielding each (existing, requests) step; the real outcome is applied to get the next state."""
  base = rng.choice(BASES[:12])
  k0 = rng.choice([1, 2, 4, 8])
  ex = [base + j for j in range(k0)] if rng.random() < 0.7 else [nf(base, 3 * j) for j in range(k0)]
  anchors = list(ex)      # keys we keep aiming at (tracked through adjustments)
  for _ in range(steps):
    m = rng.choice([1, 1, 2, 3, 8] + ([60, 200] if big else [20]))
    req = []
    for _ in range(m):
      c = rng.random()
      a = rng.choice(anchors) if anchors and rng.random() < 0.8 else (rng.choice(ex) if ex else 1.0)
      if c < 0.4:
        req.append(a)
      elif c < 0.8:
        req.append(nf(a))
      elif c < 0.9:
        req.append(rng.choice([INF, -INF]))
      else:
        req.append(pf(a))
    yield ex, req
    res = real_prepare(ob, ex, req)
    if "error" in res:
      return
    # track anchors through adjustments
    moved = dict((ex[i], k) for (i, k) in res["adj"])
    anchors = [moved.get(a, a) for a in anchors]
    ex = apply_outcome(ex, req, res["adj"], res["new"])
    if len(ex) > (1500 if big else 400):
      return


def corrupt(rng, existing, req, adj, new):
  """A slightly wrong outcome (for checking that validOutcome and the oracle reject the same things)."""
  adj, new = list(adj), list(new)
  c = rng.random()
  if c < 0.25 and len(new) >= 2:
    i, j = rng.sample(range(len(new)), 2)
    new[i], new[j] = new[j], new[i]
  elif c < 0.45 and new and existing:
    new[rng.randrange(len(new))] = rng.choice(existing)
  elif c < 0.6 and new:
    j = rng.randrange(len(new))
    new[j] = rng.choice([nf(new[j]), pf(new[j]), INF, new[j] * 2, new[j] / 2])
  elif c < 0.75 and adj:
    j = rng.randrange(len(adj))
    adj[j] = (adj[j][0], rng.choice([nf(adj[j][1]), pf(adj[j][1]), adj[j][1] + 1, existing[adj[j][0]]]))
  elif c < 0.85 and adj:
    del adj[rng.randrange(len(adj))]
  elif c < 0.95 and existing:
    i = rng.randrange(len(existing))
    adj = [a for a in adj if a[0] != i] + [(i, rng.choice(new) if new and rng.random() < 0.5 else nf(existing[i], rng.randint(1, 3)))]
  elif new:
    new = new[:-1]
  return adj, new


# ---------------------------------------------------------------------------------------------
# one chunk of work (runs in a worker process in the thorough tier)

def enc_case(existing, req):
  return {"m": "relabel", "op": "prepare", "existing": [bits(x) for x in existing], "keys": [bits(x) for x in req]}


def run_driver(ops):
  from gx import common
  ck = common.Check.__new__(common.Check)
  return common.Check.driver(ck, ops)


def process_chunk(args):
  import random
  from gx import common
  common.setup_repo_path()
  pid_seed, n_static, n_extreme, n_hist, hist_steps, tier, do_small = args
  rng = random.Random(pid_seed)
  out = {"counts": {}, "violations": [], "mismatch": None, "n_mismatch": 0, "nontrivial": [],
         "samples": [], "evaluated": 0, "checker_disagree": None}

  def count(k, d=1):
    out["counts"][k] = out["counts"].get(k, 0) + d

  with Observer() as ob:
    cases = []
    for _ in range(n_static):
      cases.append(("static",) + gen_static(rng))
    for _ in range(n_extreme):
      cases.append(("extreme",) + gen_static(rng, extreme=True))
    for _ in range(n_static // 3):
      cases.append(("multislot",) + gen_multislot(rng))
    if do_small:
      for ex, req in gen_small_exhaustive(rng, tier):
        cases.append(("small", ex, req))
    for h in range(n_hist):
      for ex, req in gen_history(rng, ob, hist_steps, big=(tier != "quick" and h % 4 == 0)):
        cases.append(("history", list(ex), list(req)))
    for ex, req in KNOWN_INPUTS:
      cases.append(("known", ex, req))
    results = [real_prepare(ob, ex, req) for (_, ex, req) in cases]

  ops = [enc_case(ex, req) for (_, ex, req) in cases]
  # the proved-sound checker on the real outcomes and on corrupted ones
  chk = []
  for (kind, ex, req), res in zip(cases, results):
    if "error" in res or not strict_existing(ex):
      continue
    chk.append((ex, req, res["adj"], res["new"], False))
    if rng.random() < 0.3 and oracle(ex, req, res["adj"], res["new"]) is None:
      cadj, cnew = corrupt(rng, ex, req, res["adj"], res["new"])
      chk.append((ex, req, cadj, cnew, True))
  for (ex, req, adj, new, _) in chk:
    ops.append({"m": "relabel", "op": "check", "existing": [bits(x) for x in ex], "keys": [bits(x) for x in req],
                "adj": [[i, bits(k)] for (i, k) in adj], "new": [bits(k) for k in new]})
  model = run_driver(ops)

  for (kind, ex, req), res, mo in zip(cases, results, model[:len(cases)]):
    out["evaluated"] += 1
    count("cases_" + kind)
    count("requests", len(req))
    rp = {"existing": [x.hex() for x in ex], "keys": [x.hex() for x in req]}
    strict = strict_existing(ex)
    if not strict:
      count("existing_not_strict_or_not_finite")
    if "error" in res:
      count("real_raises " + res["error"])
      if all_finite(ex):
        sig, detail = exception_signature(ex, req, res)
        out["violations"].append((sig, detail, rp))
      canon_real = {"error": res["error"]}
      out["nontrivial"].append([rp["existing"], rp["keys"]])
    else:
      if res["relabels"]:
        count("runs_with_relabel")
      if res["renumbers"]:
        count("runs_with_renumber_all")
      if res["relabels"] or res["renumbers"]:
        out["nontrivial"].append([rp["existing"], rp["keys"]])
        if len(out["samples"]) < 2 and len(ex) <= 6 and len(req) <= 6:
          out["samples"].append({"existing": ex, "requested": req, "adjustments": res["adj"], "new": res["new"]})
      else:
        count("runs_plain")
      if any(q in ex for q in req):
        count("request_ties_with_existing")
      bad = oracle(ex, req, res["adj"], res["new"]) if all_finite(ex) else None
      if bad:
        out["violations"].append((bad[0], bad[1], dict(rp, adj=[[i, k.hex()] for (i, k) in res["adj"]],
                                                        new=[k.hex() for k in res["new"]])))
      canon_real = {"adj": [[i, bits(k)] for (i, k) in res["adj"]], "new": [bits(k) for k in res["new"]],
                    "relabels": res["relabels"], "renumbers": res["renumbers"]}
    if mo != canon_real:
      out["n_mismatch"] += 1
      if out["mismatch"] is None:
        out["mismatch"] = {"input": rp, "impl": canon_real, "model": mo}
  for (ex, req, adj, new, corrupted), mo in zip(chk, model[len(cases):]):
    out["evaluated"] += 1
    o = oracle(ex, req, adj, new)
    count("checker_on_corrupted_outcome" if corrupted else "checker_on_real_outcome")
    if corrupted and o:
      count("corrupted_outcomes_rejected")
    if mo.get("valid") != (o is None):
      count("checker_oracle_disagreements")
      if out["checker_disagree"] is None:
        out["checker_disagree"] = {"existing": [x.hex() for x in ex], "keys": [x.hex() for x in req],
                                   "adj": [[i, k.hex()] for (i, k) in adj], "new": [k.hex() for k in new],
                                   "oracle": o, "validOutcome": mo}
  return out


# inputs of the known findings (unchanged tree), replayed in every run
_a = float.fromhex('0x1.3333333333333p+0')
KNOWN_INPUTS = [
  ([_a, nf(_a), nf(_a, 2)], [nf(_a)]),                 # stale post-relabel assert, ONE insert
  ([0.1, nf(0.1)], [nf(0.1)] * 7),
  ([2.0 ** 53], [2.0 ** 53 + 2]),                      # no room after a last position >= 2^53
  ([1e300], [INF]),
  ([5e-324, 1e-323], [1e-323]),                        # subnormal neighbourhood
]


# ---------------------------------------------------------------------------------------------
# primitives and laws

def primitives(ck, ob):
  """get_range / range_around_float / nextfloat / prevfloat / thresholds / _group_insertions vs the model, and
  the get_range laws assumed by prepare_inserts_partial validated on the real get_range."""
  import relabeling as r
  from sortedcontainers import SortedListWithKey
  rng = ck.rng
  ops, expect = [], []
  N = 400 if ck.tier == "quick" else 4000
  vals = []
  for _ in range(N):
    b = rng.choice(BASES + EXTREME_BASES + [0.0])
    vals.append(rng.choice([b, nf(b, rng.randint(0, 50)), b * rng.random() * 4, pf(b) if b > 0 else b]))
  vals = [v for v in vals if v == v and math.isfinite(v) and v >= 0]
  for v in vals:
    i = rng.randrange(64)
    ops.append({"m": "relabel", "op": "range_around", "x": bits(v), "i": i})
    try:
      lo, hi = r.range_around_float(v, i)
      expect.append({"out": [bits(lo), bits(hi)]})
    except OverflowError:
      expect.append({"error": "OverflowError"})
    sv = rng.choice([v, -v])
    ops.append({"m": "relabel", "op": "nextprev", "x": bits(sv)})
    expect.append({"out": [bits(r.nextfloat(sv)), bits(r.prevfloat(sv))]})
    e = rng.choice([nf(v, rng.randint(1, 30)), v + 1, v * 2 + 1, v + rng.random()])
    c = rng.choice([1, 2, 3, 7, 30, 100])
    # law endAfter_ge: begin + count + 1 >= begin ; zero_fin / isInf_convex: isinf only at the two ends
    if not (v + c + 1 >= v) or math.isinf(0.0) or not (math.isinf(INF) and math.isinf(-INF)):
      ck.broken("assumed law begin + count + 1 >= begin fails on floats", "begin=%r count=%d" % (v, c), {"begin": v.hex(), "count": c})
    if math.isfinite(e) and v < e:
      ops.append({"m": "relabel", "op": "get_range", "s": bits(v), "e": bits(e), "count": c})
      g = r.get_range(v, e, c)
      expect.append({"out": [bits(k) for k in g]})
      # laws G1-G3 (assumptions of prepare_inserts_partial), on the real function
      ck.evaluated()
      ck.count("get_range_law_checks")
      if not (len(g) == c and all(g[j] <= g[j + 1] for j in range(c - 1)) and all(v <= k < e for k in g)):
        ck.broken("assumed get_range law (length / monotone / start <= k < end) fails on the real get_range",
                  "start=%r end=%r count=%d -> %r" % (v, e, c, g[:5]), {"start": v.hex(), "end": e.hex(), "count": c})
  for f in (0, 1):
    for i in range(64):
      for c in set([1, 2, 3, 5, 8, 100, 3846, 3847, 10 ** 6] + [int(([1.14, 1.3][f]) ** i) + d for d in (0, 1)]):
        ops.append({"m": "relabel", "op": "sparse", "frac": f, "i": i, "count": c})
        t = 1
        for _ in range(i):
          t *= (1.14, 1.3)[f]
        expect.append({"out": c < t})
  for _ in range(N // 2):
    ex, req = gen_static(rng)
    sl = SortedListWithKey(range(len(ex)), key=lambda i: ex[i])
    groups, ungroup = r._group_insertions(sl, req)
    perm = ungroup(list(range(len(req))))     # rank of each request in sorted order
    idx = [0] * len(req)
    for j, p in enumerate(perm):
      idx[p] = j
    ops.append({"m": "relabel", "op": "group", "existing": [bits(x) for x in ex], "keys": [bits(x) for x in req]})
    expect.append({"groups": [list(g) for g in groups], "indices": idx})
    # independent meaning of the groups: request q is counted at #(existing < q)
    want = {}
    for q in req:
      s = sum(1 for x in ex if x < q)
      want[s] = want.get(s, 0) + 1
    if sorted(want.items()) != [tuple(g) for g in groups]:
      ck.violation("_group_insertions does not count a request at bisect_left", "%r %r -> %r" % (ex, req, groups),
                   {"existing": [x.hex() for x in ex], "keys": [x.hex() for x in req]})
  got = ck.driver(ops)
  bad = [(o, e, g) for o, e, g in zip(ops, expect, got) if e != g]
  ck.evaluated(len(ops))
  ck.count("primitive_comparisons", len(ops))
  if bad:
    ck.count("primitive_disagreements", len(bad))
    return {"op": bad[0][0], "impl": bad[0][1], "model": bad[0][2]}
  return None


# ---------------------------------------------------------------------------------------------

def chunks_for(ck):
  s = ck.seed
  if ck.tier == "quick":
    return [("C20/%s/0" % s, 1400, 300, 14, 40, "quick", True)]
  return [("C20/%s/%d" % (s, w), 14000, 3000, 80, 100, "thorough", w == 0) for w in range(16)]


def run(ck):
  ck.rule = NONTRIVIAL_RULE
  ck.assumptions = [
    "existing keys are handed over sorted ascending (SortedListWithKey) and nothing is NaN",
    "full clauses demanded when existing positions are finite and pairwise distinct; weaker clause set otherwise (see module docstring)",
    "theorems are about lawful linear orders; Float's < on non-NaN values is assumed to be one (the driver runs the same generic code at Float)",
    "prepare_inserts_partial assumes the get_range laws: length = count, weakly increasing, start <= k < end (validated on the real get_range each run)",
    "totality of prepare_inserts is NOT proved; exceptions are searched for and reported",
  ]
  ck.lean(["GristProps.C20"])
  chunks = chunks_for(ck)
  if len(chunks) == 1:
    outs = [process_chunk(chunks[0])]
  else:
    import multiprocessing
    with multiprocessing.get_context("fork").Pool(min(len(chunks), os.cpu_count() or 2)) as pool:
      outs = pool.map(process_chunk, chunks)
  mism, chk_dis = None, None
  for out in outs:
    ck.evaluated(out["evaluated"])
    for k, v in out["counts"].items():
      ck.count(k, v)
    for nt in out["nontrivial"]:
      ck.nontrivial_case(nt)
    for sm in out["samples"]:
      ck.sample(sm)
    for (sig, detail, rp) in out["violations"]:
      ck.violation(sig, detail, rp)
    if out["n_mismatch"]:
      ck.count("model_impl_disagreements", out["n_mismatch"])
      mism = mism or out["mismatch"]
    chk_dis = chk_dis or out["checker_disagree"]
  with Observer() as ob:
    prim = primitives(ck, ob)
  if not ck.has_impl_violation():
    if mism:
      ck.broken("correspondence relabeling.prepare_inserts vs Grist.Relabel.prepareInserts (bit-for-bit)",
                "model and implementation differ and the property's clauses hold on all explored inputs", mism)
    if prim:
      ck.broken("correspondence of a relabeling.py primitive with its Lean transcription",
                "primitive differs", prim)
    if chk_dis:
      ck.broken("validOutcome (Lean, proved sound) and the Python oracle disagree on an outcome",
                "checker/oracle disagreement", chk_dis)
  engine_level(ck)


def engine_level(ck):
  """Histories through the engine: every position column holds distinct values (added by the framework)."""
  try:
    from gx import engine_driver
  except ImportError:
    return
  if hasattr(engine_driver, "c20_positions"):
    engine_driver.c20_positions(ck)


def replay(ck, rp):
  r = rp["replay"]
  if "input" in r:
    r = r["input"]
  ex = [float.fromhex(x) for x in r["existing"]]
  req = [float.fromhex(x) for x in r["keys"]]
  with Observer() as ob:
    res = real_prepare(ob, ex, req)
  ck.evaluated()
  if "error" in res:
    sig, detail = exception_signature(ex, req, res)
    print("replay: existing=%r requested=%r -> raises %s  [%s]" % (ex, req, res["error"], sig))
    ck.violation(sig, detail, r)
  else:
    bad = oracle(ex, req, res["adj"], res["new"])
    print("replay: existing=%r requested=%r -> adjustments=%r new=%r -> %s" % (
      ex, req, res["adj"], res["new"], bad or "property holds"))
    if bad:
      ck.violation(bad[0], bad[1], r)
  ck.nontrivial_case([r["existing"], r["keys"]]); ck.nontrivial_case("replay")
  ck.lean(["GristProps.C20"])
  # correspondence on this input (bit-for-bit)
  mo = ck.driver([enc_case(ex, req)])[0]
  if "error" in res:
    canon_real = {"error": res["error"]}
  else:
    canon_real = {"adj": [[i, bits(k)] for (i, k) in res["adj"]], "new": [bits(k) for k in res["new"]],
                  "relabels": res["relabels"], "renumbers": res["renumbers"]}
  print("replay: model %s implementation" % ("==" if mo == canon_real else "!="))
  if mo != canon_real and not ck.has_impl_violation():
    ck.broken("correspondence relabeling.prepare_inserts vs Grist.Relabel.prepareInserts (bit-for-bit)",
              "model and implementation differ on the replayed input", {"input": r, "impl": canon_real, "model": mo})
