"""
C20  Row positions stay unique and order-preserving.

Theorems: lean/GristProps/C20.lean about GristModel/Relabel.lean (one transcription of
relabeling.py, generic over the key type; the theorems are about any lawful linear order):
  bisect_left_spec, group_insertions_spec, ungroup_slot, ungroup_order, apply_adjustments_order,
  checker_sound / checker_complete (validOutcome <=> the clauses), prepare_inserts_partial (a normal return on
  which no relabel/renumber step ran satisfies the four clauses, under the listed get_range laws).
Tie: the SAME Lean code instantiated at Float (Grist.Relabel.Flt.floatOps) is run by the driver and
  compared BIT-FOR-BIT (IEEE bit patterns) with relabeling.prepare_inserts: adjustments, new keys,
  which exception (which assert) fires, and how many _adjust_range/_adjust_all steps ran; plus the
  primitives get_range / range_around_float / nextfloat / prevfloat / thresholds / _group_insertions.
  The proved-sound checker validOutcome is evaluated (in Lean) on every REAL outcome and on corrupted
  outcomes and must agree with the oracle below.
Search (direct oracle, independent of the model): see `oracle`.

INTERPRETATION (decisions):
 * Contract of prepare_inserts: `sortedlist` is a SortedListWithKey, so existing keys arrive sorted
   ascending; keys are floats, no NaN anywhere (NaN has no position; PositionNumber.do_convert gives
   +inf for None/"" and column.py passes floats).  Requested keys may be ANY non-NaN float incl.
   +-inf, 0, negatives, duplicates, ties with existing keys.
 * Existing DUPLICATES are not promised by the docstring ("takes a SortedListWithKey and a list of
   keys"), but test_relabeling.test_with_dups/test_with_invalid call it with duplicates, zeros,
   negatives and +inf and expect sane results ("invalid positions from before this logic", comment
   in prep_inserts_at_index).  Decision:
     - existing finite and pairwise distinct (the state the property itself maintains; what
       PositionColumn._sorted_rows holds): ALL clauses, and no exception may escape;
     - existing finite with duplicates / zero / negative values: generated with low weight; all
       clauses except that two UNTOUCHED existing rows which were equal may stay equal;
     - existing containing +-inf: out of contract for the oracle (PositionColumn.set never puts the
       +inf default into _sorted_rows, prepare_new_values only ever writes finite values); still
       generated and covered by the bit-for-bit differential.  [Observed there: with an existing
       -inf row a requested -inf is placed AFTER it, because the placeholder -inf ties with it.]
 * "place each new row where its requested position falls (before existing rows with an equal
   position)": new row with request q ends up after every existing row whose OLD key is < q and
   before every existing row whose OLD key is >= q.  "new rows keeping the order of their requested
   positions": request a before request b whenever (q_a, a) < (q_b, b), i.e. ties by request index.
 * An exception escaping prepare_inserts on in-contract input means no positions are computed at all,
   so "give all rows finite distinct positions" fails: it is reported as a violation with a
   signature naming the assert and the class of input.  (The Lean theorem deliberately does not
   claim totality; the three classes found on the unchanged tree are in known_findings.json.)
 * The engine-level clause ("manualSort ... distinct after any history") is in engine_moves(): rows are ADDED and
   REPOSITIONED (UpdateRecord / BulkUpdateRecord of manualSort, of a user PositionNumber column and of
   _grist_Views_section_field.parentPos on EXISTING rows) through user actions in neighbourhoods crowded enough that
   relabeling adjusts other existing rows; clauses E1-E5 (see "ENGINE LEVEL" below) are evaluated by the direct oracle
   judge_positions on the engine's tables after every action.  The Lean side covers prepare_inserts only: the engine tie
   compares the table with Lean prepareInserts at Float + an index-to-row glue written in Python (not proved, not Lean).
   Finding on the unchanged tree (known_findings.json, TRIM_SIGNATURE): a moved row whose computed position equals its old
   position is trimmed from the update while its own relabeling adjustment is applied, so it is not moved.
"""
import math
import os
import struct
import sys
import traceback

NONTRIVIAL_RULE = ("non-trivial = the real run relabelled a crowded neighbourhood (_adjust_range), renumbered everything "
                   "(_adjust_all) or raised; distinct by (existing bits, requested bits); engine level: an add / reposition "
                   "through a user action on which relabeling ran or rows other than the subjects changed position; distinct "
                   "by (table, column, action kind, position bits before, request bits, subjects' old position bits)")


def bits(x):
  if x != x:
    return "nan"      # NaN payloads are not compared (only prevfloat(0.0) produces one; unreachable from prepare_inserts)
  return struct.unpack('<Q', struct.pack('<d', float(x)))[0]


def unbits(n):
  return struct.unpack('<d', struct.pack('<Q', n))[0]


def nf(x, n=1):
  """next representable float (own implementation, not relabeling.nextfloat)"""
  for _ in range(n):
    x = math.nextafter(x, math.inf)
  return x


def pf(x, n=1):
  for _ in range(n):
    x = math.nextafter(x, -math.inf)
  return x


# ---------------------------------------------------------------------------------------------
# running the real code (observation only: pass-through wrappers count relabel steps and keep a
# snapshot of the worklist when an exception escapes)

ASSERT_TAGS = [
  ("assert count > 0", "AssertionError:count"),
  ("assert self.count_range(begin, end) > 0", "AssertionError:count_range"),
  ("assert self.count_range(rbegin, rend) > 0", "AssertionError:sparse"),
  ("assert is_valid_range(begin, self._insertions.irange(begin, end), end)", "AssertionError:valid"),
]


class Observer(object):
  def __init__(self):
    import relabeling
    self.r = relabeling
    self.cls = relabeling.ListWithAdjustments
    self.saved = {}
    self.reset()

  def reset(self):
    self.relabels = 0
    self.renumbers = 0
    self.snap = None
    self.sparse_args = None

  def __enter__(self):
    cls, ob = self.cls, self
    for name in ("_adjust_range", "_adjust_all", "prep_inserts_at_index", "_find_sparse_enough_range"):
      self.saved[name] = cls.__dict__[name]
    o_range, o_all = self.saved["_adjust_range"], self.saved["_adjust_all"]
    o_prep, o_sparse = self.saved["prep_inserts_at_index"], self.saved["_find_sparse_enough_range"]

    def _adjust_range(self, begin, end):
      ob.relabels += 1
      return o_range(self, begin, end)

    def _adjust_all(self):
      ob.renumbers += 1
      return o_all(self)

    def prep_inserts_at_index(self, index, count):
      try:
        return o_prep(self, index, count)
      except Exception:
        ob.snap = {"index": index, "count": count,
                   "adj": [tuple(a) for a in self._adjustments],
                   "ins": list(self._insertions)}
        raise

    def _find_sparse_enough_range(self, begin, end):
      ob.sparse_args = (begin, end)
      return o_sparse(self, begin, end)

    cls._adjust_range = _adjust_range
    cls._adjust_all = _adjust_all
    cls.prep_inserts_at_index = prep_inserts_at_index
    cls._find_sparse_enough_range = _find_sparse_enough_range
    return self

  def __exit__(self, *a):
    for name, f in self.saved.items():
      setattr(self.cls, name, f)


def classify_exception(e):
  tbs = traceback.extract_tb(e.__traceback__)
  name = type(e).__name__
  if isinstance(e, AssertionError):
    line = (tbs[-1].line or "").strip()
    for text, tag in ASSERT_TAGS:
      if line == text:
        return tag
    return "AssertionError:? " + line[:60]
  if isinstance(e, ValueError):
    if "This isn't expected" in str(e):
      return "ValueError:not_expected"
    if "not in list" in str(e):
      return "ValueError:remove"
    return "ValueError:? " + str(e)[:60]
  return name


def real_prepare(ob, existing, keys):
  """-> dict(adj=[(i,key)], new=[...], relabels, renumbers) or dict(error=tag, snap=..., sparse_args=...)"""
  from sortedcontainers import SortedListWithKey
  ob.reset()
  sl = SortedListWithKey(range(len(existing)), key=lambda i: existing[i])
  assert list(sl) == list(range(len(existing))), "generator must hand over sorted existing keys"
  try:
    adj, new = ob.r.prepare_inserts(sl, list(keys))
  except Exception as e:    # pylint: disable=broad-except
    return {"error": classify_exception(e), "snap": ob.snap, "sparse_args": ob.sparse_args,
            "relabels": ob.relabels, "renumbers": ob.renumbers}
  return {"adj": [(int(i), k) for (i, k) in adj], "new": list(new),
          "relabels": ob.relabels, "renumbers": ob.renumbers}


# ---------------------------------------------------------------------------------------------
# the oracle: the property's clauses on the real outputs (naive O(n*m), no bisect, no grouping)

def all_finite(existing):
  return all(math.isfinite(x) for x in existing)


def strict_existing(existing):
  return all(math.isfinite(x) for x in existing) and \
    all(existing[i] < existing[i + 1] for i in range(len(existing) - 1))


def oracle(existing, req, adj, new):
  """None if the clauses hold, else (signature, detail)."""
  n = len(existing)
  if len(new) != len(req):
    return ("number of new positions differs from number of requests", "%d vs %d" % (len(new), len(req)))
  final = list(existing)
  seen = set()
  for (i, k) in adj:
    if not (isinstance(i, int) and 0 <= i < n):
      return ("adjustment names a row index that does not exist", "index %r" % (i,))
    if i in seen:
      return ("same existing row adjusted twice", "index %r" % (i,))
    seen.add(i)
    final[i] = k
  for k in list(new) + [k for (_, k) in adj]:
    if not (isinstance(k, float) and math.isfinite(k)):
      return ("computed position is not a finite float", "%r" % (k,))
  # existing rows keep their order
  for i in range(n - 1):
    if existing[i] < existing[i + 1] or i in seen or (i + 1) in seen:
      if not final[i] < final[i + 1]:
        return ("existing rows reordered or collide after adjustments",
                "rows %d,%d: %r,%r -> %r,%r" % (i, i + 1, existing[i], existing[i + 1], final[i], final[i + 1]))
    elif not final[i] <= final[i + 1]:
      return ("existing rows reordered or collide after adjustments", "rows %d,%d" % (i, i + 1))
  # distinctness of new rows among themselves and against existing rows
  pos = {}
  for j, k in enumerate(new):
    if k in pos:
      return ("two new rows get the same position", "requests %d and %d -> %r" % (pos[k], j, k))
    pos[k] = j
  for i, k in enumerate(final):
    if k in pos:
      return ("new row gets the position of an existing row", "request %d, row %d -> %r" % (pos[k], i, k))
  # placement relative to existing rows (before existing rows with an equal position)
  for j, q in enumerate(req):
    for i in range(n):
      if existing[i] < q:
        if not final[i] < new[j]:
          return ("new row placed before an existing row with a smaller position",
                  "request %d (%r) vs row %d (%r): %r !> %r" % (j, q, i, existing[i], new[j], final[i]))
      else:
        if not new[j] < final[i]:
          return ("new row placed after an existing row with an equal or larger position",
                  "request %d (%r) vs row %d (%r): %r !< %r" % (j, q, i, existing[i], new[j], final[i]))
  # new rows among themselves: requested order, ties by request index
  order = sorted(range(len(req)), key=lambda j: (req[j], j))
  for a, b in zip(order, order[1:]):
    if not new[a] < new[b]:
      return ("new rows do not keep the order of their requested positions",
              "requests %d (%r) and %d (%r) -> %r, %r" % (a, req[a], b, req[b], new[a], new[b]))
  return None


def exception_signature(existing, req, res):
  """An exception escaped prepare_inserts.  Name the class of input precisely."""
  tag = res["error"]
  snap = res.get("snap") or {}
  n = len(existing)

  def cur_key(i):
    for (j, k) in snap.get("adj", []):
      if j == i:
        return k
    return existing[i]

  if tag == "AssertionError:valid" and snap:
    # Is the worklist at the moment of the failed assert a valid outcome for the groups processed so far?
    idx = snap["index"]
    part = [j for j in sorted(range(len(req)), key=lambda j: (req[j], j))
            if sum(1 for x in existing if x < req[j]) <= idx]
    ins = snap["ins"]
    if len(ins) == len(part):
      new = dict(zip(part, ins))
      sub_req = [req[j] for j in sorted(part)]
      sub_new = [new[j] for j in sorted(part)]
      if oracle(existing, sub_req, snap["adj"], sub_new) is None:
        return ("AssertionError: stale post-relabel assert (worklist valid; a relabelled key coincides with the pre-relabel neighbour)",
                "relabeling.py prep_inserts_at_index re-checks is_valid_range with the begin/end taken BEFORE _adjust_range")
    return ("AssertionError: post-relabel assert fails and the worklist is not a valid outcome", str(snap)[:300])
  if tag == "AssertionError:count_range" and snap:
    idx, count = snap["index"], snap["count"]
    if idx == n and n > 0:
      b = cur_key(n - 1)
      if b >= 2.0 ** 53 and (b + count + 1) == b:
        return ("AssertionError: append after a last position >= 2^53 (begin + count + 1 == begin)",
                "last=%r count=%d" % (b, count))
  if tag == "AssertionError:sparse" and res.get("sparse_args"):
    b = res["sparse_args"][0]
    if 0.0 < b < sys.float_info.min:
      return ("AssertionError: crowded neighbourhood of a subnormal position (range_around_float is empty there)",
              "begin=%r" % (b,))
  return ("prepare_inserts raises %s" % tag, "snap=%s" % (str(snap)[:300],))


# ---------------------------------------------------------------------------------------------
# generators

BASES = [1.0, 0.5, 3.0, 0.1, 1.2, 2.4, 17.0, 123456.789, 1e-300, 2.0 ** -1000, 2.0 ** 40, 1e12,
         2.0 ** 49 - 4, 2.0 ** 50, 2.0 ** 52 - 8, 2.0 ** 52, 1e15]
EXTREME_BASES = [5e-324, 1e-322, sys.float_info.min, 2.0 ** 53 - 4, 2.0 ** 53, 1e16, 2.0 ** 60, 1e300, 1.7e308]
INF = float('inf')


def gen_static(rng, extreme=False):
  n = rng.choice([0, 1, 2, 2, 3, 3, 4, 5, 8, 20, 60])
  base = rng.choice(EXTREME_BASES if extreme else BASES)
  ex, x = [], base
  dense = rng.random()
  for _ in range(n):
    ex.append(x)
    m = rng.random()
    if m < dense:
      x = nf(x)
    elif m < dense + 0.15:
      x = nf(x, rng.randint(2, 40))
    elif m < dense + 0.25:
      x = x * 2
    else:
      x = x + rng.choice([1.0, 0.25, 1e-3 * base])
    if x <= ex[-1]:
      x = nf(ex[-1])
  ex = [e for e in ex if math.isfinite(e)]
  style = rng.random()
  if style < 0.06 and ex:      # legacy / invalid positions
    ex = [rng.choice([0.0, -0.0, -1.0, -5e-324, -1e300])] + ex
  elif style < 0.10 and ex:    # duplicates among existing
    k = rng.randrange(len(ex))
    ex = ex[:k] + [ex[k]] * rng.randint(1, 3) + ex[k:]
  elif style < 0.12 and ex:
    ex = ex + [INF] if rng.random() < 0.5 else [-INF] + ex
  ex = sorted(ex)
  m = rng.choice([1, 1, 1, 2, 2, 3, 5, 8, 13, 40, 120])
  req = []
  for _ in range(m):
    c = rng.random()
    if c < 0.55 and ex:
      e = rng.choice(ex)
      req.append(rng.choice([e, e, nf(e), pf(e), nf(e, 2), (e + rng.choice(ex)) / 2]))
    elif c < 0.63:
      req.append(INF)
    elif c < 0.68:
      req.append(-INF)
    elif c < 0.73:
      req.append(rng.choice([0.0, -0.0]))
    elif c < 0.88 and req:
      req.append(rng.choice(req))
    else:
      req.append(rng.choice([1.0, -3.0, 1e308, base * 1.5, 2.5, base / 2, 2.0 ** 51]))
  req = [q for q in req if q == q]
  return ex, (req or [1.0])


def gen_multislot(rng):
  """Several adjacent crowded slots hit in ONE batch (later groups then work on rows that an earlier
  group's relabeling has moved): a far-away first row, a short chain of (nearly) adjacent floats, and
  several requests at each chain element and above the last one."""
  base = rng.choice(BASES + [2.0 ** 53, 9.1e15, 2.0 ** 53, 9.1e15, 2.0 ** 54 + 8])
  k = rng.randint(1, 4)
  chain, x = [], base * 1.001
  for _ in range(k):
    chain.append(x)
    x = nf(x, rng.choice([1, 1, 2]))
  ex = ([base] if rng.random() < 0.7 else []) + chain
  req = []
  for c in chain + [nf(chain[-1], 2)]:
    req += [c] * rng.choice([0, 1, 2, 3, 4, 6])
  rng.shuffle(req)
  return ex, (req or [chain[0]])


def gen_small_exhaustive(rng, tier):
  """All subsets of a 4-chain of adjacent floats x all request tuples (<=2 or 3) over the chain and its
  neighbours, for a few bases."""
  import itertools
  bases = [1.2, 0.1, 2.0 ** 52 - 2] if tier == "quick" else [1.2, 0.1, 1.0, 2.4, 2.0 ** 40, 2.0 ** 52 - 2, 1e-300]
  maxreq = 2 if tier == "quick" else 3
  for base in bases:
    chain = [nf(base, k) for k in range(4)]
    cand = [pf(base)] + chain + [nf(chain[-1]), INF, 0.0]
    for mask in range(1, 16):
      ex = [chain[k] for k in range(4) if mask >> k & 1]
      for m in range(1, maxreq + 1):
        for req in itertools.product(cand, repeat=m):
          if m == 3 and rng.random() > 0.35:
            continue
          yield ex, list(req)


def apply_outcome(existing, req, adj, new):
  final = list(existing)
  for (i, k) in adj:
    final[i] = k
  return sorted(final + list(new))


def gen_history(rng, ob, steps, big=False):
  """Grow a list by repeated prepare_inserts calls aimed at the same spots (as test_relabeling does),
  yielding each (existing, requests) step; the real outcome is applied to get the next state."""
  base = rng.choice(BASES[:12])
  k0 = rng.choice([1, 2, 4, 8])
  ex = [base + j for j in range(k0)] if rng.random() < 0.7 else [nf(base, 3 * j) for j in range(k0)]
  anchors = list(ex)      # keys we keep aiming at (tracked through adjustments)
  for _ in range(steps):
    m = rng.choice([1, 1, 2, 3, 8] + ([60, 200] if big else [20]))
    req = []
    for _ in range(m):
      c = rng.random()
      a = rng.choice(anchors) if anchors and rng.random() < 0.8 else (rng.choice(ex) if ex else 1.0)
      if c < 0.4:
        req.append(a)
      elif c < 0.8:
        req.append(nf(a))
      elif c < 0.9:
        req.append(rng.choice([INF, -INF]))
      else:
        req.append(pf(a))
    yield ex, req
    res = real_prepare(ob, ex, req)
    if "error" in res:
      return
    # track anchors through adjustments
    moved = dict((ex[i], k) for (i, k) in res["adj"])
    anchors = [moved.get(a, a) for a in anchors]
    ex = apply_outcome(ex, req, res["adj"], res["new"])
    if len(ex) > (1500 if big else 400):
      return


def corrupt(rng, existing, req, adj, new):
  """A slightly wrong outcome (for checking that validOutcome and the oracle reject the same things)."""
  adj, new = list(adj), list(new)
  c = rng.random()
  if c < 0.25 and len(new) >= 2:
    i, j = rng.sample(range(len(new)), 2)
    new[i], new[j] = new[j], new[i]
  elif c < 0.45 and new and existing:
    new[rng.randrange(len(new))] = rng.choice(existing)
  elif c < 0.6 and new:
    j = rng.randrange(len(new))
    new[j] = rng.choice([nf(new[j]), pf(new[j]), INF, new[j] * 2, new[j] / 2])
  elif c < 0.75 and adj:
    j = rng.randrange(len(adj))
    adj[j] = (adj[j][0], rng.choice([nf(adj[j][1]), pf(adj[j][1]), adj[j][1] + 1, existing[adj[j][0]]]))
  elif c < 0.85 and adj:
    del adj[rng.randrange(len(adj))]
  elif c < 0.95 and existing:
    i = rng.randrange(len(existing))
    adj = [a for a in adj if a[0] != i] + [(i, rng.choice(new) if new and rng.random() < 0.5 else nf(existing[i], rng.randint(1, 3)))]
  elif new:
    new = new[:-1]
  return adj, new


# ---------------------------------------------------------------------------------------------
# one chunk of work (runs in a worker process in the thorough tier)

def enc_case(existing, req):
  return {"m": "relabel", "op": "prepare", "existing": [bits(x) for x in existing], "keys": [bits(x) for x in req]}


def run_driver(ops):
  from gx import common
  ck = common.Check.__new__(common.Check)
  return common.Check.driver(ck, ops)


def process_chunk(args):
  import random
  from gx import common
  common.setup_repo_path()
  pid_seed, n_static, n_extreme, n_hist, hist_steps, tier, do_small = args
  rng = random.Random(pid_seed)
  out = {"counts": {}, "violations": [], "mismatch": None, "n_mismatch": 0, "nontrivial": [],
         "samples": [], "evaluated": 0, "checker_disagree": None}

  def count(k, d=1):
    out["counts"][k] = out["counts"].get(k, 0) + d

  with Observer() as ob:
    cases = []
    for _ in range(n_static):
      cases.append(("static",) + gen_static(rng))
    for _ in range(n_extreme):
      cases.append(("extreme",) + gen_static(rng, extreme=True))
    for _ in range(n_static // 3):
      cases.append(("multislot",) + gen_multislot(rng))
    if do_small:
      for ex, req in gen_small_exhaustive(rng, tier):
        cases.append(("small", ex, req))
    for h in range(n_hist):
      for ex, req in gen_history(rng, ob, hist_steps, big=(tier != "quick" and h % 4 == 0)):
        cases.append(("history", list(ex), list(req)))
    for ex, req in KNOWN_INPUTS:
      cases.append(("known", ex, req))
    results = [real_prepare(ob, ex, req) for (_, ex, req) in cases]

  ops = [enc_case(ex, req) for (_, ex, req) in cases]
  # the proved-sound checker on the real outcomes and on corrupted ones
  chk = []
  for (kind, ex, req), res in zip(cases, results):
    if "error" in res or not strict_existing(ex):
      continue
    chk.append((ex, req, res["adj"], res["new"], False))
    if rng.random() < 0.3 and oracle(ex, req, res["adj"], res["new"]) is None:
      cadj, cnew = corrupt(rng, ex, req, res["adj"], res["new"])
      chk.append((ex, req, cadj, cnew, True))
  for (ex, req, adj, new, _) in chk:
    ops.append({"m": "relabel", "op": "check", "existing": [bits(x) for x in ex], "keys": [bits(x) for x in req],
                "adj": [[i, bits(k)] for (i, k) in adj], "new": [bits(k) for k in new]})
  model = run_driver(ops)

  for (kind, ex, req), res, mo in zip(cases, results, model[:len(cases)]):
    out["evaluated"] += 1
    count("cases_" + kind)
    count("requests", len(req))
    rp = {"existing": [x.hex() for x in ex], "keys": [x.hex() for x in req]}
    strict = strict_existing(ex)
    if not strict:
      count("existing_not_strict_or_not_finite")
    if "error" in res:
      count("real_raises " + res["error"])
      if all_finite(ex):
        sig, detail = exception_signature(ex, req, res)
        out["violations"].append((sig, detail, rp))
      canon_real = {"error": res["error"]}
      out["nontrivial"].append([rp["existing"], rp["keys"]])
    else:
      if res["relabels"]:
        count("runs_with_relabel")
      if res["renumbers"]:
        count("runs_with_renumber_all")
      if res["relabels"] or res["renumbers"]:
        out["nontrivial"].append([rp["existing"], rp["keys"]])
        if len(out["samples"]) < 2 and len(ex) <= 6 and len(req) <= 6:
          out["samples"].append({"existing": ex, "requested": req, "adjustments": res["adj"], "new": res["new"]})
      else:
        count("runs_plain")
      if any(q in ex for q in req):
        count("request_ties_with_existing")
      bad = oracle(ex, req, res["adj"], res["new"]) if all_finite(ex) else None
      if bad:
        out["violations"].append((bad[0], bad[1], dict(rp, adj=[[i, k.hex()] for (i, k) in res["adj"]],
                                                        new=[k.hex() for k in res["new"]])))
      canon_real = {"adj": [[i, bits(k)] for (i, k) in res["adj"]], "new": [bits(k) for k in res["new"]],
                    "relabels": res["relabels"], "renumbers": res["renumbers"]}
    if mo != canon_real:
      out["n_mismatch"] += 1
      if out["mismatch"] is None:
        out["mismatch"] = {"input": rp, "impl": canon_real, "model": mo}
  for (ex, req, adj, new, corrupted), mo in zip(chk, model[len(cases):]):
    out["evaluated"] += 1
    o = oracle(ex, req, adj, new)
    count("checker_on_corrupted_outcome" if corrupted else "checker_on_real_outcome")
    if corrupted and o:
      count("corrupted_outcomes_rejected")
    if mo.get("valid") != (o is None):
      count("checker_oracle_disagreements")
      if out["checker_disagree"] is None:
        out["checker_disagree"] = {"existing": [x.hex() for x in ex], "keys": [x.hex() for x in req],
                                   "adj": [[i, k.hex()] for (i, k) in adj], "new": [k.hex() for k in new],
                                   "oracle": o, "validOutcome": mo}
  return out


# inputs of the known findings (unchanged tree), replayed in every run
_a = float.fromhex('0x1.3333333333333p+0')
KNOWN_INPUTS = [
  ([_a, nf(_a), nf(_a, 2)], [nf(_a)]),                 # stale post-relabel assert, ONE insert
  ([0.1, nf(0.1)], [nf(0.1)] * 7),
  ([2.0 ** 53], [2.0 ** 53 + 2]),                      # no room after a last position >= 2^53
  ([1e300], [INF]),
  ([5e-324, 1e-323], [1e-323]),                        # subnormal neighbourhood
]


# ---------------------------------------------------------------------------------------------
# primitives and laws

def primitives(ck, ob):
  """get_range / range_around_float / nextfloat / prevfloat / thresholds / _group_insertions vs the model, and
  the get_range laws assumed by prepare_inserts_partial validated on the real get_range."""
  import relabeling as r
  from sortedcontainers import SortedListWithKey
  rng = ck.rng
  ops, expect = [], []
  N = 400 if ck.tier == "quick" else 4000
  vals = []
  for _ in range(N):
    b = rng.choice(BASES + EXTREME_BASES + [0.0])
    vals.append(rng.choice([b, nf(b, rng.randint(0, 50)), b * rng.random() * 4, pf(b) if b > 0 else b]))
  vals = [v for v in vals if v == v and math.isfinite(v) and v >= 0]
  for v in vals:
    i = rng.randrange(64)
    ops.append({"m": "relabel", "op": "range_around", "x": bits(v), "i": i})
    try:
      lo, hi = r.range_around_float(v, i)
      expect.append({"out": [bits(lo), bits(hi)]})
    except OverflowError:
      expect.append({"error": "OverflowError"})
    sv = rng.choice([v, -v])
    ops.append({"m": "relabel", "op": "nextprev", "x": bits(sv)})
    expect.append({"out": [bits(r.nextfloat(sv)), bits(r.prevfloat(sv))]})
    e = rng.choice([nf(v, rng.randint(1, 30)), v + 1, v * 2 + 1, v + rng.random()])
    c = rng.choice([1, 2, 3, 7, 30, 100])
    # law endAfter_ge: begin + count + 1 >= begin ; zero_fin / isInf_convex: isinf only at the two ends
    if not (v + c + 1 >= v) or math.isinf(0.0) or not (math.isinf(INF) and math.isinf(-INF)):
      ck.broken("assumed law begin + count + 1 >= begin fails on floats", "begin=%r count=%d" % (v, c), {"begin": v.hex(), "count": c})
    if math.isfinite(e) and v < e:
      ops.append({"m": "relabel", "op": "get_range", "s": bits(v), "e": bits(e), "count": c})
      g = r.get_range(v, e, c)
      expect.append({"out": [bits(k) for k in g]})
      # laws G1-G3 (assumptions of prepare_inserts_partial), on the real function
      ck.evaluated()
      ck.count("get_range_law_checks")
      if not (len(g) == c and all(g[j] <= g[j + 1] for j in range(c - 1)) and all(v <= k < e for k in g)):
        ck.broken("assumed get_range law (length / monotone / start <= k < end) fails on the real get_range",
                  "start=%r end=%r count=%d -> %r" % (v, e, c, g[:5]), {"start": v.hex(), "end": e.hex(), "count": c})
  for f in (0, 1):
    for i in range(64):
      for c in set([1, 2, 3, 5, 8, 100, 3846, 3847, 10 ** 6] + [int(([1.14, 1.3][f]) ** i) + d for d in (0, 1)]):
        ops.append({"m": "relabel", "op": "sparse", "frac": f, "i": i, "count": c})
        t = 1
        for _ in range(i):
          t *= (1.14, 1.3)[f]
        expect.append({"out": c < t})
  for _ in range(N // 2):
    ex, req = gen_static(rng)
    sl = SortedListWithKey(range(len(ex)), key=lambda i: ex[i])
    groups, ungroup = r._group_insertions(sl, req)
    perm = ungroup(list(range(len(req))))     # rank of each request in sorted order
    idx = [0] * len(req)
    for j, p in enumerate(perm):
      idx[p] = j
    ops.append({"m": "relabel", "op": "group", "existing": [bits(x) for x in ex], "keys": [bits(x) for x in req]})
    expect.append({"groups": [list(g) for g in groups], "indices": idx})
    # independent meaning of the groups: request q is counted at #(existing < q)
    want = {}
    for q in req:
      s = sum(1 for x in ex if x < q)
      want[s] = want.get(s, 0) + 1
    if sorted(want.items()) != [tuple(g) for g in groups]:
      ck.violation("_group_insertions does not count a request at bisect_left", "%r %r -> %r" % (ex, req, groups),
                   {"existing": [x.hex() for x in ex], "keys": [x.hex() for x in req]})
  got = ck.driver(ops)
  bad = [(o, e, g) for o, e, g in zip(ops, expect, got) if e != g]
  ck.evaluated(len(ops))
  ck.count("primitive_comparisons", len(ops))
  if bad:
    ck.count("primitive_disagreements", len(bad))
    return {"op": bad[0][0], "impl": bad[0][1], "model": bad[0][2]}
  return None


# ---------------------------------------------------------------------------------------------
# ENGINE LEVEL: rows ADDED and REPOSITIONED through user actions (AddRecord / BulkAddRecord / UpdateRecord /
# BulkUpdateRecord / ReplaceTableData of manualSort, of a user PositionNumber column and of the metadata column
# _grist_Views_section_field.parentPos), i.e. column.PositionColumn.prepare_new_values + Engine.convert_action_values
# + the adjustment doc actions: the GLUE between relabeling.prepare_inserts' result (indices into the sorted neighbour
# list) and the rows of the table.  Histories are generated adaptively (each step aims at the CURRENT position of a row)
# so that float neighbourhoods get crowded and relabeling has to adjust other existing rows while rows are moved.
#
# Interpretation of the property for one action on one position column (before -> after, both {row: position}):
#   subjects  = the rows the action adds / repositions, with request q_j = float(value), None / "" / column not
#               named in an add -> +inf (PositionNumber.do_convert);  untouched = every other row.
#   E1  every position after the action is a finite float and all are pairwise distinct;
#   E2  untouched rows keep their relative order (they may be relabelled);
#   E3  each subject sits where requested: after every untouched row whose OLD position is < q_j and before every
#       untouched row whose OLD position is >= q_j (a moved row's own old position does not matter);
#   E4  subjects of one action are ordered by (q_j, j);
#   E5  a column the action does not name (update), another table's column, and every column on a REJECTED action
#       keep exactly their positions; a removal removes exactly the removed rows; an undo restores the positions.
# The judge below (judge_step) evaluates E1-E5 on the real engine's tables, with no reference to relabeling.py
# or to the Lean model.

def _q(v):
  return INF if v is None or v == "" else float(v)


def _finite_float(v):
  return isinstance(v, float) and math.isfinite(v)


def judge_positions(kind, before, after, subjects, reqs, relabelled):
  """E1-E4 for one column.  kind = 'added' / 'repositioned'.  -> None or (signature, detail)."""
  tail = " [relabeling adjusted the neighbourhood]" if relabelled else " [no relabeling]"
  for r in sorted(after):
    if not _finite_float(after[r]):
      return ("engine: a row %s through a user action leaves a non-finite or non-float position" % kind + tail,
              "row %r -> %r" % (r, after[r]))
  seen = {}
  for r in sorted(after):
    if after[r] in seen:
      return ("engine: two rows hold the same position after a row is %s through a user action" % kind + tail,
              "rows %r and %r -> %r" % (seen[after[r]], r, after[r]))
    seen[after[r]] = r
  subj = set(subjects)
  untouched = [r for r in before if r not in subj]
  old_order = sorted(untouched, key=lambda r: (before[r], r))
  new_order = sorted(untouched, key=lambda r: (after[r], r))
  if old_order != new_order:
    k = [i for i in range(len(old_order)) if old_order[i] != new_order[i]][0]
    return ("engine: untouched rows change their relative order when a row is %s through a user action" % kind + tail,
            "first difference at rank %d: before ...%r, after ...%r" % (k, old_order[max(0, k - 2):k + 3], new_order[max(0, k - 2):k + 3]))
  for j, (s, q) in enumerate(zip(subjects, reqs)):
    for i in untouched:
      if before[i] < q:
        if not after[i] < after[s]:
          return ("engine: %s row does not sit where requested (it is before an untouched row with a smaller old position)" % kind + tail,
                  "subject row %r (request %r -> %r) vs untouched row %r (%r -> %r)" % (s, q, after[s], i, before[i], after[i]))
      elif not after[s] < after[i]:
        return ("engine: %s row does not sit where requested (it is after an untouched row with an equal or larger old position)" % kind + tail,
                "subject row %r (request %r -> %r) vs untouched row %r (%r -> %r)" % (s, q, after[s], i, before[i], after[i]))
  order = sorted(range(len(subjects)), key=lambda j: (reqs[j], j))
  for x, y in zip(order, order[1:]):
    if not after[subjects[x]] < after[subjects[y]]:
      return ("engine: rows %s in one action do not keep the order of their requested positions" % kind + tail,
              "rows %r (request %r) and %r (request %r) -> %r, %r" % (subjects[x], reqs[x], subjects[y], reqs[y],
                                                                       after[subjects[x]], after[subjects[y]]))
  return None


class MoveRun(object):
  """One engine document driven by abstract, JSON-able steps (kept for replay):
       {"op":"table","table":T,"pos_cols":[...]}                 AddTable T [a:Int] + user PositionNumber columns
       {"op":"watch","table":T,"col":c}                           also judge this (metadata) position column
       {"op":"add","table":T,"n":k,"cols":{c:[v..]},"single":b}   AddRecord / BulkAddRecord with new row ids
       {"op":"move","table":T,"rows":[..],"cols":{c:[v..]},"single":b}   UpdateRecord / BulkUpdateRecord of existing rows
       {"op":"replace","table":T,"n":k,"cols":{c:[v..]}}          ReplaceTableData
       {"op":"remove","table":T,"rows":[..]}   {"op":"undo"}      RemoveRecord(s) / ApplyUndoActions of the last action
       {"op":"seed","table":T,"col":c,"rows":[..],"vals":[..]}    ApplyDocActions: positions set directly (a loaded state)
  """
  MAX_TIES = 100000
  N_RUNS = [0]

  def __init__(self, ob, out, family):
    MoveRun.N_RUNS[0] += 1
    self.uid = MoveRun.N_RUNS[0]
    from gx import engine_driver as ed
    self.ed = ed
    self.ob = ob
    self.out = out
    self.family = family
    self.doc = ed.Doc()
    self.steps = []
    self.watch = []
    self.last_undo = None
    self.dead = False          # a violation was found: stop judging (later states are consequences)
    self.ties = []
    self.nseq = 0

  def count(self, k, d=1):
    self.out["counts"][k] = self.out["counts"].get(k, 0) + d

  # ---- observation
  def state(self, table, col):
    td = self.doc.engine.fetch_table(table)
    return dict(zip(td.row_ids, td.columns[col]))

  def states(self):
    out = {}
    for t in sorted(set(t for (t, _) in self.watch)):
      td = self.doc.engine.fetch_table(t)
      for (t2, c) in self.watch:
        if t2 == t:
          out[(t, c)] = dict(zip(td.row_ids, td.columns[c]))
    return out

  def order(self, table, col="manualSort"):
    st = self.state(table, col)
    return sorted(st, key=lambda r: (st[r], r)), st

  # ---- one step
  def to_user_action(self, st):
    op = st["op"]
    if op == "table":
      return ["AddTable", st["table"], [{"id": "a", "type": "Int", "isFormula": False, "formula": ""}] +
              [{"id": c, "type": "PositionNumber", "isFormula": False, "formula": ""} for c in st["pos_cols"]]]
    if op == "add":
      self.nseq += 1
      if st.get("single") and st["n"] == 1:
        return ["AddRecord", st["table"], None, dict({"a": self.nseq}, **{c: v[0] for c, v in st["cols"].items()})]
      return ["BulkAddRecord", st["table"], [None] * st["n"],
              dict({"a": [self.nseq] * st["n"]}, **{c: list(v) for c, v in st["cols"].items()})]
    if op == "replace":
      return ["ReplaceTableData", st["table"], [None] * st["n"],
              dict({"a": [7] * st["n"]}, **{c: list(v) for c, v in st["cols"].items()})]
    if op == "move":
      if st.get("single") and len(st["rows"]) == 1:
        return ["UpdateRecord", st["table"], st["rows"][0], {c: v[0] for c, v in st["cols"].items()}]
      return ["BulkUpdateRecord", st["table"], list(st["rows"]), {c: list(v) for c, v in st["cols"].items()}]
    if op == "remove":
      if len(st["rows"]) == 1:
        return ["RemoveRecord", st["table"], st["rows"][0]]
      return ["BulkRemoveRecord", st["table"], list(st["rows"])]
    if op == "seed":
      return ["ApplyDocActions", [["BulkUpdateRecord", st["table"], list(st["rows"]), {st["col"]: list(st["vals"])}]]]
    if op == "undo":
      return ["ApplyUndoActions", self.last_undo[0]]
    raise ValueError(op)

  def find(self, sig, detail):
    self.dead = True
    self.out["violations"].append((sig, detail, {"engine_steps": list(self.steps), "family": self.family}))

  def step(self, st):
    """Run one abstract step on the real engine and judge it.  Returns the BundleResult (or None when dead)."""
    if self.dead:
      return None
    op = st["op"]
    if op == "watch":
      self.steps.append(st)
      self.watch.append((st["table"], st["col"]))
      return None
    if op == "undo" and self.last_undo is None:
      return None
    self.steps.append(st)
    before = self.states()
    ua = self.to_user_action(st)
    self.ob.reset()
    res = self.doc.apply([ua], record=False)
    relabels, renumbers = self.ob.relabels, self.ob.renumbers
    if op == "table":
      if not res.ok:
        raise_infra("engine scenario: AddTable rejected: %r" % (res.error,))
      self.watch.append((st["table"], "manualSort"))
      for c in st["pos_cols"]:
        self.watch.append((st["table"], c))
      return res
    after = self.states()
    self.out["evaluated"] += 1
    self.count("engine_actions")
    self.count("engine_actions_" + op)
    self.judge(st, res, before, after, relabels, renumbers)
    if res.ok and op in ("add", "move", "replace", "remove"):
      self.last_undo = (res.raw_undo, before)
    else:
      self.last_undo = None
    return res

  def judge(self, st, res, before, after, relabels, renumbers):
    op = st["op"]
    table = st.get("table")
    # E1 on every watched column, whatever happened
    for key in self.watch:
      a = after[key]
      if not all(_finite_float(v) for v in a.values()) or len(set(a.values())) != len(a):
        if op in ("add", "move", "replace") and res.ok and key[0] == table:
          continue     # reported with the precise clause below
        return self.find("engine: position column holds non-finite or duplicate values after %s" % op,
                         "%s.%s = %r" % (key[0], key[1], sorted(a.items())[:12]))
    if not res.ok:
      self.count("engine_actions_rejected")
      for key in self.watch:
        if after[key] != before[key]:
          return self.find("engine: a rejected action changed row positions", "%s.%s after %s: %r" % (key[0], key[1], op, res.error))
      return self.judge_rejected(st, res, before)
    if op == "seed":
      want = dict(before[(table, st["col"])])
      want.update(zip(st["rows"], st["vals"]))
      if after[(table, st["col"])] != want:
        raise_infra("engine scenario: ApplyDocActions did not set the seeded positions")
      return None
    if op == "undo":
      for key in self.watch:
        if after[key] != self.last_undo[1][key]:
          return self.find("engine: undo of a position-changing action does not restore the positions",
                           "%s.%s" % key)
      self.count("engine_undos_judged")
      return None
    subjects = None
    cand, want_tie = [], False
    if op == "add":
      ret = res.ret[0]
      subjects = [ret] if isinstance(ret, int) else list(ret)
    elif op == "replace":
      subjects = list(range(1, st["n"] + 1))
    elif op == "move":
      subjects = list(st["rows"])
    for key in self.watch:
      b, a = before[key], after[key]
      t, c = key
      if t != table or (op == "move" and c not in st["cols"]):
        if a != b:
          return self.find("engine: positions of a column the action does not name changed", "%s.%s after %s" % (t, c, op))
        continue
      if op == "remove":
        want = {r: v for r, v in b.items() if r not in set(st["rows"])}
        if a != want:
          return self.find("engine: removing rows changed the positions of other rows", "%s.%s" % key)
        continue
      if op == "replace":
        b = {}     # every old row goes away; all rows of the new data are subjects
      if op in ("add", "replace") and (set(a) != set(b) | set(subjects) or set(b) & set(subjects) or
                                       len(set(subjects)) != len(subjects)):
        raise_infra("engine scenario: %s did not create exactly the returned rows %r" % (op, subjects))
      if op == "move" and set(a) != set(b):
        return self.find("engine: an update of positions changed the set of rows", "%s.%s" % key)
      reqs = [_q(v) for v in st["cols"][c]] if c in st["cols"] else [INF] * len(subjects)
      kind = "repositioned" if op == "move" else "added"
      touched = [r for r in b if r not in set(subjects) and a[r] != b[r]]
      relab = bool(relabels or renumbers)
      self.count("engine_%s_judged" % ("moves" if op == "move" else "adds"))
      if relab:
        self.count("engine_%s_with_relabeling" % ("moves" if op == "move" else "adds"))
      if touched:
        self.count("engine_%s_adjusting_untouched_rows" % ("moves" if op == "move" else "adds"))
        self.count("engine_untouched_rows_adjusted", len(touched))
        if op == "move":
          firstadj = min(before[key][r] for r in touched)
          lastadj = max(before[key][r] for r in touched)
          if any(b[s] < lastadj for s in subjects):
            self.count("engine_moves_with_moved_row_sorting_before_an_adjusted_row")
          if any(b[s] > firstadj for s in subjects):
            self.count("engine_moves_with_moved_row_sorting_after_an_adjusted_row")
          if any(a[s] != b[s] and firstadj <= b[s] <= lastadj for s in subjects):
            self.count("engine_moves_with_moved_row_inside_the_adjusted_run")
          if len(subjects) > 1:
            self.count("engine_bulk_moves_adjusting_untouched_rows")
          if c != "manualSort":
            self.count("engine_moves_adjusting_untouched_rows_in_%s" % c)
      bad = judge_positions(kind, b, a, subjects, reqs, relab)
      if bad and op == "move" and self.dropped_update(key, b, a, subjects, reqs, relab):
        bad = None
      if bad:
        return self.find(bad[0], "%s.%s %s rows %r requests %r (%d rows before; %d untouched rows relabelled): %s" % (
          t, c, op, subjects[:6], reqs[:6], len(b), len(touched), bad[1]))
      if touched or relab:
        self.out["nontrivial"].append(["engine", t, c, op, [bits(x) for x in sorted(before[key].values())],
                                       [bits(x) for x in reqs], [bits(before[key][s]) for s in subjects if s in before[key]]])
        if op == "move" and touched and len(b) <= 10 and self.out.get("engine_samples", 0) < 1:
          self.out["engine_samples"] = self.out.get("engine_samples", 0) + 1
          self.out["samples"].append({"engine_move": st, "column": "%s.%s" % key,
                                      "before": sorted(b.items()), "after": sorted(a.items())})
      # the model tie: prepare_inserts (Lean, at Float) on (sorted old positions, requests) + the glue as the
      # harness understands it (adjustment index -> row of the list sorted by old position; subjects last)
      if touched or relab or len(self.steps) % 3 == 0:
        want_tie = True
      bb = before[key] if not (op == "replace" and c not in st["cols"]) else {}   # ReplaceTableData: ignore_data for unnamed columns
      rows_sorted = sorted(bb, key=lambda r: (bb[r], r))
      cand.append({"rows": rows_sorted, "existing": [bb[r] for r in rows_sorted], "reqs": reqs,
                   "subjects": subjects, "after": a, "replace": op == "replace", "move": op == "move",
                   "where": "%s.%s %s" % (t, c, op), "nsteps": len(self.steps), "group": (self.uid, len(self.steps))})
    if want_tie and len(self.ties) < self.MAX_TIES:
      self.ties.extend(cand)
    return None

  def dropped_update(self, key, b, a, subjects, reqs, relab):
    """KNOWN FINDING (unchanged tree), recognised by its specific condition only: useractions.doBulkUpdateRecord
    trims 'unchanged' cells (trim_update_action) BEFORE it applies the relabeling adjustments; when the position
    computed for a moved row happens to EQUAL that row's position before the action (possible only if the row
    itself is relabelled), its update is dropped and the row stays in its relabelled OLD slot.  Condition checked:
    prepare_inserts on (sorted positions before, requests) returns for subject j exactly b[s_j], adjusts s_j, the
    table holds that adjusted value for s_j, and with those rows put at their computed positions E1-E4 hold."""
    ex_rows = sorted(b, key=lambda r: (b[r], r))
    pure = real_prepare(self.ob, [b[r] for r in ex_rows], reqs)
    if "error" in pure:
      return False
    adjd = {ex_rows[i]: k for (i, k) in pure["adj"]}
    dropped = [j for j, s_ in enumerate(subjects)
               if pure["new"][j] == b[s_] and s_ in adjd and a[s_] == adjd[s_]]
    if not dropped:
      return False
    a2 = dict(a)
    for j in dropped:
      a2[subjects[j]] = pure["new"][j]
    if judge_positions("repositioned", b, a2, subjects, reqs, relab) is not None:
      return False
    self.count("engine_moves_dropped_by_trim_after_relabeling")
    s_ = subjects[dropped[0]]
    self.out["violations"].append((
      TRIM_SIGNATURE,
      "%s.%s: row %r requested at %r; computed position %r equals its old position, the update is trimmed and the row "
      "keeps its relabelled old slot %r" % (key[0], key[1], s_, reqs[dropped[0]], b[s_], a[s_]),
      {"engine_steps": list(self.steps), "family": self.family}))
    return True

  def judge_rejected(self, st, res, before):
    """The engine rejected an action.  Only the recorded totality findings of relabeling.prepare_inserts are
    acceptable, and only if the SAME exception is raised by prepare_inserts itself on (the column's sorted
    positions before, the requests) and exception_signature finds the recorded condition there."""
    op = st["op"]
    if op not in ("add", "move", "replace"):
      return self.find("engine: %s of rows raises %s" % (op, res.error[0]), "%r" % (res.error,))
    n = st["n"] if op in ("add", "replace") else len(st["rows"])
    for (t, c) in self.watch:
      if t != st["table"] or (op == "move" and c not in st["cols"]):
        continue
      b = before[(t, c)]
      reqs = [_q(v) for v in st["cols"][c]] if c in st["cols"] else [INF] * n
      ex = sorted(b.values()) if not (op == "replace" and c not in st["cols"]) else []
      pure = real_prepare(self.ob, ex, reqs)
      if "error" in pure and pure["error"].split(":")[0] == res.error[0]:
        sig, detail = exception_signature(ex, reqs, pure)
        self.count("engine_rejections_reproduced_by_prepare_inserts_alone")
        self.out["violations"].append((sig, "through the engine (%s on %s.%s): %s" % (op, t, c, detail),
                                       {"existing": [x.hex() for x in ex], "keys": [x.hex() for x in reqs]}))
        return None
    return self.find("engine: a row %s through a user action is rejected with %s although relabeling.prepare_inserts "
                     "accepts the same positions and requests" % ("repositioned" if op == "move" else "added", res.error[0]),
                     "%r" % (res.error,))


TRIM_SIGNATURE = ("engine: repositioned row stays in its relabelled old slot (the position computed for it equals its position "
                  "before the action, so trim_update_action drops its update while the adjustment of that same row is applied)")


def raise_infra(msg):
  from gx import common
  raise common.Infra(msg)


# ---- scenario families (adaptive generators)

def _aim(rng, st, target, order):
  """A requested position aimed at row `target` (mostly: exactly its current position = 'right before it')."""
  c = rng.random()
  p = st[target]
  if c < 0.62:
    return p
  if c < 0.72:
    return nf(p)                     # right after the target (before its successor)
  if c < 0.78:
    return pf(p)
  if c < 0.84:
    return st[rng.choice(order)]     # before some other row
  if c < 0.88:
    i = order.index(target)
    return (p + st[order[i - 1]]) / 2 if i > 0 else p / 2
  if c < 0.92:
    return None                      # to the end
  if c < 0.95:
    return rng.choice([0, -1.5, 0.0, ""])
  if c < 0.97:
    return int(p) if abs(p) < 2 ** 50 else p      # an int request
  return rng.choice([1e300, 2.0 ** 40, p * 2, p + 1])


def _pick_movers(rng, order, target, k):
  """Rows to reposition: from the front (they sort BEFORE whatever gets adjusted), the back, around the target."""
  out = []
  ti = order.index(target)
  for _ in range(k):
    c = rng.random()
    if c < 0.35:
      r = order[rng.randrange(0, min(3, len(order)))]
    elif c < 0.5:
      r = order[-1 - rng.randrange(0, min(3, len(order)))]
    elif c < 0.62:
      r = order[max(0, ti - rng.randint(1, 3))]
    elif c < 0.72:
      r = order[min(len(order) - 1, ti + rng.randint(1, 3))]
    elif c < 0.77:
      r = target
    else:
      r = rng.choice(order)
    if r not in out:
      out.append(r)
  return out


def fam_crowd(rng, run, nsteps, pos_cols=(), p_move=0.45, seed_chain=False, cap=160):
  """Rows are added and moved again and again right before (or after) the same row, so the float gap there is
  used up and relabeling must adjust existing rows - while rows from anywhere in the order are moved in."""
  T = "T"
  run.step({"op": "table", "table": T, "pos_cols": list(pos_cols)})
  n0 = rng.randint(3, 9)
  run.step({"op": "add", "table": T, "n": n0, "cols": {}})
  cols = ["manualSort"] + list(pos_cols)
  if seed_chain:
    # a loaded state whose positions are (nearly) adjacent floats: every insertion there relabels at once
    for c in cols:
      if rng.random() < 0.8:
        order, st = run.order(T, c)
        base = rng.choice([1.0, 3.0, 0.1, 1.2, 2.4, 17.0, 123456.789, 2.0 ** 40, 2.0 ** 49 - 4, 1e15])
        k0 = rng.randrange(0, max(1, len(order) - 2))
        vals, x = [], base
        for i in range(len(order)):
          vals.append(x)
          x = nf(x, rng.choice([1, 1, 1, 2, 3])) if k0 <= i < k0 + rng.randint(2, 6) else x + rng.choice([1.0, 0.5, base / 8])
          if x <= vals[-1]:
            x = nf(vals[-1])
        run.step({"op": "seed", "table": T, "col": c, "rows": order, "vals": vals})
  order, st = run.order(T)
  target = {c: rng.choice(order) for c in cols}
  for _ in range(nsteps):
    if run.dead:
      return
    c = rng.choice(cols) if rng.random() < 0.8 else None        # None: several columns at once
    use = [c] if c else [x for x in cols if rng.random() < 0.7] or cols[:1]
    x = rng.random()
    info = {u: run.order(T, u) for u in use}
    order = info[use[0]][0]
    if len(order) < 3:
      run.step({"op": "add", "table": T, "n": 3, "cols": {}})
      continue
    if rng.random() < 0.03:
      for u in use:
        target[u] = rng.choice(order)
    for u in cols:
      if target[u] not in order:
        target[u] = rng.choice(order)
    if x < p_move:
      k = rng.choice([1, 1, 1, 1, 2, 2, 3, 5])
      rows = _pick_movers(rng, order, target[use[0]], k)
      same = rng.random() < 0.7
      colv = {}
      for u in use:
        o, s = info[u]
        q = _aim(rng, s, target[u], o)
        colv[u] = [q if same else _aim(rng, s, target[u], o) for _ in rows]
      run.step({"op": "move", "table": T, "rows": rows, "cols": colv, "single": rng.random() < 0.7})
    elif x < 0.93:
      k = rng.choice([1, 1, 1, 1, 2, 3, 6])
      colv = {}
      for u in use:
        o, s = info[u]
        q = _aim(rng, s, target[u], o)
        colv[u] = [q if rng.random() < 0.8 else _aim(rng, s, target[u], o) for _ in range(k)]
      if rng.random() < 0.1:
        colv = {}
      run.step({"op": "add", "table": T, "n": k, "cols": colv, "single": rng.random() < 0.7})
    elif x < 0.96 and len(order) > 4:
      rows = [r for r in rng.sample(order, rng.choice([1, 1, 2])) if r not in target.values()]
      if rows:
        run.step({"op": "remove", "table": T, "rows": rows})
    elif x < 0.985:
      run.step({"op": "undo"})
    else:
      k = rng.randint(1, 6)
      run.step({"op": "replace", "table": T, "n": k,
                "cols": {"manualSort": [rng.choice([1, 1, 2, None, 0.5, 3]) for _ in range(k)]} if rng.random() < 0.7 else {}})
      order, st = run.order(T)
      target = {c2: rng.choice(order) for c2 in cols}
    if len(order) > cap:
      o, s = run.order(T)
      keep = set(target.values())
      rows = [r for r in o if r not in keep][: len(o) // 2]
      run.step({"op": "remove", "table": T, "rows": rows})


def _dense_vals(rng, n):
  """n strictly increasing finite positions containing a run of (nearly) adjacent floats; -> (vals, run indices)"""
  base = rng.choice([1.0, 3.0, 0.1, 1.2, 2.4, 17.0, 123456.789, 2.0 ** 40, 2.0 ** 49 - 4, 1e15, 0.5, 1e-3, 1e-300])
  k0 = rng.randrange(0, max(1, n - 1))
  klen = rng.randint(2, max(2, min(7, n - k0)))
  gap = rng.choice([1, 1, 1, 2, 3, 8])
  vals, x = [], base
  for i in range(n):
    vals.append(x)
    x = nf(x, rng.randint(1, gap)) if k0 <= i < k0 + klen - 1 else x + rng.choice([1.0, 0.5, base / 8, base])
    if x <= vals[-1]:
      x = nf(vals[-1])
  return vals, list(range(k0, min(n, k0 + klen)))


def fam_dense(rng, run, nrounds, pos_cols=()):
  """Loaded states whose positions contain a run of adjacent floats (set directly, as a stored document would hold
  them), then a few adds / moves aimed INTO the run, the moved rows taken from anywhere in the order: every such
  action has to relabel existing rows."""
  T = "T"
  run.step({"op": "table", "table": T, "pos_cols": list(pos_cols)})
  run.step({"op": "add", "table": T, "n": rng.randint(4, 14), "cols": {}})
  cols = ["manualSort"] + list(pos_cols)
  for _ in range(nrounds):
    if run.dead:
      return
    c = rng.choice(cols)
    order, st = run.order(T, c)
    if len(order) > 40:
      run.step({"op": "remove", "table": T, "rows": rng.sample(order, len(order) - 8)})
      order, st = run.order(T, c)
    vals, dense = _dense_vals(rng, len(order))
    if rng.random() < 0.3:
      rng.shuffle(order)          # the loaded order need not be the previous one
    run.step({"op": "seed", "table": T, "col": c, "rows": order, "vals": vals})
    for _ in range(rng.randint(1, 3)):
      if run.dead:
        return
      order, st = run.order(T, c)
      # aim at a row of the dense run (tracked by rank: relabeling keeps ranks of untouched rows)
      tr = order[min(len(order) - 1, rng.choice(dense))]
      q = rng.choice([st[tr], st[tr], nf(st[tr]), pf(st[tr])])
      if rng.random() < 0.65:
        k = rng.choice([1, 1, 1, 2, 3])
        rows = []
        for _ in range(k):
          x = rng.random()
          r = order[0] if x < 0.3 else order[-1] if x < 0.4 else rng.choice(order)
          if r not in rows:
            rows.append(r)
        qs = [q] * len(rows) if rng.random() < 0.7 else [rng.choice([q, st[order[min(len(order) - 1, rng.choice(dense))]], None]) for _ in rows]
        run.step({"op": "move", "table": T, "rows": rows, "cols": {c: qs}, "single": rng.random() < 0.6})
      else:
        k = rng.choice([1, 1, 2, 4])
        run.step({"op": "add", "table": T, "n": k, "cols": {c: [q] * k}, "single": rng.random() < 0.6})


def fam_demo(run, nsteps=200, n0=5, target=4, move_every=4, col="manualSort", bulk=False):
  """FIXED WITNESS (no randomness): rows are added right before row `target`; every `move_every`-th action instead
  drags the row that is currently FIRST to right before `target`."""
  T = "T"
  run.step({"op": "table", "table": T, "pos_cols": [] if col == "manualSort" else [col]})
  run.step({"op": "add", "table": T, "n": n0, "cols": {}})
  for s in range(nsteps):
    if run.dead:
      return
    order, st = run.order(T, col)
    q = st[target]
    if s % move_every == move_every - 1:
      rows = [r for r in order[:2 if bulk else 1] if r != target]
      run.step({"op": "move", "table": T, "rows": rows, "cols": {col: [q] * len(rows)}, "single": not bulk})
    else:
      run.step({"op": "add", "table": T, "n": 1, "cols": {col: [q]}, "single": True})


def fam_trim_witness(run):
  """FIXED WITNESS of the known finding TRIM_SIGNATURE: rows 1..4 at 5.75, 6.95, next(6.95), next(next(6.95));
  row 2 is dragged to right before row 4."""
  T = "T"
  run.step({"op": "table", "table": T, "pos_cols": []})
  run.step({"op": "add", "table": T, "n": 4, "cols": {}})
  x = 6.95
  run.step({"op": "seed", "table": T, "col": "manualSort", "rows": [1, 2, 3, 4], "vals": [5.75, x, nf(x), nf(x, 2)]})
  run.step({"op": "move", "table": T, "rows": [2], "cols": {"manualSort": [nf(x, 2)]}, "single": True})


def fam_moves_only(rng, run, nsteps):
  """No row is ever added after the set-up: a fixed set of rows is shuffled by moves alone (UpdateRecord of
  manualSort), always to right before / right after one of two anchor rows."""
  T = "T"
  run.step({"op": "table", "table": T, "pos_cols": []})
  n0 = rng.randint(4, 12)
  run.step({"op": "add", "table": T, "n": n0, "cols": {}})
  order, st = run.order(T)
  anchors = rng.sample(order, 2)
  for _ in range(nsteps):
    if run.dead:
      return
    order, st = run.order(T)
    a = anchors[0] if rng.random() < 0.85 else anchors[1]
    cand = [r for r in order if r != a]
    r = cand[0] if rng.random() < 0.5 else rng.choice(cand)
    q = st[a] if rng.random() < 0.8 else nf(st[a])
    run.step({"op": "move", "table": T, "rows": [r], "cols": {"manualSort": [q]}, "single": True})


def fam_fields(rng, run, nsteps):
  """Another PositionNumber column: _grist_Views_section_field.parentPos (the fields of the view sections
  created by AddTable) - fields are dragged before one another again and again."""
  ncol = rng.randint(4, 8)
  res = run.doc.apply([["AddTable", "F", [{"id": "c%d" % i, "type": "Text", "isFormula": False, "formula": ""}
                                         for i in range(ncol)]]], record=False)
  if not res.ok:
    raise_infra("engine scenario: AddTable F rejected %r" % (res.error,))
  run.steps.append({"op": "raw", "ua": ["AddTable", "F", [{"id": "c%d" % i, "type": "Text", "isFormula": False, "formula": ""}
                                                          for i in range(ncol)]]})
  MT = "_grist_Views_section_field"
  run.step({"op": "watch", "table": MT, "col": "parentPos"})
  order, st = run.order(MT, "parentPos")
  target = rng.choice(order)
  for _ in range(nsteps):
    if run.dead:
      return
    order, st = run.order(MT, "parentPos")
    k = rng.choice([1, 1, 1, 2, 3])
    rows = [r for r in _pick_movers(rng, order, target, k)]
    q = _aim(rng, st, target, order)
    if isinstance(q, str):
      q = None
    run.step({"op": "move", "table": MT, "rows": rows, "cols": {"parentPos": [q] * len(rows)}, "single": rng.random() < 0.6})


def run_engine_tie(run_ties, out):
  """Model tie for the engine steps: Lean prepareInserts at Float on (sorted old positions, requests) + the glue
  (index i of an adjustment = i-th row by old position; subjects get the new keys) must give the engine's table."""
  if not run_ties:
    return
  ops = [enc_case(t["existing"], t["reqs"]) for t in run_ties]
  model = run_driver(ops)
  # the glue quirk that exists in the code (see MoveRun.dropped_update): an update whose computed cells all equal the
  # current cells of the row is trimmed before the adjustments are applied
  keeps = {}
  for t, mo in zip(run_ties, model):
    if t["move"] and "error" not in mo:
      old = dict(zip(t["rows"], [bits(x) for x in t["existing"]]))
      same = [old.get(s) == k for s, k in zip(t["subjects"], mo["new"])]
      prev = keeps.get(t["group"])
      keeps[t["group"]] = same if prev is None else [x and y for x, y in zip(prev, same)]
  for t, mo in zip(run_ties, model):
    out["evaluated"] += 1
    out["counts"]["engine_tie_comparisons"] = out["counts"].get("engine_tie_comparisons", 0) + 1
    if "error" in mo:
      pred = None
    else:
      pred = {} if t["replace"] else dict(zip(t["rows"], [bits(x) for x in t["existing"]]))
      for (i, k) in mo["adj"]:
        if not t["replace"]:
          pred[t["rows"][i]] = k
      trimmed = keeps.get(t["group"]) if t["move"] else None
      for j, (s, k) in enumerate(zip(t["subjects"], mo["new"])):
        if trimmed and trimmed[j]:
          out["counts"]["engine_tie_trimmed_updates"] = out["counts"].get("engine_tie_trimmed_updates", 0) + 1
          continue
        pred[s] = k
    real = {r: bits(v) for r, v in t["after"].items()}
    if pred != real:
      out["n_engine_tie_mismatch"] = out.get("n_engine_tie_mismatch", 0) + 1
      if out.get("engine_tie_mismatch") is None:
        diff = sorted(r for r in set(real) | set(pred or {}) if (pred or {}).get(r) != real.get(r))
        out["engine_tie_mismatch"] = {"where": t["where"], "step": t["nsteps"], "model": mo if pred is None else None,
                                      "rows_differing": diff[:10], "engine_steps": t["steps"]}


def engine_chunk(args):
  """Engine scenarios of one worker: -> out dict (same shape as process_chunk's)."""
  import random
  from gx import common
  common.setup_repo_path()
  seed, n_crowd, crowd_steps, n_other, witnesses = args
  rng = random.Random(seed)
  out = {"counts": {}, "violations": [], "nontrivial": [], "samples": [], "evaluated": 0,
         "engine_tie_mismatch": None, "n_engine_tie_mismatch": 0}
  ties = []

  def play(run, fam, *a, **kw):
    try:
      fam(*a, **kw)
    except Exception:      # pylint: disable=broad-except
      if not run.dead:     # after a violation the generator may trip over the broken state; that is not an error
        raise
    done(run)

  def done(run):
    out["counts"]["engine_scenarios"] = out["counts"].get("engine_scenarios", 0) + 1
    out["counts"]["engine_scenarios_" + run.family] = out["counts"].get("engine_scenarios_" + run.family, 0) + 1
    for t in run.ties:
      t["steps"] = run.steps
    ties.extend(run.ties)

  with Observer() as ob:
    if witnesses:
      for kw in ({}, {"n0": 8, "target": 6, "move_every": 2, "nsteps": 150},
                 {"col": "p", "nsteps": 150, "move_every": 3}, {"bulk": True, "nsteps": 150, "move_every": 3}):
        run = MoveRun(ob, out, "fixed_witness")
        play(run, fam_demo, run, **kw)
      run = MoveRun(ob, out, "fixed_witness")
      play(run, fam_trim_witness, run)
    for i in range(n_crowd):
      run = MoveRun(ob, out, "crowd")
      play(run, fam_crowd, rng, run, crowd_steps, pos_cols=(["p"] if i % 3 == 1 else []), seed_chain=(i % 2 == 1),
           p_move=rng.choice([0.3, 0.45, 0.7]))
    for i in range(n_crowd):
      run = MoveRun(ob, out, "dense_loaded_state")
      play(run, fam_dense, rng, run, max(4, crowd_steps // 4), pos_cols=(["p"] if i % 3 == 1 else []))
    for i in range(n_other):
      run = MoveRun(ob, out, "moves_only")
      play(run, fam_moves_only, rng, run, crowd_steps)
      run = MoveRun(ob, out, "section_fields")
      play(run, fam_fields, rng, run, crowd_steps)
  run_engine_tie(ties, out)
  return out


def replay_engine(ck, r):
  """Re-run recorded abstract engine steps, judging each one."""
  out = {"counts": {}, "violations": [], "nontrivial": [], "samples": [], "evaluated": 0}
  with Observer() as ob:
    run = MoveRun(ob, out, r.get("family", "replay"))
    for st in r["engine_steps"]:
      if st["op"] == "raw":
        res = run.doc.apply([st["ua"]], record=False)
        run.steps.append(st)
        continue
      run.step(st)
      if run.dead:
        break
  ck.evaluated(out["evaluated"])
  for (sig, detail, rp) in out["violations"]:
    print("replay: engine history of %d steps -> %s: %s" % (len(rp.get("engine_steps", run.steps)), sig, detail))
    ck.violation(sig, detail, rp)
  if not out["violations"]:
    print("replay: engine history of %d steps -> property holds" % len(run.steps))
  ck.nontrivial_case("replay-engine")
  ck.lean(["GristProps.C20"])


# ---------------------------------------------------------------------------------------------

def chunks_for(ck):
  s = ck.seed
  if ck.tier == "quick":
    return [("C20/%s/0" % s, 1400, 300, 14, 40, "quick", True)]
  return [("C20/%s/%d" % (s, w), 14000, 3000, 80, 100, "thorough", w == 0) for w in range(16)]


def run(ck):
  ck.rule = NONTRIVIAL_RULE
  ck.assumptions = [
    "existing keys are handed over sorted ascending (SortedListWithKey) and nothing is NaN",
    "full clauses demanded when existing positions are finite and pairwise distinct; weaker clause set otherwise (see module docstring)",
    "theorems are about lawful linear orders; Float's < on non-NaN values is assumed to be one (the driver runs the same generic code at Float)",
    "prepare_inserts_partial assumes the get_range laws: length = count, weakly increasing, start <= k < end (validated on the real get_range each run)",
    "totality of prepare_inserts is NOT proved; exceptions are searched for and reported",
    "engine level (rows added / repositioned through AddRecord, BulkAddRecord, UpdateRecord, BulkUpdateRecord, ReplaceTableData, "
    "RemoveRecord, undo on manualSort, a user PositionNumber column and _grist_Views_section_field.parentPos): judged by the DIRECT "
    "ORACLE ONLY (judge_positions: E1 finite+distinct, E2 untouched rows keep their order, E3 each added/moved row sits where "
    "requested relative to untouched rows' old positions, E4 request order among subjects, E5 unnamed columns / rejected actions / "
    "removals / undo leave positions as they must); no theorem covers PositionColumn.prepare_new_values, "
    "Engine.convert_action_values or useractions.doBulkUpdateRecord",
    "engine tie: Lean prepareInserts at Float on (sorted positions before, requests) + a PYTHON re-implementation of the glue "
    "(adjustment index i = i-th row by old position; subjects take the new keys; an update whose computed value equals the row's "
    "current value is trimmed) must reproduce the engine's table bit-for-bit; the glue itself is not modelled in Lean",
    "engine scope: one user action per bundle; requests are floats / ints / None / '' (no NaN, no alt-text); row ids distinct within "
    "an action; <= ~160 rows per table; positions set directly through ApplyDocActions stand for a loaded document whose positions are "
    "adjacent floats; an engine rejection is attributed to a recorded prepare_inserts finding only if prepare_inserts alone raises the "
    "same exception on the same (positions, requests) and that finding's recorded condition holds there",
  ]
  ck.lean(["GristProps.C20"])
  chunks = chunks_for(ck)
  if len(chunks) == 1:
    outs = [process_chunk(chunks[0])]
  else:
    import multiprocessing
    with multiprocessing.get_context("fork").Pool(min(len(chunks), os.cpu_count() or 2)) as pool:
      outs = pool.map(process_chunk, chunks)
  mism, chk_dis = None, None
  for out in outs:
    ck.evaluated(out["evaluated"])
    for k, v in out["counts"].items():
      ck.count(k, v)
    for nt in out["nontrivial"]:
      ck.nontrivial_case(nt)
    for sm in out["samples"]:
      ck.sample(sm)
    for (sig, detail, rp) in out["violations"]:
      ck.violation(sig, detail, rp)
    if out["n_mismatch"]:
      ck.count("model_impl_disagreements", out["n_mismatch"])
      mism = mism or out["mismatch"]
    chk_dis = chk_dis or out["checker_disagree"]
  with Observer() as ob:
    prim = primitives(ck, ob)
  eng_mism = engine_moves(ck)
  if not ck.has_impl_violation():
    if mism:
      ck.broken("correspondence relabeling.prepare_inserts vs Grist.Relabel.prepareInserts (bit-for-bit)",
                "model and implementation differ and the property's clauses hold on all explored inputs", mism)
    if prim:
      ck.broken("correspondence of a relabeling.py primitive with its Lean transcription",
                "primitive differs", prim)
    if chk_dis:
      ck.broken("validOutcome (Lean, proved sound) and the Python oracle disagree on an outcome",
                "checker/oracle disagreement", chk_dis)
    if eng_mism:
      ck.broken("correspondence engine position columns vs Grist.Relabel.prepareInserts + index-to-row glue (bit-for-bit)",
                "the table after an add / reposition differs from the model's prediction and the engine-level clauses E1-E5 "
                "hold on all explored histories", eng_mism)
  engine_level(ck)


def engine_chunks_for(ck):
  s = ck.seed
  if ck.tier == "quick":
    return [("C20e/%s/0" % s, 10, 120, 2, True)]
  return [("C20e/%s/%d" % (s, w), 16, 250, 4, w == 0) for w in range(16)]


def engine_moves(ck):
  """Rows added and REPOSITIONED through the engine in crowded neighbourhoods (see MoveRun / judge_positions)."""
  chunks = engine_chunks_for(ck)
  if len(chunks) == 1:
    outs = [engine_chunk(chunks[0])]
  else:
    import multiprocessing
    with multiprocessing.get_context("fork").Pool(min(len(chunks), os.cpu_count() or 2)) as pool:
      outs = pool.map(engine_chunk, chunks)
  mism = None
  for out in outs:
    ck.evaluated(out["evaluated"])
    for k, v in out["counts"].items():
      ck.count(k, v)
    for nt in out["nontrivial"]:
      ck.nontrivial_case(nt)
    for sm in out["samples"]:
      ck.sample(sm, limit=5)
    for (sig, detail, rp) in out["violations"]:
      ck.violation(sig, detail, rp)
    if out["n_engine_tie_mismatch"]:
      ck.count("engine_tie_disagreements", out["n_engine_tie_mismatch"])
      mism = mism or out["engine_tie_mismatch"]
  return mism


def engine_level(ck):
  """Histories through the engine: every position column holds distinct values (added by the framework)."""
  try:
    from gx import engine_driver
  except ImportError:
    return
  if hasattr(engine_driver, "c20_positions"):
    engine_driver.c20_positions(ck)


def replay(ck, rp):
  r = rp["replay"]
  if "engine_steps" in r:
    return replay_engine(ck, r)
  if "input" in r:
    r = r["input"]
  ex = [float.fromhex(x) for x in r["existing"]]
  req = [float.fromhex(x) for x in r["keys"]]
  with Observer() as ob:
    res = real_prepare(ob, ex, req)
  ck.evaluated()
  if "error" in res:
    sig, detail = exception_signature(ex, req, res)
    print("replay: existing=%r requested=%r -> raises %s  [%s]" % (ex, req, res["error"], sig))
    ck.violation(sig, detail, r)
  else:
    bad = oracle(ex, req, res["adj"], res["new"])
    print("replay: existing=%r requested=%r -> adjustments=%r new=%r -> %s" % (
      ex, req, res["adj"], res["new"], bad or "property holds"))
    if bad:
      ck.violation(bad[0], bad[1], r)
  ck.nontrivial_case([r["existing"], r["keys"]]); ck.nontrivial_case("replay")
  ck.lean(["GristProps.C20"])
  # correspondence on this input (bit-for-bit)
  mo = ck.driver([enc_case(ex, req)])[0]
  if "error" in res:
    canon_real = {"error": res["error"]}
  else:
    canon_real = {"adj": [[i, bits(k)] for (i, k) in res["adj"]], "new": [bits(k) for k in res["new"]],
                  "relabels": res["relabels"], "renumbers": res["renumbers"]}
  print("replay: model %s implementation" % ("==" if mo == canon_real else "!="))
  if mo != canon_real and not ck.has_impl_violation():
    ck.broken("correspondence relabeling.prepare_inserts vs Grist.Relabel.prepareInserts (bit-for-bit)",
              "model and implementation differ on the replayed input", {"input": r, "impl": canon_real, "model": mo})
