"""
C11  Two-way references stay symmetric.

Theorems: lean/GristProps/C11.lean about GristModel/Refs.lean (Pair, updateX/Y, removeX/Y, rebuildY)
  reverse_adjustments_sym_partial(_y)  from Sym + exact indexes, an accepted update of either side naming every row
                                       at most once (any bulk update: duplicate targets, several rows retargeted,
                                       Ref/RefList on either side) plus the computed adjustments gives Sym again
  reverse_adjustments_sym_full_false   the same WITHOUT "every row at most once" is false of the code: witness
                                       BulkUpdateRecord X [1, 1] {c: [3, 4]} (replayed on the real engine each run)
  unique_rejects                       UniqueReferenceError iff the other side is Ref and some touched target would
                                       get two referrers
  remove_sym(_y)                       record removal on either side + the C10 clean-up keeps Sym
  rebuild_sym / rebuild_rejects        recalc_from_reverse_values (type switch, link creation) yields Sym / is
                                       rejected iff a single-valued side would get two referrers
Tie (harness/gx/refs_oracle.py): every real call of reverse_references.get_reverse_adjustments is recomputed by the
  model; single-action bundles updating / removing on a linked pair and AddReverseColumn are run through the model's
  updateX / removeX / rebuildY and compared with the engine's outcome (cells of both columns or the error class).
  Small scope 3x3 rows: real get_reverse_adjustments + _list_to_value driven directly on all (sampled in quick)
  states x 1-/2-row updates incl. the same row twice, vs the model's updateX; Sym and the "exactly when" clause of
  the uniqueness check are evaluated on the real results.  Single-action AddRecord/BulkAddRecord bundles go through
  the model's addX (add_sym_partial / add_sym_full_false).
Search (direct oracle): after every successful bundle, for every pair of columns linked through metadata
  `reverseCol`: for all existing rows a, b: b in refs(x[a]) iff a in refs(y[b]).  A bundle rejected with
  UniqueReferenceError leaves every table unchanged.

Interpretation.  Sym ranges over the rows that exist in the two tables (a reference to a missing row id is a
supported dangling reference and says nothing about an existing row).  A pair that was already asymmetric before a
bundle (after a reported finding) is not re-reported.  "Single-valued side would get two targets" = a Ref column
cell would have to refer to two rows.
"""
from gx.props import _hist

PROP = "C11"
PROFILE = {
  # raw doc actions replayed against a document that has moved on are outside this property's histories
  "stale_undo": 0,
  "add_record": 6, "bulk_add": 3, "update_record": 5, "bulk_update": 3, "remove_record": 7, "bulk_remove": 5,
  "replace_data": 0.3, "add_column": 0.7, "add_formula_column": 1, "remove_column": 1, "rename_column": 1,
  "modify_type": 6, "modify_formula": 0.3, "to_formula": 0.2, "to_data": 0.2, "label_change": 0.3,
  "add_table": 0.7, "remove_table": 0.7, "rename_table": 0.7, "duplicate_table": 0.3,
  "summary": 0.7, "update_summary": 0.3, "detach_summary": 0.1, "add_ref_column": 2.5, "reverse_column": 4,
  "rename_choices": 0, "display_formula": 0.5, "add_rule": 0.2, "remove_view_stuff": 0.5, "upsert": 1,
  "undo_earlier": 3, "malformed": 1, "temp_ids": 3,
  "ref_bulk_update": 12, "ref_pair_update": 14, "remove_referenced": 5, "remove_ref_side": 1, "unlink": 0.7,
  "ref_both_sides": 0.4, "add_dangling_id": 0.6,
}
CFG = {"oracles": ("failed",), "n_bundles": 18, "tie": False, "hook": "gx.refs_oracle.install",
       "refs_oracles": ("c11",), "profile": PROFILE, "gen_opts": {"dup_rows": 0.04}}
SCENARIOS = ("c11-clean", "c11-same-row-twice", "c11-both-sides-one-action", "c11-add-under-dangling-id",
             "c11-trigger-formula-side")


def run(ck):
  from gx import refs_oracle as ro
  ck.rule = ("seeded histories (18 generated bundles after a set-up creating linked pairs Ref/RefList x Ref/RefList "
             "between and within tables) + scripted scenarios incl. the Lean counterexample; every successful bundle "
             "checks Sym on every linked pair, every UniqueReferenceError rejection checks 'no trace'; non-trivial = "
             "a bundle that changed a non-empty linked column, created a link, or was rejected for uniqueness "
             "(distinct by the bundle's user actions), or a small-scope update (3x3 rows, real functions driven "
             "directly) that changes the column")
  ck.assumptions = [
    "row ids are positive, stored reference ids non-negative",
    "values reaching prepare_new_values went through the column's convert() (as on the user-action path)",
    "theorems are per pair and per action writing ONE side; an action writing both sides of a same-table pair, "
    "and record additions, are covered by the direct oracle only (see known findings)",
  ]
  ck.lean(["GristProps.C11"])
  for name in SCENARIOS:
    h = ro.run_scenario(name, ("c11",))
    ck.evaluated(len(h.bundles))
    ck.count("scripted_scenarios")
    hit = ro.report_scripted(ck, PROP, name, h)
    if name == "c11-same-row-twice" and not hit:
      # the Lean witness no longer fails on the real code: the model (which proves it fails) is out of date
      ck.broken("Lean counterexample reverse_adjustments_sym_full_false does not fail on the real engine",
                "BulkUpdateRecord X [1,1] {c:[3,4]} left the pair symmetric", {"scenario": name})
    for rec in h.bundles:
      if rec.get("nontrivial"):
        ck.nontrivial_case(rec["actions"])
        ck.sample({"scenario": name, "actions": rec["actions"], "stored": (rec["res"].stored or [])[:5],
                   "error": rec["res"].error})
  ro.c11_scope(ck)
  merged = _hist.run_histories(ck, CFG, n_quick=48, n_thorough=1600)
  _hist.report(ck, merged, PROP, ())
  ro.report_ties(ck, merged, PROP)
  st = merged["stats"]
  for k in sorted(st):
    if k.startswith("c11_") or k.startswith("tie_"):
      ck.cov["counters"][k] = st[k]
  ck.extra["traces_validated_against_impl"] = sum(v for k, v in st.items() if k.startswith("tie_") and "skipped" not in k)


def replay(ck, rp):
  from gx import refs_oracle as ro
  ck.lean(["GristProps.C11"])
  if "component" in rp.get("replay", {}):
    ro.replay_component_c11(ck, rp["replay"])
  else:
    ro.replay_history(ck, rp, PROP, ("c11",))
