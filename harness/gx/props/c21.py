# -*- coding: utf-8 -*-
"""
C21  Generated identifiers are valid and unique.

Interpretation (DESIGN.md section 6 C21 and Appendix B), demanded exactly by the oracle below:
 * "valid" = Grist's ASCII identifier alphabet `[A-Za-z][A-Za-z0-9_]*` (so: a valid Python
   identifier, `str.isidentifier()`, that starts with neither an underscore nor a digit), and not
   `keyword.iskeyword`; table ids start with `A`..`Z`.  A Python-valid NON-ASCII name ("né") is
   rewritten by design, so "already valid" also means the ASCII shape (tables: first letter already
   upper-case).
 * "differs case-insensitively" = the `str.upper()` forms differ, which is the comparison the code
   documents and performs (`ident.upper() not in _uppercase(avoid)`).  For ASCII existing names
   (all names Grist itself produces) upper/lower/casefold comparisons coincide; for non-ASCII
   existing names they can differ (KELVIN SIGN U+212A: upper() is itself, lower() is 'k'); such
   cases are only COUNTED (`casefold_only_collisions`), see the builder report.
 * a requested name is any `str`, `None` or an object with a `str()` (ints are used).

Theorems: lean/GristProps/C21.lean about lean/GristModel/Identifiers.lean
  (keywords_ok, add_suffix_terminates, gen_ident_fresh, gen_ident_letters_injective,
   sanitize_shape, pick_col_valid, pick_table_valid, pick_col_fixpoint, pick_table_fixpoint,
   pick_list_valid, pick_list_fixpoint, pick_list_step).
Parameters of the model, computed here with the very stdlib calls identifiers.py makes
  (`norm()` below REIMPLEMENTS that one line of `_sanitize_ident`:
   `unicodedata.normalize('NFKD', str(x))` minus `unicodedata.combining` characters; the avoid set
   is sent as `{a.upper()}`), plus two assumptions validated on every run over ALL code points:
   `str.upper` is idempotent and `norm` is the identity on ASCII.
The keyword list is regenerated from `keyword.kwlist` (gx.translate.gen_keywords) before the Lean
  build, and the driver echoes it back for comparison.
Tie: identifiers.pick_col_ident / pick_table_ident / pick_col_ident_list / _sanitize_ident /
  _add_suffix / _maybe_add_suffix / _gen_ident (real code) vs the model on identical inputs.
Search (direct oracle, independent of the model): `str.isidentifier`, `keyword.iskeyword`, the
  regex shape, case-insensitive distinctness, and "valid unused names are kept", evaluated on the
  REAL outputs.

Engine level (`engine_level`, every run): SEVERAL names requested by ONE user action or bundle through the
  real engine - BulkUpdateRecord on _grist_Tables {tableId: [...]}, on the raw sections' {title: [...]}, on
  _grist_Tables_column {colId: [...]} / {label: [...]} (columns of one or of two tables), bundles of
  RenameTable / AddTable / RenameColumn / AddColumn|AddVisibleColumn|AddHiddenColumn, AddTable with
  colliding column names, table renames next to a summary table, BulkAddRecord on _grist_Tables_column -
  with requests built to sanitise to equal / case-insensitively equal identifiers, to existing ids, to the
  other members' old ids, or to nothing (generated names).  Requests are `str` or `None` (the user-action
  API's types).  Judged by the DIRECT ORACLE `eng_judge` only, on the metadata and the engine after the
  action: every table id / column id valid and non-keyword, table ids pairwise different case-insensitively,
  column ids of a table pairwise different case-insensitively and different from `id`, engine tables and
  Engine.schema equal to what the metadata describes, every data column's cells unchanged and reachable
  under the new ids, ids nobody asked to change unchanged, and the action NOT rejected (a free name always
  exists).  "Kept as is" at this level: a valid requested name that is unused in its scope before the
  action and is not the id of anything else after it (the engine carries one set of picked names through a
  whole action, so a name picked for a column of another table in the same action counts as picked:
  'every other id chosen in the same batch'; that over-avoidance is counted, not judged) must be the id.
  The Lean model does not contain the engine's avoid-set bookkeeping; it takes part only through a tie
  per requested name (`eng_tie_ops`: model pick for the avoid set the HARNESS rebuilds from the state
  before the action and the ids the engine chose for the earlier members).
"""
import itertools
import keyword
import re
import signal
import sys
import unicodedata

SHAPE = re.compile(r'[A-Za-z][A-Za-z0-9_]*\Z')
FN = {"col": "pick_col_ident", "table": "pick_table_ident", "list": "pick_col_ident_list",
      "sanitize": "_sanitize_ident", "add_suffix": "_add_suffix", "maybe_add_suffix": "_maybe_add_suffix",
      "gen": "_gen_ident"}
CALL_TIMEOUT_S = 3.0
MAX_HANGS = 3


# --------------------------------------------------------------------------- parameters
def norm(x):
  """The parameter of the model: first lines of identifiers._sanitize_ident (reimplemented)."""
  s = u"" if x is None else str(x)
  s = unicodedata.normalize('NFKD', s)
  return u"".join(c for c in s if not unicodedata.combining(c))


def cps(s):
  return [ord(c) for c in s]


def upper_set(avoid):
  """The parameter `_uppercase(avoid)`; sorted for a canonical wire form."""
  return sorted({a.upper() for a in avoid})


# --------------------------------------------------------------------------- oracle
def is_valid_name(s, table):
  """'already valid' in the property's sense (interpretation above)."""
  return (isinstance(s, str) and SHAPE.match(s) is not None and not keyword.iskeyword(s)
          and (not table or 'A' <= s[0] <= 'Z'))


def check_one(kind, requested, existing_upper, r, table, keep_rule=True):
  """Clauses for ONE chosen id `r` against the upper-cased existing names.
  Returns None or (signature, detail)."""
  if not isinstance(r, str):
    return ("%s: result is not a string" % kind, "got %r" % (r,))
  if not r.isidentifier():
    return ("%s: result is not a Python identifier" % kind, "got %r" % (r,))
  if keyword.iskeyword(r):
    return ("%s: result is a Python keyword" % kind, "got %r" % (r,))
  if r[0] == '_' or r[0].isdigit():
    return ("%s: result starts with an underscore or digit" % kind, "got %r" % (r,))
  if not SHAPE.match(r):
    return ("%s: result is outside [A-Za-z][A-Za-z0-9_]*" % kind, "got %r" % (r,))
  if table and not ('A' <= r[0] <= 'Z'):
    return ("%s: table id does not start with an uppercase letter" % kind, "got %r" % (r,))
  if r.upper() in existing_upper:
    return ("%s: result equals an existing name case-insensitively" % kind,
            "got %r, existing (upper) %r" % (r, sorted(existing_upper)[:8]))
  if keep_rule and is_valid_name(requested, table) and requested.upper() not in existing_upper \
     and r != requested:
    return ("%s: valid unused requested name not kept" % kind, "requested %r got %r" % (requested, r))
  return None


def oracle(case, out):
  """Property clauses on the real output of one case.  None or (signature, detail)."""
  f = case["f"]
  ex = {a.upper() for a in case["avoid"]}
  if f == "col":
    return check_one("pick_col_ident", case["s"], ex, out, False)
  if f == "table":
    return check_one("pick_table_ident", case["s"], ex, out, True)
  if f == "list":
    if not isinstance(out, list) or len(out) != len(case["l"]):
      return ("pick_col_ident_list: wrong number of ids", "asked %d got %r" % (len(case["l"]), out))
    seen = set()
    for req, r in zip(case["l"], out):
      if isinstance(r, str) and r.upper() in seen:
        return ("pick_col_ident_list: two ids of one batch equal case-insensitively",
                "ids %r" % (out,))
      bad = check_one("pick_col_ident_list", req, ex | seen, r, False)
      if bad:
        return bad
      seen.add(r.upper())
    return None
  # helpers: no property clause of their own beyond what the public functions give, except that
  # the suffix helpers must avoid the (already upper-cased) set they are given.
  if f in ("add_suffix", "maybe_add_suffix", "gen"):
    if not isinstance(out, str):
      return ("%s: result is not a string" % FN[f], "got %r" % (out,))
    if out.upper() in set(case["avoid"]):
      return ("%s: result is in the avoid set" % FN[f], "got %r" % (out,))
  return None


# --------------------------------------------------------------------------- real code
class CallTimeout(Exception):
  pass


def _alarm(signum, frame):
  raise CallTimeout()


def call_real(identifiers, case):
  """Run the real function of one case; returns ('ok', value) | ('raise', name) | ('hang', None)."""
  f = case["f"]
  old = signal.signal(signal.SIGALRM, _alarm)
  signal.setitimer(signal.ITIMER_REAL, CALL_TIMEOUT_S)
  try:
    try:
      if f == "col":
        r = identifiers.pick_col_ident(case["s"], avoid=mk_avoid(case))
      elif f == "table":
        r = identifiers.pick_table_ident(case["s"], avoid=mk_avoid(case))
      elif f == "list":
        r = identifiers.pick_col_ident_list(list(case["l"]), avoid=mk_avoid(case))
      elif f == "sanitize":
        r = identifiers._sanitize_ident(case["s"], prefix=case["prefix"], capitalize=case["capitalize"])
      elif f == "add_suffix":
        r = identifiers._add_suffix(case["s"], set(case["avoid"]), case["next"])
      elif f == "maybe_add_suffix":
        r = identifiers._maybe_add_suffix(case["s"], set(case["avoid"]))
      elif f == "gen":
        r = identifiers._gen_ident(set(case["avoid"]))
      else:
        raise ValueError(f)
    finally:
      signal.setitimer(signal.ITIMER_REAL, 0)
    return ("ok", r)
  except CallTimeout:
    return ("hang", None)
  except Exception as e:      # pylint: disable=broad-except
    return ("raise", type(e).__name__)
  finally:
    signal.setitimer(signal.ITIMER_REAL, 0)
    signal.signal(signal.SIGALRM, old)


def mk_avoid(case):
  a = case["avoid"]
  form = case.get("avoid_form", "set")
  if form == "list":
    return list(a)
  if form == "frozenset":
    return frozenset(a)
  if form == "dict":
    return dict.fromkeys(a, 1)
  return set(a)


def model_op(case):
  f = case["f"]
  op = {"m": "identifiers", "op": f}
  if f in ("col", "table"):
    op["s"] = cps(norm(case["s"])); op["avoid"] = [cps(a) for a in upper_set(case["avoid"])]
  elif f == "list":
    op["l"] = [cps(norm(s)) for s in case["l"]]; op["avoid"] = [cps(a) for a in upper_set(case["avoid"])]
  elif f == "sanitize":
    op["s"] = cps(norm(case["s"])); op["prefix"] = cps(case["prefix"]); op["capitalize"] = case["capitalize"]
    op["avoid"] = []
  elif f == "add_suffix":
    op["s"] = cps(case["s"]); op["next"] = case["next"]; op["avoid"] = [cps(a) for a in sorted(set(case["avoid"]))]
  elif f == "maybe_add_suffix":
    op["s"] = cps(case["s"]); op["avoid"] = [cps(a) for a in sorted(set(case["avoid"]))]
  elif f == "gen":
    # _gen_ident upper-cases its (already upper-cased) argument once more: parameter
    op["avoid"] = [cps(a) for a in upper_set(case["avoid"])]
  return op


# --------------------------------------------------------------------------- generators
ASCII_POOL = list("abcxyzABCXYZ") + list("0123456789") + list("___") + list("  -.!/$")
UNI_POOL = [
  u"é", u"É", u"ñ", u"ü", u"Å", u"ç", u"ø",                 # accented Latin (ø has no decomposition)
  u"é", u"́", u"̈", u"̧", u"⃝",   # combining marks
  u"ﬁ", u"ﬂ", u"ﬀ", u"ǆ", u"Ǆ", u"ĳ",                        # ligatures / digraphs (NFKD -> ASCII letters)
  u"１", u"２", u"９", u"０", u"①", u"²", u"½", u"٣", u"৪",     # full-width / other digits
  u"Ａ", u"ｚ", u"＿",                                         # full-width letters and underscore
  u"ı", u"İ", u"ß", u"ẞ", u"ŉ", u"ǰ", u"K", u"Ω", u"µ", u"ſ",   # case-mapping oddities
  u"中", u"文", u"日本", u"한", u"ﾊ", u"㌀", u"㍿",              # CJK (㌀, ㍿ decompose to several chars)
  u"😀", u"👍🏽", u"🇫🇷", u"‍", u" ", u"　", u"\t", u"\n", u"\x00", u"\x7f",
  u"\ud800", u"\udfff",                                       # lone surrogates
  u"Ω", u"π", u"я", u"Я", u"א", u"ع", u"ﷺ",
]
WORDS = (list(keyword.kwlist) + [k.capitalize() for k in keyword.kwlist] + [k.upper() for k in keyword.kwlist] +
         ["none", "true", "false", "match", "case", "type", "_", "print", "Table", "Table1", "table2",
          "A", "B", "Z", "AA", "AZ", "ZZ", "AAA", "c", "T", "cif", "Tif", "TNone", "cclass", "id",
          "manualSort", "gristHelper_Display", "Name", "name", "NAME", "Első oszlop", "名前", "Prénom",
          "straße", "STRASSE", "fi", "ﬁ", "KelvinK", "x1", "x1_", "x1_2", "x_1", "9lives", "__init__",
          "_private", "a b", "a  b", "a__b", "a_-_b", "-a-", " a ", "a\n", "1", "12", "1_", "_1", "é", "é"])


def rand_text(rng):
  k = rng.random()
  if k < 0.10:
    return rng.choice(WORDS)
  if k < 0.16:
    return rng.choice(WORDS) + rng.choice(["", " ", "_", "1", "2", "_2", u"é", u"́", u"２"])
  if k < 0.20:
    return rng.choice(["", " ", "_", "__", "___", "-", u"́", u"中", u"😀", u"ß", u"ı"]) * rng.randint(0, 3)
  if k < 0.34:
    # an already valid name (the "kept as is" clause): [A-Za-z][A-Za-z0-9_]*
    n = rng.choice([1, 1, 2, 3, 4, 6, 9])
    return rng.choice("abkstxABKTZ") + "".join(rng.choice("abiknstxABKXZ0129__") for _ in range(n - 1))
  n = rng.choice([1, 1, 2, 2, 3, 4, 5, 6, 8, 12])
  style = rng.random()
  out = []
  for _ in range(n):
    if style < 0.35:
      out.append(rng.choice(ASCII_POOL))
    elif style < 0.55:
      out.append(rng.choice(UNI_POOL))
    elif style < 0.62:
      out.append(chr(rng.choice([rng.randrange(0, 0x300), rng.randrange(0x300, 0x3000),
                                 rng.randrange(0x3000, 0x11000), rng.randrange(0, 0x110000)])))
    else:
      out.append(rng.choice(ASCII_POOL + UNI_POOL))
  return u"".join(out)


def rand_request(rng):
  k = rng.random()
  if k < 0.03:
    return None
  if k < 0.05:
    return rng.choice([0, 7, 42, -3, 2020])
  return rand_text(rng)


def case_variant(rng, s):
  k = rng.random()
  if k < 0.25:
    return s
  if k < 0.45:
    return s.upper()
  if k < 0.65:
    return s.lower()
  if k < 0.8:
    return s.swapcase()
  if k < 0.9:
    return s.title()
  # a non-ASCII name with the same upper-case form (ß->SS, ı->I, ﬁ->FI, ſ->S, ŉ->ʼN)
  t = s.lower().replace("ss", u"ß", 1).replace("fi", u"ﬁ", 1)
  if rng.random() < 0.5:
    t = t.replace("i", u"ı", 1).replace("s", u"ſ", 1)
  if rng.random() < 0.3:
    t = t.replace("k", u"\u212a", 1)     # KELVIN SIGN: upper() is itself, lower()/casefold() is 'k'
  return t


LETTERS = [chr(65 + i) for i in range(26)]
LETTERS2 = [a + b for a in LETTERS for b in LETTERS]


def rand_avoid(rng, prev, hint=None):
  """Existing names: mostly previous outputs in varying case; sometimes whole runs X, X2, X3 ...
  (long suffix loops), the complete A..Z / AA..ZZ blocks (multi-letter _gen_ident), non-ASCII."""
  av = set()
  k = rng.random()
  if prev and k < 0.75:
    for p in rng.sample(prev, min(len(prev), rng.choice([1, 1, 2, 3, 5, 8]))):
      av.add(case_variant(rng, p))
  if hint is not None and rng.random() < 0.5:
    base = hint
    av.add(case_variant(rng, base))
    m = rng.choice([0, 1, 2, 3, 5, 11, 30])
    b2 = base + "_" if base[-1:].isdigit() else base
    for i in range(2, 2 + m):
      if rng.random() < 0.93:
        av.add(case_variant(rng, "%s%d" % (b2, i)))
  if rng.random() < 0.25:
    m = rng.choice([1, 3, 25, 26, 26, 27, 30])
    av.update(case_variant(rng, x) for x in LETTERS[:m])
    if m > 26:
      av.update(LETTERS2[:rng.choice([1, 2, 26, 27, 676])])
      if rng.random() < 0.3:
        av.update(LETTERS2); av.update(["AAA", "aab", "AAD"])
  if rng.random() < 0.2:
    m = rng.choice([1, 2, 3, 9, 10, 11, 12])
    av.update(case_variant(rng, "Table%d" % i) for i in range(1, m + 1))
  for _ in range(rng.choice([0, 0, 1, 2])):
    av.add(rand_text(rng))
  return sorted(av, key=lambda x: [ord(c) for c in x])


def gen_cases(ck, n_random):
  rng = ck.rng
  prev = []            # previous OUTPUTS are appended by the caller through `feed`
  cases = []

  def hint_for(req, table):
    # what the request would become with an empty avoid set, computed by a tiny independent
    # approximation (only used to aim the avoid set at the interesting collisions)
    t = re.sub(r'[^a-zA-Z0-9_]+', '_', norm(req)).lstrip('_')
    if not t:
      return "Table" if table else None
    if t[0].isdigit():
      t = ("T" if table else "c") + t
    if table:
      t = t[0].upper() + t[1:]
    return t

  for _ in range(n_random):
    k = rng.random()
    forms = rng.choice(["set"] * 7 + ["list", "frozenset", "dict"])
    if k < 0.36:
      s = rand_request(rng)
      cases.append({"f": "col", "s": s, "avoid": rand_avoid(rng, prev, hint_for(s, False)), "avoid_form": forms})
    elif k < 0.66:
      s = rand_request(rng)
      cases.append({"f": "table", "s": s, "avoid": rand_avoid(rng, prev, hint_for(s, True)), "avoid_form": forms})
    elif k < 0.86:
      n = rng.choice([0, 1, 2, 2, 3, 3, 4, 6, 10])
      l = []
      for _i in range(n):
        if l and rng.random() < 0.4:
          x = rng.choice(l)
          l.append(case_variant(rng, x) if isinstance(x, str) else None)
        else:
          l.append(rand_request(rng))
      l = [x if not (isinstance(x, str) and rng.random() < 0.1) else x + rng.choice(["2", "_2", "3"]) for x in l]
      h = hint_for(l[0], False) if l else None
      cases.append({"f": "list", "l": l, "avoid": rand_avoid(rng, prev, h), "avoid_form": forms})
    elif k < 0.91:
      pre = "".join(rng.choice("cTx9_Zq") for _ in range(rng.choice([1, 1, 1, 2, 3])))
      s = rand_request(rng)
      if rng.random() < 0.15:
        pre = ""     # empty prefix: the real loop hangs iff the sanitised text is a keyword; avoid that
        t = hint_for(s, False) or ""
        if keyword.iskeyword(t) or keyword.iskeyword(t[:1].upper() + t[1:]):
          pre = "c"
      cases.append({"f": "sanitize", "s": s, "prefix": pre, "capitalize": rng.random() < 0.5, "avoid": []})
    else:
      base = rng.choice(["Table", "a", "A1", "x_", "c9", "Tif", "zz9_", "B"] + (prev[-5:] if prev else []))
      up = base.upper() + ("_" if base[-1:].isdigit() else "")
      st = rng.choice([1, 2, 2, 3, 9, 10, 99])
      m = rng.choice([0, 1, 2, 5, 12, 40])
      av = {"%s%d" % (up, i) for i in range(st, st + m) if rng.random() < 0.95}
      if rng.random() < 0.5:
        av.add(base.upper())
      f = rng.choice(["add_suffix", "maybe_add_suffix", "gen"])
      if f == "gen":
        av = set(LETTERS[:rng.choice([0, 1, 25, 26])]) | set(LETTERS2[:rng.choice([0, 1, 30, 676])]) \
             | ({"AAA"} if rng.random() < 0.3 else set())
      cases.append({"f": f, "s": base, "next": st, "avoid": sorted(av)})
    yield cases[-1], prev


def exhaustive_cases(tier):
  """All strings up to length 3 (thorough: 4) over a small alphabet chosen to reach every branch:
  letters forming the keyword "if"/"in"/"is", an upper-case letter, a digit, '_', a separator, an
  accented letter, a ligature, a full-width digit, a combining mark."""
  alpha = [u"i", u"f", u"A", u"1", u"_", u" ", u"é", u"ﬁ", u"２", u"́"]
  maxlen = 3
  if tier == "thorough":
    alpha = alpha + [u"n", u"s"]
    maxlen = 4
  avoids = [[], ["IF", "A", "FI", "CIF", "TIF", "IF2", "C1", "T1", "TABLE1", "I", "AA"], ["if", "i", "a", "b", "c", "tif2"]]
  for n in range(0, maxlen + 1):
    for t in itertools.product(alpha, repeat=n):
      s = u"".join(t)
      for i, av in enumerate(avoids):
        if n == maxlen and tier == "thorough" and i == 2:
          continue
        yield {"f": "col", "s": s, "avoid": av}
        yield {"f": "table", "s": s, "avoid": av}


# --------------------------------------------------------------------------- main
def validate_parameters(ck):
  """The two assumptions under which the parameters are 'the same call the real code makes'."""
  bad_upper = [c for c in range(0x110000) if chr(c).upper().upper() != chr(c).upper()]
  bad_ascii = [c for c in range(128) if norm(chr(c)) != chr(c)]
  ck.obligations.append(("param:str.upper idempotent on all code points", not bad_upper,
                         "counterexamples %r" % bad_upper[:5] if bad_upper else ""))
  ck.obligations.append(("param:NFKD+combining-strip is the identity on ASCII", not bad_ascii,
                         "counterexamples %r" % bad_ascii[:5] if bad_ascii else ""))


def casefold_observation(ck, case, out):
  """Counted, not judged (see interpretation): non-ASCII existing name equal under casefold only."""
  outs = out if isinstance(out, list) else [out]
  for r in outs:
    if isinstance(r, str):
      for a in case["avoid"]:
        if not a.isascii() and a.casefold() == r.casefold() and a.upper() != r.upper():
          ck.count("casefold_only_collisions")


def classify(ck, case, out):
  f = case["f"]
  ck.count("f:" + f)
  reqs = case["l"] if f == "list" else [case.get("s")]
  outs = out if isinstance(out, list) else [out]
  nontriv = False
  for req, r in zip(reqs, outs):
    if not isinstance(r, str):
      continue
    if req is None:
      ck.count("in:None")
    elif not isinstance(req, str):
      ck.count("in:non-str object")
    elif req == "":
      ck.count("in:empty")
    elif not req.isascii():
      ck.count("in:non-ascii")
    if f in ("col", "table", "list"):
      if r != req:
        nontriv = True
        ck.count("out:changed")
      else:
        ck.count("out:kept")
      n = norm(req)
      if isinstance(req, str) and n != req:
        ck.count("br:normalisation changed text")
      t = re.sub(r'[^a-zA-Z0-9_]+', '_', n).lstrip('_')
      if not t:
        ck.count("br:nothing left -> generated name")
      elif t[0].isdigit():
        ck.count("br:leading digit -> prefix")
      if keyword.iskeyword(t) or (f == "table" and keyword.iskeyword(t[:1].upper() + t[1:])):
        ck.count("br:keyword -> prefix")
      if re.search(r'[0-9]_[0-9]+\Z', r) and not re.search(r'[0-9]_[0-9]+\Z', t or ""):
        ck.count("br:suffix after digit (x1 -> x1_2)")
      elif t and r.upper() != (("T" if f == "table" else "c") + t if t[0].isdigit() else t).upper() and len(r) > len(t):
        ck.count("br:numeric suffix")
      if len(r) >= 2 and r.isupper() and r.isalpha() and not t:
        ck.count("br:generated name with >= 2 letters")
  return nontriv


def canon_case(case):
  return {k: case[k] for k in sorted(case)}


def run_cases(ck, identifiers, cases_iter, feed=True):
  """Runs real code on every case (feeding outputs back to the generator), returns lists."""
  cases, outs = [], []
  hangs = 0
  for item in cases_iter:
    if isinstance(item, tuple):
      case, prev = item
    else:
      case, prev = item, None
    st, val = call_real(identifiers, case)
    cases.append(case); outs.append((st, val))
    if st == "hang":
      hangs += 1
      if hangs >= MAX_HANGS:      # every further hang costs CALL_TIMEOUT_S: enough evidence, stop here
        ck.count("stopped_after_hangs")
        break
    if prev is not None and st == "ok":
      for r in (val if isinstance(val, list) else [val]):
        if isinstance(r, str) and r:
          prev.append(r)
      if len(prev) > 60:
        del prev[:len(prev) - 60]
  return cases, outs


def judge(ck, cases, outs, model):
  mism = None
  for case, (st, val), mo in zip(cases, outs, model):
    ck.evaluated()
    rp = canon_case(case)
    if st == "hang":
      ck.violation("%s: call does not terminate" % FN[case["f"]], "no result within %ss" % CALL_TIMEOUT_S, rp)
      continue
    if st == "raise":
      ck.violation("%s: call raises %s" % (FN[case["f"]], val), "exception %s" % val, rp)
      continue
    bad = oracle(case, val)
    if bad:
      ck.violation(bad[0], bad[1] + " ; input %r" % (rp,), rp)
    else:
      casefold_observation(ck, case, val)
    if classify(ck, case, val):
      ck.nontrivial_case(rp)
      ck.sample({"case": rp, "result": val})
    if mo.get("r") != val:
      ck.count("model_impl_disagreements")
      if mism is None:
        mism = {"case": rp, "impl": val, "model": mo}
  return mism


def run(ck):
  from gx import translate
  import identifiers
  ck.rule = ("random requests (ASCII, accented Latin, CJK, emoji, combining marks, ligatures, full-width digits, "
             "case-mapping oddities, lone surrogates, keywords, None, ints) x avoid sets built from previous outputs "
             "in varying case, X/X2/X3.. runs, A..Z/AA..ZZ blocks and non-ASCII names, for pick_col_ident, "
             "pick_table_ident, pick_col_ident_list and the helpers; plus ALL strings of length <= 3 (thorough: <= 4) "
             "over a 10 (12)-symbol alphabet x 3 avoid sets; non-trivial = a public pick_* call whose result differs "
             "from the requested name (sanitised, keyword-prefixed, suffixed or generated); distinct by (function, "
             "request, avoid). Engine level: 16 fixed witnesses + generated documents (quick 9, thorough 80) of 3-4 "
             "tables, each taking ~8 actions that request 1-6 names at once (bulk tableId / raw-section title / colId / "
             "label updates, bundles of renames and adds, AddTable with colliding columns, summary-table renames, "
             "BulkAddRecord on the column metadata); non-trivial there = an action with two requests whose sanitised "
             "forms are case-insensitively equal, two empty requests, or a request equal to an existing id")
  ck.assumptions = [
    "requested names are str, None or objects with str(); existing names are str",
    "'case-insensitively' = equality of str.upper() forms (the code's comparison); identical to lower()/casefold() "
    "comparison for ASCII existing names",
    "model parameters: NFKD + combining-strip and str.upper are computed by the harness with the same stdlib calls; "
    "str.upper idempotent and NFKD identity on ASCII are re-validated over all code points every run",
    "keyword list = keyword.kwlist of the interpreter running the engine (regenerated every run)",
    "engine level (several names requested by one user action / bundle): judged by the direct oracle eng_judge ONLY "
    "(clauses evaluated on _grist_Tables / _grist_Tables_column, Engine.tables, Engine.schema and fetch_table after "
    "the action); the engine's bookkeeping of names already picked within an action (avoid_tableid_set, "
    "avoid_colid_set, _pick_col_name) is NOT modelled in Lean - the tie there compares each chosen id with the model's "
    "pick_table_ident / pick_col_ident / pick_col_ident_list for an avoid set rebuilt by the harness (state before the "
    "action + ids the engine actually chose for the earlier members), and is skipped on documents with summary tables",
    "engine level: requests are str or None; documents have 3-4 user tables with Text/Ref/formula columns and two rows; "
    "'kept as is' = valid, unused in its scope before the action and not the id of anything else after it; a column "
    "name picked for another table in the same action counts as picked (counted as over-avoidance, not judged)",
  ]
  kws = translate.gen_keywords()
  ck.lean(["GristProps.C21"])
  validate_parameters(ck)

  # keyword list and the letter sequence, model vs Python
  pre = ck.driver([{"m": "identifiers", "op": "keywords"}, {"m": "identifiers", "op": "letters", "n": 1500}])
  ok_kw = pre[0].get("strings") == kws == list(keyword.kwlist) and pre[0].get("chars") == kws
  ck.obligations.append(("tie:Generated.pyKeywords == keyword.kwlist", ok_kw, "" if ok_kw else repr(pre[0])[:300]))
  ref_letters = list(itertools.islice(
    ("".join(t) for n in itertools.count(1) for t in itertools.product("ABCDEFGHIJKLMNOPQRSTUVWXYZ", repeat=n)), 1500))
  real_letters = list(itertools.islice(identifiers._make_letters(), 1500))
  ok_l = pre[1].get("r") == real_letters
  ck.obligations.append(("tie:letters n == identifiers._make_letters()[n], n < 1500", ok_l, ""))
  # (the sequence itself is not a clause of C21: a different sequence is a correspondence break,
  #  reported through the 'tie:letters' obligation; its consequences for the property - a generated
  #  name that collides or is invalid - are caught by the oracle on pick_col_ident below)
  ck.obligations.append(("tie:_make_letters() is A..Z, AA..ZZ, AAA.. (independent reference)",
                         real_letters == ref_letters, ""))

  n_random = 12000 if ck.tier == "quick" else 300000
  cases, outs = run_cases(ck, identifiers, gen_cases(ck, n_random))
  c2, o2 = run_cases(ck, identifiers, exhaustive_cases(ck.tier))
  ck.count("exhaustive_small_scope_cases", len(c2))
  cases += c2; outs += o2
  model = driver_parallel(ck, [model_op(c) for c in cases])
  mism = judge(ck, cases, outs, model)
  if mism and not ck.has_impl_violation():
    ck.broken("correspondence identifiers.py vs Grist.Identifiers",
              "model and implementation differ and the property's clauses hold on all explored inputs", mism)
  engine_level(ck)


def driver_parallel(ck, ops):
  """ck.driver in chunks (several driver processes at once in the thorough tier)."""
  if len(ops) <= 60000:
    return ck.driver(ops)
  from concurrent.futures import ThreadPoolExecutor
  chunks = [ops[i:i + 40000] for i in range(0, len(ops), 40000)]
  with ThreadPoolExecutor(max_workers=6) as ex:
    res = list(ex.map(ck.driver, chunks))
  return [r for chunk in res for r in chunk]


# --------------------------------------------------------------------------- engine level
# Several names requested by ONE user action / bundle (the engine-side bookkeeping of "names already
# picked within this action": useractions._updateTableRecords `avoid_tableid_set`,
# _updateColumnRecords `avoid_colid_set`, doAddTable's pick_col_ident_list, _pick_col_name).
# Everything below is judged by the DIRECT ORACLE `eng_judge` (the property's clauses on the
# metadata / engine state after the action); the Lean model takes part only through the per-step
# tie `eng_tie_ops` (one model pick per requested name, the avoid set rebuilt by the harness).
ENG_TABLE_POOL = ["Alpha", "Beta", "Other", "Report", "Report2", "Sales_2024", "Table1", "Gamma", "T5", "If",
                  "Data", "A", "My_table"]
ENG_COL_POOL = ["a", "b", "c", "x_y", "X_y2", "name", "Name2", "A", "q", "c5", "total", "If", "label"]
ENG_BASES = ["Report", "Sales 2024", "gamma", "Table1", "Table", "class", "if", "None", "1st", "x1", "A", u"é",
             u"straße", u"中", u"", "a b", "Name", "id", "manualSort", "group", "T", "c", u"Első oszlop", "2024",
             "fi", "X_y", "total_", "Data Set", "my table", "Q"]
ENG_TABLE_FAMILIES = ("bulk_tableId", "bulk_title", "bundle_RenameTable", "bundle_AddTable")
ENG_COL_FAMILIES = ("bulk_colId", "bulk_label", "bundle_RenameColumn", "bundle_AddColumn", "AddTable_cols")
KNOWN_META_ADD = ("engine/meta_add_cols: BulkAddRecord on _grist_Tables_column stores the requested colIds verbatim "
                  "and creates no column (no sanitising, no disambiguation, no schema action)")


def approx_ident(req, table):
  """What a request becomes with an empty avoid set (independent approximation; used only to aim
  the generator at collisions and to COUNT the situations exercised, never to judge)."""
  t = re.sub(r'[^a-zA-Z0-9_]+', '_', norm(req)).lstrip('_')
  if not t:
    return None
  if t[0].isdigit():
    t = ("T" if table else "c") + t
  if table:
    t = t[0].upper() + t[1:]
  while keyword.iskeyword(t):
    t = ("T" if table else "c") + t
  return t


def eng_variant(rng, base):
  """A request that (mostly) sanitises to the same identifier as `base`, or to a case variant of it,
  or to the id the suffix loop would pick next (base2)."""
  b = u"" if base is None else base
  k = rng.random()
  if k < 0.22:
    return base
  if k < 0.42:
    return case_variant(rng, b)
  if k < 0.52:
    return b.replace("_", " ") if "_" in b else re.sub(r"[ \-./]+", "_", b)
  if k < 0.60:
    return rng.choice([" ", "_", "-", "  ", "__", "\t"]) + b          # leading junk is stripped
  if k < 0.68:
    return (b[:1] + u"́" + b[1:]) if b else b                     # combining mark is stripped
  if k < 0.74:
    for i, c in enumerate(b):
      if c.isascii() and c.isalnum():
        return b[:i] + chr(ord(c) + 0xFEE0) + b[i + 1:]                 # full-width form, NFKD -> ASCII
    return b
  if k < 0.84:
    return b + rng.choice(["2", "_2", "3", "2", "1"])                   # the name the suffix loop wants next
  if k < 0.90:
    return re.sub(r"[^A-Za-z0-9]+", lambda m: rng.choice(["-", ".", "/", "  ", "$"]), b)
  return base


def eng_reqs(rng, k, existing, olds):
  """k requested names aimed at colliding with each other (and sometimes with existing ids / with the
  old ids of the other members of the batch).  str or None only (the user-action API's types)."""
  r = rng.random()
  if r < 0.15 and existing:
    base = rng.choice(existing)
  elif r < 0.25 and olds:
    base = rng.choice(olds)
  elif r < 0.78:
    base = rng.choice(ENG_BASES)
  else:
    base = rand_request(rng)
    if base is not None and not isinstance(base, str):
      base = str(base)
  out = []
  for _ in range(k):
    q = rng.random()
    if q < 0.78:
      out.append(eng_variant(rng, base))
    elif q < 0.86:
      out.append(rand_text(rng))
    elif q < 0.90:
      out.append(None)
    else:
      pool = list(existing) + list(olds)
      out.append(case_variant(rng, rng.choice(pool)) if pool else base)
  return out


def eng_colinfo(cid, typ="Text", formula="", is_formula=False):
  return {"id": cid, "type": typ, "isFormula": is_formula, "formula": formula}


def eng_pick_distinct(rng, pool, n):
  out, seen = [], set()
  for x in rng.sample(pool, len(pool)):
    if x.upper() not in seen:
      out.append(x); seen.add(x.upper())
    if len(out) == n:
      break
  return out


def eng_build(rng, summary=False):
  """History prefix (list of bundles) creating 3-4 small tables with data, a Ref column, a formula."""
  nt = rng.choice([3, 3, 4])
  tids = eng_pick_distinct(rng, ENG_TABLE_POOL, nt)
  bundle = []
  for i, tid in enumerate(tids):
    cids = eng_pick_distinct(rng, ENG_COL_POOL, rng.choice([2, 3, 3]))
    cols = [eng_colinfo(c) for c in cids]
    if i > 0 and rng.random() < 0.5:
      cols.append(eng_colinfo("r", "Ref:" + tids[i - 1]))
    if rng.random() < 0.4:
      cols.append(eng_colinfo("f", "Any", "$" + cids[0], True))
    bundle.append(["AddTable", tid, cols])
    bundle.append(["BulkAddRecord", tid, [None, None],
                   {c: ["%s.%s.%d" % (tid, c, j) for j in (1, 2)] for c in cids}])
  hist = [bundle]
  if summary:
    # a summary table of the first table grouped by its first data column (column ref 2)
    hist.append([["CreateViewSection", 1, 0, "record", [2], None]])
  return hist


def eng_observe(doc):
  """Metadata + engine view of the names and the data, read through the engine's public reads."""
  from gx import engine_driver as ed
  o = {"tables": {}, "cols": {}, "data": {}, "unreachable": []}
  for r in doc.meta("_grist_Tables"):
    o["tables"][int(r["id"])] = {"id": r["tableId"], "summary": int(r["summarySourceTable"] or 0),
                                 "raw": int(r["rawViewSectionRef"] or 0)}
  for r in doc.meta("_grist_Tables_column"):
    o["cols"][int(r["id"])] = {"t": int(r["parentId"] or 0), "id": r["colId"], "label": r["label"],
                               "isFormula": bool(r["isFormula"]),
                               "summarySourceCol": int(r["summarySourceCol"] or 0)}
  o["engine_tables"] = sorted(doc.engine.tables.keys())
  for tref, t in o["tables"].items():
    try:
      td = doc.engine.fetch_table(t["id"], formulas=False)
    except Exception as e:      # pylint: disable=broad-except
      o["unreachable"].append([tref, t["id"], type(e).__name__])
      continue
    rows = list(td.row_ids)
    for cref, c in o["cols"].items():
      if c["t"] == tref and not c["isFormula"] and c["id"] != "manualSort" and c["id"] in td.columns:
        o["data"][cref] = [rows, [ed.tokv(v) for v in td.columns[c["id"]]]]
  o["schema_engine"] = doc.engine_schema()
  try:
    o["schema_meta"] = doc.meta_schema()
  except Exception as e:        # pylint: disable=broad-except
    o["schema_meta"] = {"<error>": type(e).__name__}
  return o


def eng_user_tables(obs, summary=False):
  return [ref for ref, t in sorted(obs["tables"].items()) if bool(t["summary"]) == summary]


def eng_table_cols(obs, tref, pickable=False):
  out = []
  for cref, c in sorted(obs["cols"].items()):
    if c["t"] != tref:
      continue
    if pickable and (c["id"] == "manualSort" or not isinstance(c["id"], str) or c["id"].startswith("gristHelper_")
                     or c["summarySourceCol"]):
      continue
    out.append(cref)
  return out


def eng_gen_step(rng, obs, family):
  """One user action / bundle requesting several names at once.  Returns a step dict or None."""
  tabs = eng_user_tables(obs)
  tids = [obs["tables"][r]["id"] for r in tabs]
  all_tids = [t["id"] for t in obs["tables"].values() if isinstance(t["id"], str)]
  kk = lambda n: max(1, min(n, rng.choice([1, 2, 2, 2, 3, 3, 4])))
  if family in ("bulk_tableId", "bulk_title", "bundle_RenameTable", "bulk_tableId_summary"):
    if not tabs:
      return None
    refs = rng.sample(tabs, kk(len(tabs)))
    sums = [t for t in obs["tables"].values() if t["summary"]]
    if family == "bulk_tableId_summary" and sums and len(tabs) >= 2:
      src_ref = sums[0]["summary"]
      refs = [src_ref] + [r for r in refs if r != src_ref]
      if len(refs) < 2:
        refs.append(rng.choice([r for r in tabs if r != src_ref]))
      rng.shuffle(refs)
    olds = [obs["tables"][r]["id"] for r in refs]
    reqs = eng_reqs(rng, len(refs), [t for t in all_tids if t not in olds], olds)
    if family == "bulk_tableId_summary":
      # aim at the ids the summary tables of the renamed sources will want
      sums = [t for t in sums if t["summary"] in refs]
      if sums and len(refs) >= 2:
        st = sums[0]
        i = refs.index(st["summary"])
        gb = sorted(c["id"] for c in obs["cols"].values()
                    if c["summarySourceCol"] and obs["tables"].get(c["t"]) is st)
        base = approx_ident(reqs[i], True) or "Table1"
        j = (i + 1) % len(refs)
        reqs[j] = eng_variant(rng, base + "_summary" + "".join("_" + g for g in gb))
      family_out = "bulk_tableId"
    else:
      family_out = family
    if family in ("bulk_tableId", "bulk_tableId_summary"):
      bundle = [["BulkUpdateRecord", "_grist_Tables", refs, {"tableId": reqs}]]
    elif family == "bulk_title":
      bundle = [["BulkUpdateRecord", "_grist_Views_section", [obs["tables"][r]["raw"] for r in refs], {"title": reqs}]]
    else:
      bundle = [["RenameTable", o, q] for o, q in zip(olds, reqs)]
    members = [{"k": "table", "ref": r, "req": q} for r, q in zip(refs, reqs)]
    return {"family": family_out, "bundle": bundle, "members": members}
  if family == "bundle_AddTable":
    n = rng.choice([2, 2, 3])
    reqs = eng_reqs(rng, n, all_tids, [])
    bundle = [["AddTable", q, [eng_colinfo("a"), eng_colinfo("b")]] for q in reqs]
    return {"family": family, "bundle": bundle, "members": [{"k": "table", "ref": None, "req": q} for q in reqs]}
  if family == "AddTable_cols":
    n = rng.choice([2, 3, 3, 4, 6])
    tq = eng_reqs(rng, 1, all_tids, [])[0]
    reqs = eng_reqs(rng, n, ["id", "manualSort"], [])
    bundle = [["AddTable", tq, [eng_colinfo(q) for q in reqs]]]
    members = [{"k": "table", "ref": None, "req": tq}] + [{"k": "col", "ref": None, "req": q} for q in reqs]
    return {"family": family, "bundle": bundle, "members": members}
  # column families on existing tables
  cands = [r for r in tabs if len(eng_table_cols(obs, r, True)) >= 1]
  if not cands:
    return None
  t1 = rng.choice(cands)
  crefs = eng_table_cols(obs, t1, True)
  existing = [obs["cols"][c]["id"] for c in eng_table_cols(obs, t1)] + ["id"]
  if family in ("bulk_colId", "bulk_label", "bundle_RenameColumn"):
    refs = rng.sample(crefs, kk(len(crefs)))
    if family != "bundle_RenameColumn" and len(cands) > 1 and rng.random() < 0.3:
      t2 = rng.choice([r for r in cands if r != t1])      # the same action renames columns of two tables
      c2 = eng_table_cols(obs, t2, True)
      refs += rng.sample(c2, min(len(c2), rng.choice([1, 2])))
      rng.shuffle(refs)
    olds = [obs["cols"][c]["id"] for c in refs]
    reqs = eng_reqs(rng, len(refs), [e for e in existing if e not in olds], olds)
    if family == "bulk_colId":
      bundle = [["BulkUpdateRecord", "_grist_Tables_column", refs, {"colId": reqs}]]
    elif family == "bulk_label":
      reqs = [u"" if q is None else q for q in reqs]
      bundle = [["BulkUpdateRecord", "_grist_Tables_column", refs, {"label": reqs}]]
    else:
      bundle = [["RenameColumn", obs["tables"][obs["cols"][c]["t"]]["id"], o, q] for c, o, q in zip(refs, olds, reqs)]
    members = [{"k": "col", "ref": c, "req": q} for c, q in zip(refs, reqs)]
    return {"family": family, "bundle": bundle, "members": members}
  n = rng.choice([2, 2, 3, 4])
  reqs = eng_reqs(rng, n, existing, [])
  tid = obs["tables"][t1]["id"]
  if family == "bundle_AddColumn":
    bundle = [[rng.choice(["AddColumn", "AddColumn", "AddVisibleColumn", "AddHiddenColumn"]), tid, q,
               {"type": "Text", "isFormula": False}] for q in reqs]
    return {"family": family, "bundle": bundle,
            "members": [{"k": "col", "ref": None, "t": t1, "req": q} for q in reqs]}
  if family == "meta_add_cols":
    reqs = [u"" if q is None else q for q in reqs]
    bundle = [["BulkAddRecord", "_grist_Tables_column", [None] * n,
               {"parentId": [t1] * n, "colId": reqs, "type": ["Text"] * n}]]
    return {"family": family, "bundle": bundle,
            "members": [{"k": "col", "ref": None, "t": t1, "req": q} for q in reqs]}
  raise ValueError(family)


def eng_resolve(step, after, res):
  """Fill in, for every member, the id the engine chose (`chosen`), its scope (`scope`: 'T' or the
  table ref for a column) and the record ref.  Returns a problem string if the results cannot be
  matched to the requests."""
  fam = step["family"]
  ret = res.ret
  try:
    if fam == "bundle_AddTable":
      for m, r in zip(step["members"], ret):
        m["ref"] = int(r["id"])
    elif fam == "bundle_AddColumn":
      for m, r in zip(step["members"], ret):
        m["ref"] = int(r["colRef"])
    elif fam == "meta_add_cols":
      for m, r in zip(step["members"], ret[0]):
        m["ref"] = int(r)
    elif fam == "AddTable_cols":
      r = ret[0]
      step["members"][0]["ref"] = int(r["id"])
      new = [c for c in sorted(after["cols"]) if after["cols"][c]["t"] == int(r["id"])][1:]   # [0] is manualSort
      if len(new) != len(step["members"]) - 1 or len(r["columns"]) != len(new):
        return "AddTable created %d column records for %d requested columns" % (len(new), len(step["members"]) - 1)
      for m, c, cid in zip(step["members"][1:], new, r["columns"]):
        m["ref"] = c
        m["ret_id"] = cid
  except (TypeError, KeyError, IndexError, ValueError) as e:
    return "return values %r do not describe the created records (%s)" % (ret, type(e).__name__)
  for m in step["members"]:
    recs = after["tables"] if m["k"] == "table" else after["cols"]
    rec = recs.get(m["ref"])
    if rec is None:
      return "record %s #%r is missing after the action" % (m["k"], m["ref"])
    m["chosen"] = rec["id"]
    m["scope"] = "T" if m["k"] == "table" else rec["t"]
    if "ret_id" in m and m["ret_id"] != m["chosen"]:
      return "AddTable returned column id %r but the metadata says %r" % (m["ret_id"], m["chosen"])
  return None


def eng_judge(step, before, after, res):
  """The property's clauses on the state after ONE action/bundle that requested several names.
  Written against metadata + engine reads only (no model).  Returns [(signature, detail)]."""
  fam = step["family"]
  P = "engine/%s: " % fam
  reqs = [m["req"] for m in step["members"]]
  if not res.ok:
    # every batch of the generated kinds can be satisfied (a free name always exists)
    return [(P + "satisfiable request rejected (%s)" % res.error[0],
             "requested %r -> %s: %s" % (reqs, res.error[0], res.error[1]))]
  bad = eng_resolve(step, after, res)
  if bad:
    return [(P + "created/renamed records cannot be matched to the requests", bad)]
  members = step["members"]
  if fam == "meta_add_cols":
    # recorded finding (narrow): ids stored verbatim and no column exists in the engine
    verbatim = all(m["chosen"] == m["req"] for m in members)
    tid = after["tables"][members[0]["t"]]["id"]
    have = set(after["schema_engine"].get(tid, {}))
    had = set(before["schema_engine"].get(tid, {}))
    if verbatim and have == had:
      return [(KNOWN_META_ADD, "requested %r on table %r: metadata colIds now %r, engine columns %r" % (
        reqs, tid, [after["cols"][c]["id"] for c in eng_table_cols(after, members[0]["t"])], sorted(have)))]
  out = []
  # ---- validity and case-insensitive uniqueness of EVERY id in the two scopes
  tids = [(ref, t["id"]) for ref, t in sorted(after["tables"].items())]
  seen = {}
  for ref, tid in tids:
    b = check_one("table id", None, set(), tid, True, keep_rule=False)
    if b:
      out.append((P + b[0], b[1] + " (table #%d; requested %r)" % (ref, reqs)))
      continue
    if tid.upper() in seen:
      out.append((P + "two table ids equal case-insensitively after one action",
                  "tables #%d %r and #%d %r; requested %r" % (seen[tid.upper()], after["tables"][seen[tid.upper()]]["id"],
                                                            ref, tid, reqs)))
    seen.setdefault(tid.upper(), ref)
  for tref in sorted(after["tables"]):
    seen = {"ID": 0}
    for cref in eng_table_cols(after, tref):
      cid = after["cols"][cref]["id"]
      b = check_one("column id", None, set(), cid, False, keep_rule=False)
      if b:
        out.append((P + b[0], b[1] + " (column #%d of table %r; requested %r)" % (cref, after["tables"][tref]["id"], reqs)))
        continue
      if cid.upper() in seen:
        o = seen[cid.upper()]
        out.append((P + "two column ids of one table equal case-insensitively after one action",
                    "table %r: column #%d %r and %s; requested %r" % (
                      after["tables"][tref]["id"], cref, cid,
                      "the built-in 'id'" if o == 0 else "#%d %r" % (o, after["cols"][o]["id"]), reqs)))
      seen.setdefault(cid.upper(), cref)
  if out:
    return out
  # ---- metadata and engine agree on the names; the data is reachable under the new names
  meta_user = sorted(t["id"] for t in after["tables"].values())
  eng_user = [t for t in after["engine_tables"] if not t.startswith("_grist_")]
  if meta_user != eng_user:
    out.append((P + "engine tables differ from the table ids in the metadata",
                "engine %r metadata %r; requested %r" % (eng_user, meta_user, reqs)))
  elif after["schema_engine"] != after["schema_meta"]:
    d = [t for t in sorted(set(after["schema_engine"]) | set(after["schema_meta"]))
         if after["schema_engine"].get(t) != after["schema_meta"].get(t)]
    out.append((P + "engine schema differs from the schema described by the metadata",
                "tables %r: engine columns %r, metadata columns %r; requested %r" % (
                  d[:3], [sorted(after["schema_engine"].get(t, {})) for t in d[:3]],
                  [sorted(after["schema_meta"].get(t, {})) for t in d[:3]], reqs)))
  if after["unreachable"]:
    out.append((P + "a table cannot be fetched under the id in its metadata record",
                "%r; requested %r" % (after["unreachable"], reqs)))
  for ref in before["tables"]:
    if ref not in after["tables"]:
      out.append((P + "a table record disappeared", "table #%d %r" % (ref, before["tables"][ref]["id"])))
  for cref, dat in sorted(before["data"].items()):
    if cref not in after["cols"]:
      out.append((P + "a column record disappeared", "column #%d %r" % (cref, before["cols"][cref]["id"])))
    elif after["data"].get(cref) != dat and not after["unreachable"]:
      out.append((P + "data of a column is not reachable under its id after the action",
                  "column #%d: was %r (table #%d) with cells %r, now id %r with cells %r; requested %r" % (
                    cref, before["cols"][cref]["id"], before["cols"][cref]["t"], dat[1][:3],
                    after["cols"][cref]["id"], (after["data"].get(cref) or [None, None])[1], reqs)))
      break
  # ---- frame: ids nobody asked to change stay (summary tables / their columns follow their source)
  mt = {m["ref"] for m in members if m["k"] == "table"}
  mc = {m["ref"] for m in members if m["k"] == "col"}
  for ref, t in before["tables"].items():
    a = after["tables"].get(ref)
    if a and ref not in mt and not t["summary"] and a["id"] != t["id"]:
      out.append((P + "id of a table that was not part of the request changed", "table #%d %r -> %r; requested %r" % (
        ref, t["id"], a["id"], reqs)))
  for cref, c in before["cols"].items():
    a = after["cols"].get(cref)
    if a and cref not in mc and not before["tables"][c["t"]]["summary"] and not c["summarySourceCol"] \
       and a["id"] != c["id"]:
      out.append((P + "id of a column that was not part of the request changed", "column #%d %r -> %r; requested %r" % (
        cref, c["id"], a["id"], reqs)))
  # ---- a valid, unused requested name is kept (unless another member of the batch got it)
  all_chosen = [m["chosen"] for m in members]
  for i, m in enumerate(members):
    req, table = m["req"], m["k"] == "table"
    if not is_valid_name(req, table):
      continue
    old = None
    if m["ref"] in (before["tables"] if table else before["cols"]):
      old = (before["tables"] if table else before["cols"])[m["ref"]]["id"]
    if table:
      used = [t["id"] for r, t in before["tables"].items() if r != m["ref"]] + before["engine_tables"]
    else:
      used = ["id"] + [c["id"] for r, c in before["cols"].items() if r != m["ref"] and (
        c["t"] == m["scope"] or before["tables"].get(c["t"], {}).get("summary") == m["scope"])]
    used_u = {u.upper() for u in used if isinstance(u, str)}
    if old is not None and old != req and old.upper() == req.upper():
      used_u.discard(old.upper())
    # ids chosen for the other members of the action (whatever their table: the engine carries ONE set of
    # picked names through the action) and every other id of the scope after the action (summary tables of
    # a renamed source are renamed in the same action)
    others = {c.upper() for j, c in enumerate(all_chosen) if j != i and isinstance(c, str)}
    if table:
      others |= {t["id"].upper() for r, t in after["tables"].items() if r != m["ref"] and isinstance(t["id"], str)}
    else:
      others |= {c["id"].upper() for r, c in after["cols"].items() if r != m["ref"] and isinstance(c["id"], str) and (
        c["t"] == m["scope"] or after["tables"].get(c["t"], {}).get("summary") == m["scope"])}
    if req.upper() in used_u or req.upper() in others:
      continue
    if m["chosen"] != req:
      out.append((P + "valid unused requested name not kept",
                  "%s #%r requested %r got %r (ids before %r; batch %r -> %r)" % (
                    m["k"], m["ref"], req, m["chosen"], sorted(used_u)[:12], reqs, all_chosen)))
  return out


def eng_tie_ops(step, before):
  """Per-member prediction by the Lean model (driver ops 'table' / 'col' / 'list'): the avoid set
  of each pick is rebuilt here from the state before the action and the ids the engine ACTUALLY
  chose for the earlier members (so the ops are independent).  Returns [(op, actual, what)].
  Not attempted when summary tables are involved (their ids/columns join the avoid sets)."""
  fam = step["family"]
  ms = step["members"]
  if fam == "meta_add_cols" or any(t["summary"] for t in before["tables"].values()):
    return []
  ops = []

  def one(kind, req, avoid, actual, what):
    ops.append(({"m": "identifiers", "op": kind, "s": cps(norm(req)),
                 "avoid": [cps(a) for a in upper_set(a for a in avoid if isinstance(a, str))]}, actual, what))

  if fam in ("bulk_tableId", "bulk_title", "bundle_RenameTable", "bundle_AddTable"):
    S = set(before["engine_tables"])
    for m in ms:
      old = before["tables"][m["ref"]]["id"] if m["ref"] in before["tables"] else None
      if old is not None and m["req"] == old:
        ops.append((None, m["chosen"], old))
        continue
      one("table", m["req"], S - {old}, m["chosen"], "%s member %r" % (fam, m["req"]))
      if fam == "bundle_RenameTable":
        S.discard(old)
      S.add(m["chosen"])
    return ops
  if fam == "AddTable_cols":
    one("table", ms[0]["req"], set(before["engine_tables"]), ms[0]["chosen"], "AddTable table id")
    ops.append(({"m": "identifiers", "op": "list", "l": [cps(norm(x)) for x in ["manualSort"] + [m["req"] for m in ms[1:]]],
                 "avoid": [cps("ID")]}, ["manualSort"] + [m["chosen"] for m in ms[1:]], "AddTable column ids"))
    return ops
  cur = {}
  for cref, c in before["cols"].items():
    cur.setdefault(c["t"], {})[cref] = c["id"]
  extra = set()
  for m in ms:
    t = m["scope"]
    ids = cur.setdefault(t, {})
    old = ids.get(m["ref"])
    if old is not None and m["req"] == old:
      ops.append((None, m["chosen"], old))
      continue
    avoid = (set(ids.values()) | {"id"} | extra) - {old}
    one("col", m["req"], avoid, m["chosen"], "%s member %r" % (fam, m["req"]))
    if fam in ("bulk_colId", "bulk_label"):
      extra.add(m["chosen"])        # metadata is written at the end; picked names are carried in avoid_colid_set
    else:
      ids[m["ref"]] = m["chosen"]   # separate user actions: the metadata already has the new id
  return ops


def eng_classify(ck, step, before, res):
  """Counters describing which of the 'several names in one action' situations a step exercised."""
  fam = step["family"]
  ms = step["members"]
  ck.count("eng:family:" + fam)
  ck.count("eng:requested_names", len(ms))
  if len(ms) >= 2:
    ck.count("eng:actions_with_2+_names")
  nontrivial = False
  for kind in ("table", "col"):
    sub = [m for m in ms if m["k"] == kind]
    ap = [approx_ident(m["req"], kind == "table") for m in sub]
    groups = {}
    for m, a in zip(sub, ap):
      if a:
        groups.setdefault(a.upper(), []).append((m["req"], a))
    for g in groups.values():
      if len(g) < 2:
        continue
      nontrivial = True
      ck.count("eng:%s batches with case-insensitively equal sanitised requests" % kind)
      if len({a for _, a in g}) > 1:
        ck.count("eng:%s batches: sanitised requests differ only in case" % kind)
      if len({q for q, _ in g}) < len(g):
        ck.count("eng:%s batches: identical request repeated" % kind)
      by_a = {}
      for q, a in g:
        by_a.setdefault(a, set()).add(q)
      if any(len(v) > 1 for v in by_a.values()):
        ck.count("eng:%s batches: different texts sanitising to the same id" % kind)
    if sum(1 for a in ap if a is None) >= 2:
      ck.count("eng:%s batches with 2+ empty requests (generated names)" % kind)
      nontrivial = True
    if kind == "table":
      ex = {t["id"].upper() for r, t in before["tables"].items() if isinstance(t["id"], str)}
    else:
      ex = {"ID"} | {c["id"].upper() for c in before["cols"].values() if isinstance(c["id"], str)}
    if any(a and a.upper() in ex for a in ap):
      ck.count("eng:%s batches with a request equal to an existing id" % kind)
      nontrivial = True
  if res.ok:
    ck.count("eng:actions_accepted")
    for i, m in enumerate(ms):
      a = approx_ident(m["req"], m["k"] == "table")
      if a and isinstance(m.get("chosen"), str) and m["chosen"] != a and \
         any(isinstance(o.get("chosen"), str) and o["chosen"].upper() == a.upper() for j, o in enumerate(ms) if j != i):
        ck.count("eng:names suffixed because another member of the same action took the id")
        if m["k"] == "col" and ms and any(o.get("scope") != m.get("scope") and isinstance(o.get("chosen"), str)
                                          and o["chosen"].upper() == a.upper() for o in ms):
          ck.count("eng:column suffixed because of a column of ANOTHER table in the same action (counted, not judged)")
  else:
    ck.count("eng:actions_rejected")
  return nontrivial


ENG_WITNESSES = [
  # (family, member selector, requests): replayed first on every run, on tables Alpha/Beta/Other
  ("bulk_tableId", [1, 2], ["Report", "Report"]),
  ("bulk_tableId", [1, 2], ["Gamma", "gamma"]),
  ("bulk_tableId", [1, 2], ["Sales 2024", "Sales_2024"]),
  ("bulk_title", [1, 2], ["my table", "My_table"]),
  ("bulk_tableId", [1, 2, 3], [u"", None, u" "]),
  ("bulk_title", [2, 1], [u"Élan", u"elan"]),
  ("bulk_tableId", [1, 2], ["Delta", "Other"]),
  ("bundle_RenameTable", [1, 2], ["class", "Class"]),
  ("bulk_colId", [2, 3, 4], ["x y", "X_y", "x-y"]),
  ("bulk_label", [2, 3, 6], ["Q", "q", "Q"]),
  ("bulk_colId", [2, 3], ["id", "ID"]),
  ("bulk_colId", [2, 3, 4], [u"", None, u"-"]),
  ("bundle_RenameColumn", [2, 3], ["if", "If"]),
]
# on a second document: the same three tables + a summary table of Alpha grouped by `a` (table #4
# Alpha_summary_a, renamed by the engine in the action that renames Alpha)
ENG_WITNESSES_SUMMARY = [
  ("bulk_tableId", [1, 3], ["Beta9", "Beta9_summary_a"]),      # source first: the summary table's new id is taken
  ("bulk_tableId", [3, 1], ["Zed_summary_a", "Zed"]),           # other table first: the summary table must move on
  ("bulk_title", [2, 1], ["report summary a", "Report"]),
  # names of the summary table's OWN columns (count, group) requested for columns of the source table: a group-by
  # column's new id is copied into the summary table, where it must not meet `count` / `group`
  ("bundle_RenameColumn", [2], ["Count"]),
  ("bulk_colId", [2], ["group"]),
  ("bulk_label", [2], ["count"]),
  ("bundle_RenameColumn", [3, 2], ["count", "GROUP"]),
]


def eng_witness_step(obs, fam, sel, reqs):
  if fam in ("bulk_tableId", "bulk_title", "bundle_RenameTable"):
    if fam == "bulk_tableId":
      bundle = [["BulkUpdateRecord", "_grist_Tables", list(sel), {"tableId": list(reqs)}]]
    elif fam == "bulk_title":
      bundle = [["BulkUpdateRecord", "_grist_Views_section", [obs["tables"][r]["raw"] for r in sel], {"title": list(reqs)}]]
    else:
      bundle = [["RenameTable", obs["tables"][r]["id"], q] for r, q in zip(sel, reqs)]
    return {"family": fam, "bundle": bundle, "members": [{"k": "table", "ref": r, "req": q} for r, q in zip(sel, reqs)]}
  if fam == "bulk_colId":
    bundle = [["BulkUpdateRecord", "_grist_Tables_column", list(sel), {"colId": list(reqs)}]]
  elif fam == "bulk_label":
    bundle = [["BulkUpdateRecord", "_grist_Tables_column", list(sel), {"label": list(reqs)}]]
  else:
    bundle = [["RenameColumn", obs["tables"][obs["cols"][c]["t"]]["id"], obs["cols"][c]["id"], q] for c, q in zip(sel, reqs)]
  return {"family": fam, "bundle": bundle, "members": [{"k": "col", "ref": c, "req": q} for c, q in zip(sel, reqs)]}


ENG_WITNESS_BUILD = [[
  ["AddTable", "Alpha", [eng_colinfo("a"), eng_colinfo("b"), eng_colinfo("c")]],
  ["AddTable", "Beta", [eng_colinfo("b"), eng_colinfo("r", "Ref:Alpha"),
                        eng_colinfo("f", "Any", "Alpha.lookupOne(a=$b).b", True)]],
  ["AddTable", "Other", [eng_colinfo("c")]],
  ["BulkAddRecord", "Alpha", [None, None], {"a": ["x", "y"], "b": ["1", "2"]}],
  ["BulkAddRecord", "Beta", [None, None], {"b": ["x", "y"], "r": [1, 2]}],
]]


class EngSession(object):
  """One document: history of bundles, judged steps."""
  def __init__(self, ck, build):
    from gx import engine_driver as ed
    self.ck = ck
    try:
      self.doc = ed.Doc()
    except Exception as e:       # pylint: disable=broad-except
      from gx.common import Infra
      raise Infra("cannot create an engine document: %s: %s" % (type(e).__name__, e))
    self.history = []
    self.tie = []
    self.dirty = False
    for b in build:
      r = self.doc.apply(b)
      if not r.ok:
        from gx.common import Infra
        raise Infra("scenario set-up bundle rejected: %r: %r" % (r.error, b))
      self.history.append(b)
    self.obs = eng_observe(self.doc)

  def step(self, step):
    ck = self.ck
    before = self.obs
    res = self.doc.apply(step["bundle"])
    try:
      after = eng_observe(self.doc)
      probs = eng_judge(step, before, after, res)
    except Exception as e:       # pylint: disable=broad-except
      after = None
      probs = [("engine/%s: state cannot be read after the action (%s)" % (step["family"], type(e).__name__),
                "%s: %s" % (type(e).__name__, e))]
    ck.evaluated()
    ck.count("eng:actions")
    rp = {"engine": True, "history": [list(b) for b in self.history],
          "step": {"family": step["family"], "bundle": step["bundle"], "members": step["_orig"]}}
    for sig, det in probs:
      ck.violation(sig, det + " ; action %r" % (step["bundle"],), rp)
    nontriv = eng_classify(ck, step, before, res)
    if nontriv:
      ck.nontrivial_case({"engine": step["bundle"], "history": len(self.history), "h0": self.history[0][0][1]})
      ck.sample({"engine_action": step["bundle"],
                 "chosen": [m.get("chosen") for m in step["members"]]}, limit=6)
    if res.ok and after is not None and not probs:
      try:
        for op, actual, what in eng_tie_ops(step, before):
          self.tie.append((op, actual, what, rp))
      except Exception as e:     # pylint: disable=broad-except
        ck.count("eng:tie_not_computed_%s" % type(e).__name__)
    if res.ok:
      self.history.append(step["bundle"])
      self.dirty = self.dirty or bool(probs)
    if after is not None:
      self.obs = after
    return res.ok and not probs


def eng_prepare(step):
  """Remember the members as generated (refs of records that do not exist yet are filled in later)."""
  step["_orig"] = [dict(m) for m in step["members"]]
  return step


def eng_run_ties(ck, ties):
  ops = [t for t in ties if t[0] is not None]
  first = None
  for op, actual, what, rp in ties:
    if op is None:
      ck.count("eng:tie_unchanged_request")
      if actual != what and first is None:
        first = {"what": "request equal to the current id", "impl": actual, "model": what, "engine_replay": rp}
  if ops:
    outs = ck.driver([t[0] for t in ops])
    for (op, actual, what, rp), mo in zip(ops, outs):
      ck.count("eng:tie_model_picks")
      if mo.get("r") != actual:
        ck.count("eng:tie_disagreements")
        if first is None:
          first = {"what": what, "op": op, "impl": actual, "model": mo, "engine_replay": rp}
  return first


def engine_level(ck):
  """Several names requested in one user action / bundle, through the real engine."""
  import time
  t0, c0 = time.time(), time.process_time()
  rng = ck.rng
  ties = []
  # 1. fixed witnesses on one document
  s = EngSession(ck, ENG_WITNESS_BUILD)
  ck.count("eng:documents")
  for fam, sel, reqs in ENG_WITNESSES:
    s.step(eng_prepare(eng_witness_step(s.obs, fam, sel, reqs)))
    ck.count("eng:fixed_witnesses")
  ties += s.tie
  s = EngSession(ck, ENG_WITNESS_BUILD + [[["CreateViewSection", 1, 0, "record", [2], None]]])
  ck.count("eng:documents")
  for fam, sel, reqs in ENG_WITNESSES_SUMMARY:
    s.step(eng_prepare(eng_witness_step(s.obs, fam, sel, reqs)))
    ck.count("eng:fixed_witnesses")
    ck.count("eng:actions on a document with a summary table")
  # 2. generated documents, each taking a sequence of multi-name actions (ids pile up: X, X2, ...)
  n_docs = 9 if ck.tier == "quick" else 80
  fams = list(ENG_TABLE_FAMILIES) * 2 + list(ENG_COL_FAMILIES) * 2 + ["bulk_tableId", "bulk_title", "bulk_colId"]
  for d in range(n_docs):
    summary = (d % 3 == 2)
    s = EngSession(ck, eng_build(rng, summary=summary))
    ck.count("eng:documents")
    n_steps = 8 if ck.tier == "quick" else 10
    for i in range(n_steps):
      fam = rng.choice(fams)
      if summary and i in (0, 3):
        fam = "bulk_tableId_summary"
      step = eng_gen_step(rng, s.obs, fam)
      if step is None:
        ck.count("eng:step_not_applicable")
        continue
      if summary:
        ck.count("eng:actions on a document with a summary table")
      if not s.step(eng_prepare(step)) and s.dirty:
        # an accepted action left ids that violate the property: later actions on this document would
        # be blamed for them
        ck.count("eng:documents abandoned after a violation")
        break
    # last action on this document: records added directly to the column metadata
    if d % 3 == 0 and not s.dirty:
      step = eng_gen_step(rng, s.obs, "meta_add_cols")
      if step is not None:
        s.step(eng_prepare(step))
    ties += s.tie
  first = eng_run_ties(ck, ties)
  ck.extra["engine_level_wall_s"] = round(time.time() - t0, 2)      # reported only
  ck.extra["engine_level_cpu_s"] = round(time.process_time() - c0, 2)
  if first and not ck.has_impl_violation():
    ck.broken("correspondence engine batch naming vs per-name picks of Grist.Identifiers",
              "an id chosen by the engine for one of several names requested in one action differs from the model's "
              "pick for the avoid set rebuilt by the harness, and the property's clauses hold on all explored inputs",
              first)


def eng_replay(ck, case):
  """Replay of an engine-level violation: rebuild the document from the recorded history, apply the
  recorded action, judge it with the same oracle."""
  s = EngSession(ck, case["history"])
  step = dict(case["step"])
  step["members"] = [dict(m) for m in step["members"]]
  for m in step["members"]:
    m.setdefault("ref", None)
  ok = s.step(eng_prepare(step))
  print("replay: engine action %r -> %s" % (step["bundle"], "property holds" if ok else "violation"))
  print("replay: chosen ids %r" % ([m.get("chosen") for m in step["members"]],))
  first = eng_run_ties(ck, s.tie)
  if first and not ck.has_impl_violation():
    ck.broken("correspondence engine batch naming vs per-name picks of Grist.Identifiers",
              "model and engine differ on the replayed action", first)
  ck.nontrivial_case("replay")


def replay(ck, rp):
  from gx import translate
  import identifiers
  case = rp["replay"]
  if isinstance(case, dict) and (case.get("engine") or "engine_replay" in case):
    translate.gen_keywords()
    ck.lean(["GristProps.C21"])
    return eng_replay(ck, case.get("engine_replay") or case)
  corr = isinstance(case, dict) and "case" in case      # a correspondence (model != code) replay
  if corr:
    case = case["case"]
  translate.gen_keywords()
  ck.lean(["GristProps.C21"])
  st, val = call_real(identifiers, case)
  ck.evaluated()
  if st == "hang":
    bad = ("%s: call does not terminate" % FN[case["f"]], "no result within %ss" % CALL_TIMEOUT_S)
  elif st == "raise":
    bad = ("%s: call raises %s" % (FN[case["f"]], val), "exception %s" % val)
  else:
    bad = oracle(case, val)
  print("replay: %r -> %r : %s" % (case, val, bad or "property holds"))
  if bad:
    ck.violation(bad[0], bad[1], case)
  elif corr:
    mo = ck.driver([model_op(case)])[0]
    print("replay: model says %r" % (mo,))
    if mo.get("r") != val:
      ck.broken("correspondence identifiers.py vs Grist.Identifiers",
                "model and implementation differ on the replayed input",
                {"case": canon_case(case), "impl": val, "model": mo})
  ck.nontrivial_case(case); ck.nontrivial_case("replay")
