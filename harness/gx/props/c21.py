# -*- coding: utf-8 -*-
"""
C21  Generated identifiers are valid and unique.

Interpretation (DESIGN.md section 6 C21 and Appendix B), demanded exactly by the oracle below:
 * "valid" = Grist's ASCII identifier alphabet `[A-Za-z][A-Za-z0-9_]*` (so: a valid Python
   identifier, `str.isidentifier()`, that starts with neither an underscore nor a digit), and not
   `keyword.iskeyword`; table ids start with `A`..`Z`.  A Python-valid NON-ASCII name ("né") is
   rewritten by design, so "already valid" also means the ASCII shape (tables: first letter already
   upper-case).
 * "differs case-insensitively" = the `str.upper()` forms differ, which is the comparison the code
   documents and performs (`ident.upper() not in _uppercase(avoid)`).  For ASCII existing names
   (all names Grist itself produces) upper/lower/casefold comparisons coincide; for non-ASCII
   existing names they can differ (KELVIN SIGN U+212A: upper() is itself, lower() is 'k'); such
   cases are only COUNTED (`casefold_only_collisions`), see the builder report.
 * a requested name is any `str`, `None` or an object with a `str()` (ints are used).

Theorems: lean/GristProps/C21.lean about lean/GristModel/Identifiers.lean
  (keywords_ok, add_suffix_terminates, gen_ident_fresh, gen_ident_letters_injective,
   sanitize_shape, pick_col_valid, pick_table_valid, pick_col_fixpoint, pick_table_fixpoint,
   pick_list_valid, pick_list_fixpoint, pick_list_step).
Parameters of the model, computed here with the very stdlib calls identifiers.py makes
  (`norm()` below REIMPLEMENTS that one line of `_sanitize_ident`:
   `unicodedata.normalize('NFKD', str(x))` minus `unicodedata.combining` characters; the avoid set
   is sent as `{a.upper()}`), plus two assumptions validated on every run over ALL code points:
   `str.upper` is idempotent and `norm` is the identity on ASCII.
The keyword list is regenerated from `keyword.kwlist` (gx.translate.gen_keywords) before the Lean
  build, and the driver echoes it back for comparison.
Tie: identifiers.pick_col_ident / pick_table_ident / pick_col_ident_list / _sanitize_ident /
  _add_suffix / _maybe_add_suffix / _gen_ident (real code) vs the model on identical inputs.
Search (direct oracle, independent of the model): `str.isidentifier`, `keyword.iskeyword`, the
  regex shape, case-insensitive distinctness, and "valid unused names are kept", evaluated on the
  REAL outputs.
"""
import itertools
import keyword
import re
import signal
import sys
import unicodedata

SHAPE = re.compile(r'[A-Za-z][A-Za-z0-9_]*\Z')
FN = {"col": "pick_col_ident", "table": "pick_table_ident", "list": "pick_col_ident_list",
      "sanitize": "_sanitize_ident", "add_suffix": "_add_suffix", "maybe_add_suffix": "_maybe_add_suffix",
      "gen": "_gen_ident"}
CALL_TIMEOUT_S = 3.0
MAX_HANGS = 3


# --------------------------------------------------------------------------- parameters
def norm(x):
  """The parameter of the model: first lines of identifiers._sanitize_ident (reimplemented)."""
  s = u"" if x is None else str(x)
  s = unicodedata.normalize('NFKD', s)
  return u"".join(c for c in s if not unicodedata.combining(c))


def cps(s):
  return [ord(c) for c in s]


def upper_set(avoid):
  """The parameter `_uppercase(avoid)`; sorted for a canonical wire form."""
  return sorted({a.upper() for a in avoid})


# --------------------------------------------------------------------------- oracle
def is_valid_name(s, table):
  """'already valid' in the property's sense (interpretation above)."""
  return (isinstance(s, str) and SHAPE.match(s) is not None and not keyword.iskeyword(s)
          and (not table or 'A' <= s[0] <= 'Z'))


def check_one(kind, requested, existing_upper, r, table, keep_rule=True):
  """Clauses for ONE chosen id `r` against the upper-cased existing names.
  Returns None or (signature, detail)."""
  if not isinstance(r, str):
    return ("%s: result is not a string" % kind, "got %r" % (r,))
  if not r.isidentifier():
    return ("%s: result is not a Python identifier" % kind, "got %r" % (r,))
  if keyword.iskeyword(r):
    return ("%s: result is a Python keyword" % kind, "got %r" % (r,))
  if r[0] == '_' or r[0].isdigit():
    return ("%s: result starts with an underscore or digit" % kind, "got %r" % (r,))
  if not SHAPE.match(r):
    return ("%s: result is outside [A-Za-z][A-Za-z0-9_]*" % kind, "got %r" % (r,))
  if table and not ('A' <= r[0] <= 'Z'):
    return ("%s: table id does not start with an uppercase letter" % kind, "got %r" % (r,))
  if r.upper() in existing_upper:
    return ("%s: result equals an existing name case-insensitively" % kind,
            "got %r, existing (upper) %r" % (r, sorted(existing_upper)[:8]))
  if keep_rule and is_valid_name(requested, table) and requested.upper() not in existing_upper \
     and r != requested:
    return ("%s: valid unused requested name not kept" % kind, "requested %r got %r" % (requested, r))
  return None


def oracle(case, out):
  """Property clauses on the real output of one case.  None or (signature, detail)."""
  f = case["f"]
  ex = {a.upper() for a in case["avoid"]}
  if f == "col":
    return check_one("pick_col_ident", case["s"], ex, out, False)
  if f == "table":
    return check_one("pick_table_ident", case["s"], ex, out, True)
  if f == "list":
    if not isinstance(out, list) or len(out) != len(case["l"]):
      return ("pick_col_ident_list: wrong number of ids", "asked %d got %r" % (len(case["l"]), out))
    seen = set()
    for req, r in zip(case["l"], out):
      if isinstance(r, str) and r.upper() in seen:
        return ("pick_col_ident_list: two ids of one batch equal case-insensitively",
                "ids %r" % (out,))
      bad = check_one("pick_col_ident_list", req, ex | seen, r, False)
      if bad:
        return bad
      seen.add(r.upper())
    return None
  # helpers: no property clause of their own beyond what the public functions give, except that
  # the suffix helpers must avoid the (already upper-cased) set they are given.
  if f in ("add_suffix", "maybe_add_suffix", "gen"):
    if not isinstance(out, str):
      return ("%s: result is not a string" % FN[f], "got %r" % (out,))
    if out.upper() in set(case["avoid"]):
      return ("%s: result is in the avoid set" % FN[f], "got %r" % (out,))
  return None


# --------------------------------------------------------------------------- real code
class CallTimeout(Exception):
  pass


def _alarm(signum, frame):
  raise CallTimeout()


def call_real(identifiers, case):
  """Run the real function of one case; returns ('ok', value) | ('raise', name) | ('hang', None)."""
  f = case["f"]
  old = signal.signal(signal.SIGALRM, _alarm)
  signal.setitimer(signal.ITIMER_REAL, CALL_TIMEOUT_S)
  try:
    try:
      if f == "col":
        r = identifiers.pick_col_ident(case["s"], avoid=mk_avoid(case))
      elif f == "table":
        r = identifiers.pick_table_ident(case["s"], avoid=mk_avoid(case))
      elif f == "list":
        r = identifiers.pick_col_ident_list(list(case["l"]), avoid=mk_avoid(case))
      elif f == "sanitize":
        r = identifiers._sanitize_ident(case["s"], prefix=case["prefix"], capitalize=case["capitalize"])
      elif f == "add_suffix":
        r = identifiers._add_suffix(case["s"], set(case["avoid"]), case["next"])
      elif f == "maybe_add_suffix":
        r = identifiers._maybe_add_suffix(case["s"], set(case["avoid"]))
      elif f == "gen":
        r = identifiers._gen_ident(set(case["avoid"]))
      else:
        raise ValueError(f)
    finally:
      signal.setitimer(signal.ITIMER_REAL, 0)
    return ("ok", r)
  except CallTimeout:
    return ("hang", None)
  except Exception as e:      # pylint: disable=broad-except
    return ("raise", type(e).__name__)
  finally:
    signal.setitimer(signal.ITIMER_REAL, 0)
    signal.signal(signal.SIGALRM, old)


def mk_avoid(case):
  a = case["avoid"]
  form = case.get("avoid_form", "set")
  if form == "list":
    return list(a)
  if form == "frozenset":
    return frozenset(a)
  if form == "dict":
    return dict.fromkeys(a, 1)
  return set(a)


def model_op(case):
  f = case["f"]
  op = {"m": "identifiers", "op": f}
  if f in ("col", "table"):
    op["s"] = cps(norm(case["s"])); op["avoid"] = [cps(a) for a in upper_set(case["avoid"])]
  elif f == "list":
    op["l"] = [cps(norm(s)) for s in case["l"]]; op["avoid"] = [cps(a) for a in upper_set(case["avoid"])]
  elif f == "sanitize":
    op["s"] = cps(norm(case["s"])); op["prefix"] = cps(case["prefix"]); op["capitalize"] = case["capitalize"]
    op["avoid"] = []
  elif f == "add_suffix":
    op["s"] = cps(case["s"]); op["next"] = case["next"]; op["avoid"] = [cps(a) for a in sorted(set(case["avoid"]))]
  elif f == "maybe_add_suffix":
    op["s"] = cps(case["s"]); op["avoid"] = [cps(a) for a in sorted(set(case["avoid"]))]
  elif f == "gen":
    # _gen_ident upper-cases its (already upper-cased) argument once more: parameter
    op["avoid"] = [cps(a) for a in upper_set(case["avoid"])]
  return op


# --------------------------------------------------------------------------- generators
ASCII_POOL = list("abcxyzABCXYZ") + list("0123456789") + list("___") + list("  -.!/$")
UNI_POOL = [
  u"é", u"É", u"ñ", u"ü", u"Å", u"ç", u"ø",                 # accented Latin (ø has no decomposition)
  u"é", u"́", u"̈", u"̧", u"⃝",   # combining marks
  u"ﬁ", u"ﬂ", u"ﬀ", u"ǆ", u"Ǆ", u"ĳ",                        # ligatures / digraphs (NFKD -> ASCII letters)
  u"１", u"２", u"９", u"０", u"①", u"²", u"½", u"٣", u"৪",     # full-width / other digits
  u"Ａ", u"ｚ", u"＿",                                         # full-width letters and underscore
  u"ı", u"İ", u"ß", u"ẞ", u"ŉ", u"ǰ", u"K", u"Ω", u"µ", u"ſ",   # case-mapping oddities
  u"中", u"文", u"日本", u"한", u"ﾊ", u"㌀", u"㍿",              # CJK (㌀, ㍿ decompose to several chars)
  u"😀", u"👍🏽", u"🇫🇷", u"‍", u" ", u"　", u"\t", u"\n", u"\x00", u"\x7f",
  u"\ud800", u"\udfff",                                       # lone surrogates
  u"Ω", u"π", u"я", u"Я", u"א", u"ع", u"ﷺ",
]
WORDS = (list(keyword.kwlist) + [k.capitalize() for k in keyword.kwlist] + [k.upper() for k in keyword.kwlist] +
         ["none", "true", "false", "match", "case", "type", "_", "print", "Table", "Table1", "table2",
          "A", "B", "Z", "AA", "AZ", "ZZ", "AAA", "c", "T", "cif", "Tif", "TNone", "cclass", "id",
          "manualSort", "gristHelper_Display", "Name", "name", "NAME", "Első oszlop", "名前", "Prénom",
          "straße", "STRASSE", "fi", "ﬁ", "KelvinK", "x1", "x1_", "x1_2", "x_1", "9lives", "__init__",
          "_private", "a b", "a  b", "a__b", "a_-_b", "-a-", " a ", "a\n", "1", "12", "1_", "_1", "é", "é"])


def rand_text(rng):
  k = rng.random()
  if k < 0.10:
    return rng.choice(WORDS)
  if k < 0.16:
    return rng.choice(WORDS) + rng.choice(["", " ", "_", "1", "2", "_2", u"é", u"́", u"２"])
  if k < 0.20:
    return rng.choice(["", " ", "_", "__", "___", "-", u"́", u"中", u"😀", u"ß", u"ı"]) * rng.randint(0, 3)
  if k < 0.34:
    # an already valid name (the "kept as is" clause): [A-Za-z][A-Za-z0-9_]*
    n = rng.choice([1, 1, 2, 3, 4, 6, 9])
    return rng.choice("abkstxABKTZ") + "".join(rng.choice("abiknstxABKXZ0129__") for _ in range(n - 1))
  n = rng.choice([1, 1, 2, 2, 3, 4, 5, 6, 8, 12])
  style = rng.random()
  out = []
  for _ in range(n):
    if style < 0.35:
      out.append(rng.choice(ASCII_POOL))
    elif style < 0.55:
      out.append(rng.choice(UNI_POOL))
    elif style < 0.62:
      out.append(chr(rng.choice([rng.randrange(0, 0x300), rng.randrange(0x300, 0x3000),
                                 rng.randrange(0x3000, 0x11000), rng.randrange(0, 0x110000)])))
    else:
      out.append(rng.choice(ASCII_POOL + UNI_POOL))
  return u"".join(out)


def rand_request(rng):
  k = rng.random()
  if k < 0.03:
    return None
  if k < 0.05:
    return rng.choice([0, 7, 42, -3, 2020])
  return rand_text(rng)


def case_variant(rng, s):
  k = rng.random()
  if k < 0.25:
    return s
  if k < 0.45:
    return s.upper()
  if k < 0.65:
    return s.lower()
  if k < 0.8:
    return s.swapcase()
  if k < 0.9:
    return s.title()
  # a non-ASCII name with the same upper-case form (ß->SS, ı->I, ﬁ->FI, ſ->S, ŉ->ʼN)
  t = s.lower().replace("ss", u"ß", 1).replace("fi", u"ﬁ", 1)
  if rng.random() < 0.5:
    t = t.replace("i", u"ı", 1).replace("s", u"ſ", 1)
  if rng.random() < 0.3:
    t = t.replace("k", u"\u212a", 1)     # KELVIN SIGN: upper() is itself, lower()/casefold() is 'k'
  return t


LETTERS = [chr(65 + i) for i in range(26)]
LETTERS2 = [a + b for a in LETTERS for b in LETTERS]


def rand_avoid(rng, prev, hint=None):
  """Existing names: mostly previous outputs in varying case; sometimes whole runs X, X2, X3 ...
  (long suffix loops), the complete A..Z / AA..ZZ blocks (multi-letter _gen_ident), non-ASCII."""
  av = set()
  k = rng.random()
  if prev and k < 0.75:
    for p in rng.sample(prev, min(len(prev), rng.choice([1, 1, 2, 3, 5, 8]))):
      av.add(case_variant(rng, p))
  if hint is not None and rng.random() < 0.5:
    base = hint
    av.add(case_variant(rng, base))
    m = rng.choice([0, 1, 2, 3, 5, 11, 30])
    b2 = base + "_" if base[-1:].isdigit() else base
    for i in range(2, 2 + m):
      if rng.random() < 0.93:
        av.add(case_variant(rng, "%s%d" % (b2, i)))
  if rng.random() < 0.25:
    m = rng.choice([1, 3, 25, 26, 26, 27, 30])
    av.update(case_variant(rng, x) for x in LETTERS[:m])
    if m > 26:
      av.update(LETTERS2[:rng.choice([1, 2, 26, 27, 676])])
      if rng.random() < 0.3:
        av.update(LETTERS2); av.update(["AAA", "aab", "AAD"])
  if rng.random() < 0.2:
    m = rng.choice([1, 2, 3, 9, 10, 11, 12])
    av.update(case_variant(rng, "Table%d" % i) for i in range(1, m + 1))
  for _ in range(rng.choice([0, 0, 1, 2])):
    av.add(rand_text(rng))
  return sorted(av, key=lambda x: [ord(c) for c in x])


def gen_cases(ck, n_random):
  rng = ck.rng
  prev = []            # previous OUTPUTS are appended by the caller through `feed`
  cases = []

  def hint_for(req, table):
    # what the request would become with an empty avoid set, computed by a tiny independent
    # approximation (only used to aim the avoid set at the interesting collisions)
    t = re.sub(r'[^a-zA-Z0-9_]+', '_', norm(req)).lstrip('_')
    if not t:
      return "Table" if table else None
    if t[0].isdigit():
      t = ("T" if table else "c") + t
    if table:
      t = t[0].upper() + t[1:]
    return t

  for _ in range(n_random):
    k = rng.random()
    forms = rng.choice(["set"] * 7 + ["list", "frozenset", "dict"])
    if k < 0.36:
      s = rand_request(rng)
      cases.append({"f": "col", "s": s, "avoid": rand_avoid(rng, prev, hint_for(s, False)), "avoid_form": forms})
    elif k < 0.66:
      s = rand_request(rng)
      cases.append({"f": "table", "s": s, "avoid": rand_avoid(rng, prev, hint_for(s, True)), "avoid_form": forms})
    elif k < 0.86:
      n = rng.choice([0, 1, 2, 2, 3, 3, 4, 6, 10])
      l = []
      for _i in range(n):
        if l and rng.random() < 0.4:
          x = rng.choice(l)
          l.append(case_variant(rng, x) if isinstance(x, str) else None)
        else:
          l.append(rand_request(rng))
      l = [x if not (isinstance(x, str) and rng.random() < 0.1) else x + rng.choice(["2", "_2", "3"]) for x in l]
      h = hint_for(l[0], False) if l else None
      cases.append({"f": "list", "l": l, "avoid": rand_avoid(rng, prev, h), "avoid_form": forms})
    elif k < 0.91:
      pre = "".join(rng.choice("cTx9_Zq") for _ in range(rng.choice([1, 1, 1, 2, 3])))
      s = rand_request(rng)
      if rng.random() < 0.15:
        pre = ""     # empty prefix: the real loop hangs iff the sanitised text is a keyword; avoid that
        t = hint_for(s, False) or ""
        if keyword.iskeyword(t) or keyword.iskeyword(t[:1].upper() + t[1:]):
          pre = "c"
      cases.append({"f": "sanitize", "s": s, "prefix": pre, "capitalize": rng.random() < 0.5, "avoid": []})
    else:
      base = rng.choice(["Table", "a", "A1", "x_", "c9", "Tif", "zz9_", "B"] + (prev[-5:] if prev else []))
      up = base.upper() + ("_" if base[-1:].isdigit() else "")
      st = rng.choice([1, 2, 2, 3, 9, 10, 99])
      m = rng.choice([0, 1, 2, 5, 12, 40])
      av = {"%s%d" % (up, i) for i in range(st, st + m) if rng.random() < 0.95}
      if rng.random() < 0.5:
        av.add(base.upper())
      f = rng.choice(["add_suffix", "maybe_add_suffix", "gen"])
      if f == "gen":
        av = set(LETTERS[:rng.choice([0, 1, 25, 26])]) | set(LETTERS2[:rng.choice([0, 1, 30, 676])]) \
             | ({"AAA"} if rng.random() < 0.3 else set())
      cases.append({"f": f, "s": base, "next": st, "avoid": sorted(av)})
    yield cases[-1], prev


def exhaustive_cases(tier):
  """All strings up to length 3 (thorough: 4) over a small alphabet chosen to reach every branch:
  letters forming the keyword "if"/"in"/"is", an upper-case letter, a digit, '_', a separator, an
  accented letter, a ligature, a full-width digit, a combining mark."""
  alpha = [u"i", u"f", u"A", u"1", u"_", u" ", u"é", u"ﬁ", u"２", u"́"]
  maxlen = 3
  if tier == "thorough":
    alpha = alpha + [u"n", u"s"]
    maxlen = 4
  avoids = [[], ["IF", "A", "FI", "CIF", "TIF", "IF2", "C1", "T1", "TABLE1", "I", "AA"], ["if", "i", "a", "b", "c", "tif2"]]
  for n in range(0, maxlen + 1):
    for t in itertools.product(alpha, repeat=n):
      s = u"".join(t)
      for i, av in enumerate(avoids):
        if n == maxlen and tier == "thorough" and i == 2:
          continue
        yield {"f": "col", "s": s, "avoid": av}
        yield {"f": "table", "s": s, "avoid": av}


# --------------------------------------------------------------------------- main
def validate_parameters(ck):
  """The two assumptions under which the parameters are 'the same call the real code makes'."""
  bad_upper = [c for c in range(0x110000) if chr(c).upper().upper() != chr(c).upper()]
  bad_ascii = [c for c in range(128) if norm(chr(c)) != chr(c)]
  ck.obligations.append(("param:str.upper idempotent on all code points", not bad_upper,
                         "counterexamples %r" % bad_upper[:5] if bad_upper else ""))
  ck.obligations.append(("param:NFKD+combining-strip is the identity on ASCII", not bad_ascii,
                         "counterexamples %r" % bad_ascii[:5] if bad_ascii else ""))


def casefold_observation(ck, case, out):
  """Counted, not judged (see interpretation): non-ASCII existing name equal under casefold only."""
  outs = out if isinstance(out, list) else [out]
  for r in outs:
    if isinstance(r, str):
      for a in case["avoid"]:
        if not a.isascii() and a.casefold() == r.casefold() and a.upper() != r.upper():
          ck.count("casefold_only_collisions")


def classify(ck, case, out):
  f = case["f"]
  ck.count("f:" + f)
  reqs = case["l"] if f == "list" else [case.get("s")]
  outs = out if isinstance(out, list) else [out]
  nontriv = False
  for req, r in zip(reqs, outs):
    if not isinstance(r, str):
      continue
    if req is None:
      ck.count("in:None")
    elif not isinstance(req, str):
      ck.count("in:non-str object")
    elif req == "":
      ck.count("in:empty")
    elif not req.isascii():
      ck.count("in:non-ascii")
    if f in ("col", "table", "list"):
      if r != req:
        nontriv = True
        ck.count("out:changed")
      else:
        ck.count("out:kept")
      n = norm(req)
      if isinstance(req, str) and n != req:
        ck.count("br:normalisation changed text")
      t = re.sub(r'[^a-zA-Z0-9_]+', '_', n).lstrip('_')
      if not t:
        ck.count("br:nothing left -> generated name")
      elif t[0].isdigit():
        ck.count("br:leading digit -> prefix")
      if keyword.iskeyword(t) or (f == "table" and keyword.iskeyword(t[:1].upper() + t[1:])):
        ck.count("br:keyword -> prefix")
      if re.search(r'[0-9]_[0-9]+\Z', r) and not re.search(r'[0-9]_[0-9]+\Z', t or ""):
        ck.count("br:suffix after digit (x1 -> x1_2)")
      elif t and r.upper() != (("T" if f == "table" else "c") + t if t[0].isdigit() else t).upper() and len(r) > len(t):
        ck.count("br:numeric suffix")
      if len(r) >= 2 and r.isupper() and r.isalpha() and not t:
        ck.count("br:generated name with >= 2 letters")
  return nontriv


def canon_case(case):
  return {k: case[k] for k in sorted(case)}


def run_cases(ck, identifiers, cases_iter, feed=True):
  """Runs real code on every case (feeding outputs back to the generator), returns lists."""
  cases, outs = [], []
  hangs = 0
  for item in cases_iter:
    if isinstance(item, tuple):
      case, prev = item
    else:
      case, prev = item, None
    st, val = call_real(identifiers, case)
    cases.append(case); outs.append((st, val))
    if st == "hang":
      hangs += 1
      if hangs >= MAX_HANGS:      # every further hang costs CALL_TIMEOUT_S: enough evidence, stop here
        ck.count("stopped_after_hangs")
        break
    if prev is not None and st == "ok":
      for r in (val if isinstance(val, list) else [val]):
        if isinstance(r, str) and r:
          prev.append(r)
      if len(prev) > 60:
        del prev[:len(prev) - 60]
  return cases, outs


def judge(ck, cases, outs, model):
  mism = None
  for case, (st, val), mo in zip(cases, outs, model):
    ck.evaluated()
    rp = canon_case(case)
    if st == "hang":
      ck.violation("%s: call does not terminate" % FN[case["f"]], "no result within %ss" % CALL_TIMEOUT_S, rp)
      continue
    if st == "raise":
      ck.violation("%s: call raises %s" % (FN[case["f"]], val), "exception %s" % val, rp)
      continue
    bad = oracle(case, val)
    if bad:
      ck.violation(bad[0], bad[1] + " ; input %r" % (rp,), rp)
    else:
      casefold_observation(ck, case, val)
    if classify(ck, case, val):
      ck.nontrivial_case(rp)
      ck.sample({"case": rp, "result": val})
    if mo.get("r") != val:
      ck.count("model_impl_disagreements")
      if mism is None:
        mism = {"case": rp, "impl": val, "model": mo}
  return mism


def run(ck):
  from gx import translate
  import identifiers
  ck.rule = ("random requests (ASCII, accented Latin, CJK, emoji, combining marks, ligatures, full-width digits, "
             "case-mapping oddities, lone surrogates, keywords, None, ints) x avoid sets built from previous outputs "
             "in varying case, X/X2/X3.. runs, A..Z/AA..ZZ blocks and non-ASCII names, for pick_col_ident, "
             "pick_table_ident, pick_col_ident_list and the helpers; plus ALL strings of length <= 3 (thorough: <= 4) "
             "over a 10 (12)-symbol alphabet x 3 avoid sets; non-trivial = a public pick_* call whose result differs "
             "from the requested name (sanitised, keyword-prefixed, suffixed or generated); distinct by (function, "
             "request, avoid)")
  ck.assumptions = [
    "requested names are str, None or objects with str(); existing names are str",
    "'case-insensitively' = equality of str.upper() forms (the code's comparison); identical to lower()/casefold() "
    "comparison for ASCII existing names",
    "model parameters: NFKD + combining-strip and str.upper are computed by the harness with the same stdlib calls; "
    "str.upper idempotent and NFKD identity on ASCII are re-validated over all code points every run",
    "keyword list = keyword.kwlist of the interpreter running the engine (regenerated every run)",
  ]
  kws = translate.gen_keywords()
  ck.lean(["GristProps.C21"])
  validate_parameters(ck)

  # keyword list and the letter sequence, model vs Python
  pre = ck.driver([{"m": "identifiers", "op": "keywords"}, {"m": "identifiers", "op": "letters", "n": 1500}])
  ok_kw = pre[0].get("strings") == kws == list(keyword.kwlist) and pre[0].get("chars") == kws
  ck.obligations.append(("tie:Generated.pyKeywords == keyword.kwlist", ok_kw, "" if ok_kw else repr(pre[0])[:300]))
  ref_letters = list(itertools.islice(
    ("".join(t) for n in itertools.count(1) for t in itertools.product("ABCDEFGHIJKLMNOPQRSTUVWXYZ", repeat=n)), 1500))
  real_letters = list(itertools.islice(identifiers._make_letters(), 1500))
  ok_l = pre[1].get("r") == real_letters
  ck.obligations.append(("tie:letters n == identifiers._make_letters()[n], n < 1500", ok_l, ""))
  # (the sequence itself is not a clause of C21: a different sequence is a correspondence break,
  #  reported through the 'tie:letters' obligation; its consequences for the property - a generated
  #  name that collides or is invalid - are caught by the oracle on pick_col_ident below)
  ck.obligations.append(("tie:_make_letters() is A..Z, AA..ZZ, AAA.. (independent reference)",
                         real_letters == ref_letters, ""))

  n_random = 12000 if ck.tier == "quick" else 300000
  cases, outs = run_cases(ck, identifiers, gen_cases(ck, n_random))
  c2, o2 = run_cases(ck, identifiers, exhaustive_cases(ck.tier))
  ck.count("exhaustive_small_scope_cases", len(c2))
  cases += c2; outs += o2
  model = driver_parallel(ck, [model_op(c) for c in cases])
  mism = judge(ck, cases, outs, model)
  if mism and not ck.has_impl_violation():
    ck.broken("correspondence identifiers.py vs Grist.Identifiers",
              "model and implementation differ and the property's clauses hold on all explored inputs", mism)
  engine_level(ck)


def driver_parallel(ck, ops):
  """ck.driver in chunks (several driver processes at once in the thorough tier)."""
  if len(ops) <= 60000:
    return ck.driver(ops)
  from concurrent.futures import ThreadPoolExecutor
  chunks = [ops[i:i + 40000] for i in range(0, len(ops), 40000)]
  with ThreadPoolExecutor(max_workers=6) as ex:
    res = list(ex.map(ck.driver, chunks))
  return [r for chunk in res for r in chunk]


def engine_level(ck):
  """Engine-level use (AddColumn/AddTable/renames through the engine) is added separately."""
  try:
    from gx import engine_driver
  except ImportError:
    return
  fn = getattr(engine_driver, "c21_identifiers", None)
  if fn:
    fn(ck, check_one)


def replay(ck, rp):
  from gx import translate
  import identifiers
  case = rp["replay"]
  corr = isinstance(case, dict) and "case" in case      # a correspondence (model != code) replay
  if corr:
    case = case["case"]
  translate.gen_keywords()
  ck.lean(["GristProps.C21"])
  st, val = call_real(identifiers, case)
  ck.evaluated()
  if st == "hang":
    bad = ("%s: call does not terminate" % FN[case["f"]], "no result within %ss" % CALL_TIMEOUT_S)
  elif st == "raise":
    bad = ("%s: call raises %s" % (FN[case["f"]], val), "exception %s" % val)
  else:
    bad = oracle(case, val)
  print("replay: %r -> %r : %s" % (case, val, bad or "property holds"))
  if bad:
    ck.violation(bad[0], bad[1], case)
  elif corr:
    mo = ck.driver([model_op(case)])[0]
    print("replay: model says %r" % (mo,))
    if mo.get("r") != val:
      ck.broken("correspondence identifiers.py vs Grist.Identifiers",
                "model and implementation differ on the replayed input",
                {"case": canon_case(case), "impl": val, "model": mo})
  ck.nontrivial_case(case); ck.nontrivial_case("replay")
