"""
C35  SCHEDULE yields exactly the scheduled occurrences.

Theorems: lean/GristProps/C35.lean about lean/GristModel/Schedule.lean
  boundary_fixed / boundary_monthly   the unit boundary at or before start
  series_spec_fixed / series_spec_months / series_exact   result = first `count` elements, in order,
      of {boundary + k*interval + slot} within [start, end]  (interval >= 1, slots increasing inside
      one interval, boundary not before 1900-01-01)
  series_terminates_fixed / _months   count+2 passes suffice (interval >= 1, non-negative slots)
  parse_error_value_partial           a rejected string whose numeric fields are <= 10^7 is a ValueError
  zero_interval_diverges (+ witnesses), before_1900_witness, overflow_witness: where the code as
      it is violates the property.
Tie: functions.schedule.SCHEDULE / Schedule (real code) vs Grist.Schedule.parse / series on
     identical inputs: parsed interval+slots, error class, and the generated times.
Search (direct oracle on the real code): a brute-force enumeration of the occurrence set with
     plain datetime arithmetic from the generator's own description of the schedule (never from
     the model, never from the parser).

INTERPRETATION (what the check demands)
 * "valid schedule": a string of the docstring grammar "INTERVAL: SLOTS, ...".  The generator
   builds such strings from a semantic description (unit, multiple n, slot offsets) and the oracle
   works from that description.
 * "slots listed in increasing order and fall within one interval": evaluated by the oracle on the
   enumerated intervals themselves: in each interval the slot times are strictly increasing and lie
   in [boundary_k, boundary_k+1).  Cases failing this are outside the property: only the
   model/implementation correspondence is checked on them.
 * "unit boundary at or before start": rounding down by the UNIT (not the multiple); weeks start
   on Sunday (docstring).  "+ slot": add the slot's months to the month index, then its days/time.
 * "first `count` times at or after start (and not after end)": start and end inclusive;
   count <= 0 gives nothing; end None = unbounded.  SCHEDULE returns a generator: it is consumed
   under a deterministic step cap (calls of Delta.add_to) so that the check cannot hang.
 * An interval of 0 units: the parser accepts it; the occurrence set is then finite
   ({boundary + slot}); the check demands that finite set (hang / repetition = violation).
 * "Invalid schedule strings raise ValueError": strings outside the docstring grammar (built by
   mutation classes that are invalid by construction) must raise ValueError from SCHEDULE(...)
   itself; any other exception class, or acceptance, is a violation.  A numeral too large for
   timedelta is either invalid (ValueError demanded) or valid (occurrences demanded): OverflowError
   satisfies neither.
 * Naive starts (the engine attaches the document zone = UTC here) are modelled; zone-aware starts
   are compared with the oracle only (wall-clock arithmetic, zone preserved).
ASSUMPTIONS: ASCII schedule strings for the model correspondence; all occurrences representable
   (year <= 9999); numerals shorter than 4300 digits; `start` given (not NOW()); string starts
   (dateutil) excluded.
"""
import datetime
import itertools
import signal

DT = datetime.datetime
TD = datetime.timedelta

UNITS = ["years", "months", "weeks", "days", "hours", "minutes", "seconds"]
SING = {"years": "year", "months": "month", "weeks": "week", "days": "day", "hours": "hour",
        "minutes": "minute", "seconds": "second"}
ALIAS = {"years": "annual", "months": "monthly", "weeks": "weekly", "days": "daily", "hours": "hourly"}
UNIT_SECS = {"weeks": 604800, "days": 86400, "hours": 3600, "minutes": 60, "seconds": 1}
MONTHS = ['january', 'february', 'march', 'april', 'may', 'june', 'july', 'august',
          'september', 'october', 'november', 'december']
WDAYS = ['sunday', 'monday', 'tuesday', 'wednesday', 'thursday', 'friday', 'saturday']

SIG_ZERO = "interval of 0 units is accepted and never advances (hang or repeated occurrence)"
SIG_1900 = "unit boundary before 1900-01-01: DATE adds 1900 to the year"
SIG_OVERFLOW = "numeral beyond the timedelta range raises OverflowError instead of ValueError"
SIG_DOC = "docstring example '10-minute: +0s' is rejected (the seconds suffix must be an upper-case S)"

# ------------------------------------------------------------------------------------------------
# running the real code under a deterministic step cap


class _StepCap(BaseException):
  pass


class _Alarm(BaseException):
  pass


_budget = [0]


def _install_cap():
  import functions.schedule as S
  if getattr(S.Delta.add_to, "_gx_wrapped", False):
    return S
  orig = S.Delta.add_to

  def add_to(self, dtime):
    _budget[0] -= 1
    if _budget[0] < 0:
      raise _StepCap()
    return orig(self, dtime)
  add_to._gx_wrapped = True
  S.Delta.add_to = add_to
  return S


def _on_alarm(signum, frame):
  raise _Alarm()


def run_real(s, start, end, count, nslots_hint=8):
  """('ok', [datetimes]) | ('error', class name, 'parse'|'series') | ('hang', how)"""
  S = _install_cap()
  # the termination theorem: count+2 passes, each at most nslots+1 calls of add_to
  _budget[0] = 4 * (max(count, 0) + 4) * (nslots_hint + 2) + 200
  old = signal.signal(signal.SIGALRM, _on_alarm)
  signal.setitimer(signal.ITIMER_REAL, 30)      # safety net only; never reached on a sane tree
  try:
    try:
      gen = S.SCHEDULE(s, start=start, count=count, end=end)
    except (_StepCap, _Alarm):
      return ("hang", "during SCHEDULE() call")
    except Exception as e:      # pylint: disable=broad-except
      return ("error", type(e).__name__, "parse")
    try:
      out = list(itertools.islice(gen, max(count, 0) + 5))
    except _StepCap:
      return ("hang", "step cap")
    except _Alarm:
      return ("hang", "wall clock safety net")
    except Exception as e:      # pylint: disable=broad-except
      return ("error", type(e).__name__, "series")
    return ("ok", out)
  finally:
    signal.setitimer(signal.ITIMER_REAL, 0)
    signal.signal(signal.SIGALRM, old)


def real_parse(s):
  """parsed structure of the real Schedule object, canonical: (unit, [months, us], [[months, us]..])"""
  S = _install_cap()
  try:
    sch = S.Schedule(s)
  except Exception as e:        # pylint: disable=broad-except
    return {"error": type(e).__name__}

  def dl(d):
    td = d._timedelta
    return [str(d._months), str((td.days * 86400 + td.seconds) * 1000000 + td.microseconds)]
  return {"unit": sch._interval_unit, "interval": dl(sch._interval), "slots": [dl(x) for x in sch._slots]}


# ------------------------------------------------------------------------------------------------
# the brute-force oracle (plain datetime arithmetic; knows nothing of the model or the parser)

def fields(d):
  return [d.year, d.month, d.day, d.hour, d.minute, d.second, d.microsecond]


def from_fields(f, tz=None):
  return DT(f[0], f[1], f[2], f[3], f[4], f[5], f[6], tzinfo=tz)


def o_boundary(start, unit):
  """the unit boundary at or before `start` (naive datetime)"""
  if unit == "years":
    return DT(start.year, 1, 1)
  if unit == "months":
    return DT(start.year, start.month, 1)
  day = DT(start.year, start.month, start.day)
  if unit == "weeks":
    while day.weekday() != 6:       # Sunday
      day -= TD(days=1)
    return day
  if unit == "days":
    return day
  if unit == "hours":
    return day + TD(hours=start.hour)
  if unit == "minutes":
    return day + TD(hours=start.hour, minutes=start.minute)
  return day + TD(hours=start.hour, minutes=start.minute, seconds=start.second)


def o_add_months(d, months):
  """first-of-month `d` moved by `months` months"""
  idx = d.year * 12 + (d.month - 1) + months
  return d.replace(year=idx // 12, month=idx % 12 + 1)


def o_base(b, unit, n, k):
  if unit == "years":
    return o_add_months(b, 12 * n * k)
  if unit == "months":
    return o_add_months(b, n * k)
  return b + TD(seconds=UNIT_SECS[unit] * n * k)


def o_slot(base, unit, slot):
  months, secs = slot
  if months:
    # only month/year based schedules have month offsets; base is a first of month
    base = o_add_months(base, months)
  return base + TD(seconds=secs)


def oracle(sem, start, end, count):
  """Returns ('out-of-scope', why) or ('expect', [naive datetimes]).  sem = (unit, n, slots)."""
  unit, n, slots = sem
  if not slots:
    return ("out-of-scope", "no slots")
  passes = max(count, 0) + 3
  if n == 0:
    passes = 1          # the set {boundary + slot} is finite
  cands = []
  try:
    b = o_boundary(start, unit)
    for k in range(passes):
      base = o_base(b, unit, n, k)
      nxt = o_base(b, unit, n, k + 1)
      prev = None
      for sl in slots:
        t = o_slot(base, unit, sl)
        if prev is not None and not prev < t:
          return ("out-of-scope", "slots not increasing")
        if not (base <= t and (t < nxt or n == 0)):
          return ("out-of-scope", "slot outside its interval")
        prev = t
        cands.append(t)
  except (OverflowError, ValueError):
    return ("out-of-scope", "not representable")
  if cands and cands[-1].year > 9990:
    return ("out-of-scope", "not representable")
  if n == 0 and not all(x < y for x, y in zip(cands, cands[1:])):
    return ("out-of-scope", "slots not increasing")
  good = sorted(t for t in set(cands) if t >= start and (end is None or t <= end))
  return ("expect", good[:max(count, 0)])


# ------------------------------------------------------------------------------------------------
# generators

def rcase(rng, s):
  m = rng.random()
  if m < 0.6:
    return s
  if m < 0.75:
    return s.upper()
  if m < 0.9:
    return s.capitalize()
  return "".join(c.upper() if rng.random() < 0.5 else c for c in s)


def sp(rng, must=False):
  r = rng.random()
  if must:
    return " " if r < 0.8 else ("  " if r < 0.9 else "\t")
  return "" if r < 0.5 else (" " if r < 0.9 else "  ")


def render_interval(rng, unit, n):
  if n == 1 and unit in ALIAS and rng.random() < 0.6:
    return rcase(rng, ALIAS[unit])
  name = SING[unit] if rng.random() < 0.5 else unit
  sep = rng.choice(["-", "-", " ", "--", " - ", "\t"])
  num = str(n) if rng.random() < 0.9 else "0" + str(n)
  return num + sep + rcase(rng, name)


def render_time(rng, h, mi):
  """a time-of-day part meaning h hours mi minutes (0 <= h < 24)"""
  forms = ["24"]
  if mi == 0:
    forms.append("ampm0")
  forms.append("ampm")
  f = rng.choice(forms)
  if f == "24":
    hh = str(h) if rng.random() < 0.6 else "%02d" % h
    return "%s:%02d" % (hh, mi)
  suffix = rcase(rng, "am" if h < 12 else "pm")
  h12 = h % 12
  if h12 == 0 and rng.random() < 0.8:
    h12 = 12
  if f == "ampm0":
    return "%d%s" % (h12, suffix)
  return "%d:%02d%s" % (h12, mi, suffix)


def render_slot(rng, unit, months, secs):
  """Text of one slot with the given offset (months, secs) from the interval start."""
  parts = []
  days, rem = divmod(secs, 86400)
  h, rem2 = divmod(rem, 3600)
  mi, s = divmod(rem2, 60)

  def time_or_delta():
    if h == 0 and mi == 0 and rng.random() < 0.5:
      return
    if rng.random() < 0.75:
      parts.append(render_time(rng, h, mi))
    else:
      if h or rng.random() < 0.3:
        parts.append("+%dH" % h)
      if mi or rng.random() < 0.3:
        parts.append("+%dM" % mi)

  if unit == "years":
    y, mo = divmod(months, 12)
    if y or rng.random() < 0.1:
      parts.append("+%dy" % y)
    r = rng.random()
    if r < 0.45:
      nm = MONTHS[mo] if rng.random() < 0.4 else MONTHS[mo][:3]
      parts.append("%s-%d" % (rcase(rng, nm), days + 1))
    elif r < 0.8:
      parts.append("%d/%d" % (mo + 1, days + 1))
    else:
      if mo or rng.random() < 0.3:
        parts.append("+%dm" % mo)
      if days or rng.random() < 0.3:
        parts.append("+%dd" % days)
    time_or_delta()
  elif unit == "months":
    if months or rng.random() < 0.15:
      parts.append("+%dm" % months)
    r = rng.random()
    if r < 0.6:
      parts.append("/%d" % (days + 1))
    elif r < 0.8:
      w, dd = divmod(days, 7)
      parts.append("+%dw" % w)
      parts.append("+%dd" % dd)
    elif days or rng.random() < 0.5:
      parts.append("+%dd" % days)
    time_or_delta()
  elif unit == "weeks":
    w, dd = divmod(days, 7)
    if w or rng.random() < 0.1:
      parts.append("+%dw" % w)
    if rng.random() < 0.7:
      nm = WDAYS[dd]
      nm = rng.choice([nm, nm[:3], nm[:2]])
      parts.append(rcase(rng, nm))
    elif dd or rng.random() < 0.5:
      parts.append("+%dd" % dd)
    time_or_delta()
  elif unit == "days":
    if days or rng.random() < 0.1:
      if days % 7 == 0 and days and rng.random() < 0.3:
        parts.append("+%dw" % (days // 7))
      else:
        parts.append("+%dd" % days)
    time_or_delta()
  elif unit == "hours":
    hh = days * 24 + h
    if hh or rng.random() < 0.1:
      parts.append("+%dH" % hh)
    if rng.random() < 0.7:
      parts.append(":%02d" % mi)
    elif mi or rng.random() < 0.5:
      parts.append("+%dM" % mi)
  elif unit == "minutes":
    mm = (days * 24 + h) * 60 + mi
    if mm or rng.random() < 0.2:
      parts.append("+%dM" % mm)
  else:
    if rng.random() < 0.5:
      mm = (days * 24 + h) * 60 + mi
      if mm or rng.random() < 0.2:
        parts.append("+%dM" % mm)
    else:
      s = secs
  if s or not parts or (unit in ("minutes", "seconds") and rng.random() < 0.3):
    parts.append("+%dS" % s)
  rng.shuffle(parts)
  return sp(rng) + sp(rng, True).join(parts) + sp(rng)


def gen_schedule(rng, want_ordered=True):
  """(string, sem) with sem = (unit, n, [(months, secs), ...])"""
  unit = rng.choice(UNITS[:5]) if rng.random() < 0.8 else rng.choice(UNITS[5:])
  n = 1 if rng.random() < 0.45 else rng.choice([2, 2, 3, 4, 5, 6, 7, 10, 12, 24, 30, 36])
  nslots = rng.choice([1, 1, 2, 2, 3, 4, 6])
  slots = set()
  for _ in range(nslots):
    if unit in ("years", "months"):
      M = n * (12 if unit == "years" else 1)
      mo = rng.randrange(M) if rng.random() < 0.9 else rng.randrange(M + 2)
      dmax = 28 if rng.random() < 0.8 else 31
      day = rng.randrange(dmax)
      tod = rng.choice([0, 0, rng.randrange(24) * 3600, rng.randrange(1440) * 60,
                        rng.randrange(86400)])
      slots.add((mo, day * 86400 + tod))
    else:
      span = n * UNIT_SECS[unit]
      r = rng.random()
      if r < 0.25:
        o = rng.randrange(span)
      elif r < 0.55:
        o = rng.randrange(0, span, 60) if span > 60 else rng.randrange(span)
      elif r < 0.85:
        o = rng.randrange(0, span, 3600) if span > 3600 else rng.randrange(span)
      elif r < 0.95:
        o = 0
      else:
        o = span + rng.randrange(span)      # outside the interval
      slots.add((0, o))
  slots = sorted(slots)
  if not want_ordered and len(slots) > 1:
    rng.shuffle(slots)
  if not want_ordered and rng.random() < 0.3:
    slots.append(slots[0])        # a repeated slot
  text = render_interval(rng, unit, n) + sp(rng) + ":" + ",".join(
    render_slot(rng, unit, mo, secs) for (mo, secs) in slots)
  text = sp(rng) + text
  return text, (unit, n, slots)


def gen_start(rng, sem, lo=1901, hi=2100):
  y = rng.randint(lo, hi)
  r = rng.random()
  if r < 0.15:
    m, d = rng.choice([(1, 1), (12, 31), (2, 28), (3, 1), (1, 31), (10, 31), (6, 30)])
  elif r < 0.2 and y % 4 == 0 and (y % 100 != 0 or y % 400 == 0):
    m, d = 2, 29
  else:
    m = rng.randint(1, 12)
    d = rng.randint(1, 28) if rng.random() < 0.8 else rng.randint(1, [31, 28, 31, 30, 31, 30, 31, 31, 30, 31, 30, 31][m - 1])
  r = rng.random()
  if r < 0.25:
    t = (0, 0, 0, 0)
  elif r < 0.5:
    t = (rng.randrange(24), 0, 0, 0)
  elif r < 0.75:
    t = (rng.randrange(24), rng.randrange(60), 0, 0)
  elif r < 0.9:
    t = (rng.randrange(24), rng.randrange(60), rng.randrange(60), 0)
  else:
    t = (rng.randrange(24), rng.randrange(60), rng.randrange(60), rng.randrange(1000000))
  return DT(y, m, d, *t)


def gen_call(rng, sem, lo=1901, hi=2100):
  """start, end, count: often exactly on / one microsecond off an occurrence"""
  start = gen_start(rng, sem, lo, hi)
  count = rng.choice([1, 2, 3, 4, 5, 8, 10, 10, 15, 25]) if rng.random() < 0.9 else rng.choice([0, -1, -5])
  r = rng.random()
  if r < 0.45 and sem[1] > 0:
    st, exp = oracle(sem, start, None, 6)
    if st == "expect" and exp:
      t = rng.choice(exp)
      start = t if rng.random() < 0.6 else t + rng.choice([TD(microseconds=1), TD(microseconds=-1), TD(seconds=1)])
  end = None
  r = rng.random()
  if r < 0.5 and sem[1] > 0:
    st, exp = oracle(sem, start, None, max(count, 1) + 2)
    if st == "expect" and exp:
      t = rng.choice(exp)
      end = t if rng.random() < 0.6 else t + rng.choice([TD(microseconds=1), TD(microseconds=-1), TD(days=1), TD(seconds=-1)])
    else:
      end = start + TD(days=rng.randrange(400))
  elif r < 0.6:
    end = start - TD(seconds=rng.randrange(100000))
  return start, end, count


INVALID_KINDS = [
  "no colon", "unknown unit", "interval without number", "slot type not allowed for unit",
  "duplicate unit in slot", "unknown month or weekday name", "empty slot", "junk token",
  "unknown delta unit",
]


def gen_invalid(rng):
  """(string, kind): strings outside the docstring grammar by construction"""
  kind = rng.choice(INVALID_KINDS)
  if kind == "no colon":
    s = rng.choice(["daily +1d", "weekly Mon", "3-day 9am", "annual Jan-15", "hourly", "", "2-weeks Mo, +1w Tu",
                    "monthly /15 2pm", "daily; 9am"])
  elif kind == "unknown unit":
    s = rng.choice(["3-fortnight: +1d", "2-dayz: 9am", "1-decade: Jan-1", "5-min: +0s", "2-d: 9am", "1-mon: /1",
                    "yearly: Jan-1", "minutely: +0S", "2-hourly: :15", "biweekly: Mo"])
  elif kind == "interval without number":
    s = rng.choice(["day: 9am", "-day: 9am", "x-day: 9am", "two-weeks: Mo", "week: Mo", "-3-day: 9am",
                    "3.5-day: 9am", "+2-day: 9am", "3-: 9am", "3: 9am", " : 9am", "3day: 9am", "3_day: 9am"])
  elif kind == "slot type not allowed for unit":
    s = rng.choice(["hourly: 9am", "hourly: 10:30", "daily: Mon", "weekly: /15", "monthly: Jan-15", "10-minute: :30",
                    "daily: :15", "monthly: Mon", "weekly: 1/15", "annual: /15", "annual: Mon", "30-second: 9am",
                    "2-hour: Fri", "daily: /1", "10-minute: 1:00", "weekly: :45", "annual: :30"])
  elif kind == "duplicate unit in slot":
    s = rng.choice(["daily: +1d +2d", "daily: 9:30am +2H", "weekly: Mon +1d", "annual: Jan-15 +1d", "annual: Jan-15 +1m",
                    "monthly: /5 +1d", "hourly: :15 +5M", "daily: 9am 10am", "weekly: Mon Tue", "daily: 9am +30M",
                    "2-weeks: +1w +1w", "10-minute: +1S +2S", "annual: 1/15 2/15"])
  elif kind == "unknown month or weekday name":
    s = rng.choice(["weekly: Mox", "annual: Jam-15", "weekly: M", "weekly: Mond", "annual: J-1", "annual: Sept-1",
                    "weekly: Tues", "annual: Janu-1", "weekly: day", "weekly: am", "2-weeks: xx"])
  elif kind == "empty slot":
    s = rng.choice(["daily: 9am,, 10am", "daily:", "daily: ,", "daily: 9am,", "weekly: , Mo", "daily:   ", "hourly: :15, \t, :45"])
  elif kind == "junk token":
    s = rng.choice(["daily: 9am!", "daily: 9:3", "daily: 9:300", "daily: +d", "daily: +1", "annual: 1/2/3", "daily: 25xm",
                    "daily: 9 am", "daily: 9:30 pm", "daily: -1d", "daily: +1.5d", "daily: 9.30", "hourly: :5", "hourly: :123",
                    "annual: Jan-", "annual: -15", "annual: Jan15", "monthly: /", "monthly: //5", "daily: ++1d", "daily: 9am#",
                    "daily: 9:30:15", "weekly: Mo-Fr", "daily: 9ampm", "daily: am", "daily: +1d2d", "annual: 1/", "annual: /1/"])
  else:
    s = rng.choice(["daily: +1D", "daily: +1x", "daily: +1h", "daily: +1dd", "hourly: +5min", "daily: +1Y",
                    "daily: +1W", "10-minute: +5sec", "daily: +1hr"])
  if rng.random() < 0.3:
    s = " " + s + " "
  return s, kind


TOKEN_ALPHABET = ['1', '2', ':', '/', '+', '-', 'a', 'm', 'p', 'd', 'H', 'o']


def gen_junk(rng):
  alphabet = "0123459:+-/, \t\nadmpwyHMSJanFrMoTuehi"
  n = rng.randint(0, 14)
  body = "".join(rng.choice(alphabet) for _ in range(n))
  head = rng.choice(["daily", "weekly", "annual", "monthly", "hourly", "2-day", "3-weeks", "10-minute", "0-day",
                     "5 second", "1-year", "", "day", "2-"])
  return head + rng.choice([":", ":", ": ", " ", ""]) + body


def gen_bignum(rng):
  big = rng.choice([10 ** 9, 10 ** 10, 99999999999, 10 ** 15, 10 ** 30, 142857143, 24 * 10 ** 9])
  form = rng.random()
  if form < 0.35:
    unit = rng.choice(["day", "week", "hour", "minute", "second"])
    if unit in ("minute", "second", "hour"):
      big = max(big, 10 ** 15)
    return "%d-%s: +0S" % (big, unit)
  if form < 0.7:
    u = rng.choice("dwHMS")
    if u in "HMS":
      big = max(big, 10 ** 15)
    return "daily: +%d%s" % (big, u)
  if form < 0.85:
    return "annual: Jan-%d" % max(big, 10 ** 10)
  return "daily: 9am, +%dd, zzz" % max(big, 10 ** 10)


# ------------------------------------------------------------------------------------------------
# one case: real code, model answer, oracle

def classify_known(sem, start, unit):
  """which recorded defect class does this input belong to (None = none)"""
  if sem is not None and sem[1] == 0:
    return SIG_ZERO
  if unit is not None and start is not None:
    try:
      if o_boundary(start.replace(tzinfo=None), unit) < DT(1900, 1, 1):
        return SIG_1900
    except (OverflowError, ValueError):
      return SIG_1900
  return None


def to_op(case):
  op = {"m": "schedule", "s": case["s"]}
  if case.get("start") is not None and case.get("tz") is None and case.get("ascii", True):
    op["start"] = case["start"]
    op["end"] = case.get("end")
    op["count"] = case["count"]
  return op


def case_objects(case):
  import moment
  tz = moment.tzinfo(case["tz"]) if case.get("tz") else None
  start = case.get("start")
  if start is not None:
    if case.get("start_is_date"):
      start = datetime.date(start[0], start[1], start[2])
    else:
      start = from_fields(start, tz)
  end = case.get("end")
  if end is not None:
    end = from_fields(end, tz)
  return start, end, tz


def naive(d):
  return d.replace(tzinfo=None)


def evaluate(ck, case, mo, verbose=False):
  """Runs the real code on the case, applies the oracle, diffs with the model answer `mo`
  (None = model not consulted).  Returns a mismatch description or None."""
  import moment
  s = case["s"]
  stream = case["stream"]
  sem = case.get("sem")
  if sem is not None:
    sem = (sem[0], sem[1], [tuple(x) for x in sem[2]])
  start, end, tz = case_objects(case)
  count = case.get("count", 10)
  ck.evaluated()
  ck.count("stream:" + stream)
  rp = dict(case)

  # ---- parse only (exhaustive tokens, junk without a call)
  if start is None:
    real = real_parse(s)
    if "error" in real:
      ck.count("real:parse " + real["error"])
      if real["error"] != "ValueError":
        big = any(len(x) >= 9 for x in _digit_runs(s))
        ck.violation(SIG_OVERFLOW if (real["error"] == "OverflowError" and big) else
                     "schedule string raises %s instead of ValueError (%s)" % (real["error"], stream),
                     "Schedule(%r) raised %s" % (s, real["error"]), rp)
    else:
      ck.count("real:parse ok")
    if mo is not None and mo != real:
      return {"case": case, "impl": real, "model": mo}
    return None

  nstart = naive(start) if isinstance(start, DT) else DT(start.year, start.month, start.day)
  nend = naive(end) if end is not None else None
  nslots = len(sem[2]) if sem else s.count(",") + 1
  real = run_real(s, start, end, count, nslots)
  if verbose:
    print("replay: SCHEDULE(%r, start=%r, end=%r, count=%r) -> %s" % (
      s, start, end, count, real if real[0] != "ok" else [str(x) for x in real[1]]))
  ck.count("real:" + (real[0] if real[0] != "error" else "%s %s" % (real[2], real[1])))

  # canonical real outcome for the differential
  if real[0] == "ok":
    rc = {"out": [fields(x) for x in real[1]]}
    bad_tz = [x for x in real[1] if x.tzinfo is not (tz or moment.TZ_UTC)]
    if bad_tz:
      ck.violation("generated time does not carry the zone of start", "%r" % (bad_tz[0],), rp)
  elif real[0] == "hang":
    rc = {"out": "diverges"}
  else:
    rc = {"error": real[1], "phase": real[2]}

  known_cls = classify_known(sem, nstart, sem[0] if sem else None)

  # ---- the property's clauses
  if stream == "invalid":
    if not (real[0] == "error" and real[1] == "ValueError" and real[2] == "parse"):
      if real[0] == "error":
        ck.violation("invalid schedule (%s) raises %s, not ValueError" % (case["kind"], real[1]),
                     "SCHEDULE(%r) raised %s during %s" % (s, real[1], real[2]), rp)
      else:
        ck.violation("invalid schedule (%s) is accepted" % case["kind"],
                     "SCHEDULE(%r) -> %r" % (s, rc), rp)
  elif stream == "bignum":
    if not (real[0] == "error" and real[1] == "ValueError"):
      ck.violation(SIG_OVERFLOW if (real[0] == "error" and real[1] == "OverflowError") else
                   "numeral beyond the timedelta range: %s" % (real[1] if real[0] == "error" else "accepted"),
                   "SCHEDULE(%r) -> %r" % (s, rc), rp)
  elif sem is not None:
    st, exp = oracle(sem, nstart, nend, count)
    if st == "out-of-scope":
      ck.count("oracle:out-of-scope " + exp)
    else:
      ck.count("oracle:in scope")
      expf = [fields(x) for x in exp]
      if rc.get("out") != expf:
        if known_cls:
          sig = known_cls
        elif stream == "doc-example":
          sig = SIG_DOC
        elif real[0] == "error":
          sig = "valid %s-based schedule raises %s" % (sem[0], real[1])
        elif real[0] == "hang":
          sig = "valid %s-based schedule does not terminate within count+2 intervals" % sem[0]
        else:
          got = rc["out"]
          if len(got) != len(expf):
            what = "too many" if len(got) > len(expf) else "too few"
          elif got and expf and got[0] != expf[0]:
            what = "wrong first"
          else:
            what = "wrong later"
          sig = "%s occurrences for a %s-based schedule (vs brute-force enumeration)" % (what, sem[0])
        ck.violation(sig, "SCHEDULE(%r, start=%s, end=%s, count=%r): got %r expected %r" % (
          s, nstart, nend, count, rc.get("out", rc), expf), rp)
      elif len(expf) >= 2:
        ck.nontrivial_case([s, case["start"], case.get("end"), count])
        ck.sample({"schedule": s, "start": str(nstart), "end": str(nend), "count": count,
                   "out": [str(x) for x in exp][:4]})
  else:
    # junk / ascii-free streams: no semantic description; only the error class is demanded
    if real[0] == "error" and real[1] != "ValueError":
      big = any(len(x) >= 9 for x in _digit_runs(s))
      ck.violation(SIG_OVERFLOW if (real[1] == "OverflowError" and big) else
                   "schedule string raises %s instead of ValueError (%s)" % (real[1], stream),
                   "SCHEDULE(%r) raised %s during %s" % (s, real[1], real[2]), rp)
    if real[0] == "hang":
      zero = s.lstrip().startswith("0")
      ck.violation(SIG_ZERO if zero else "accepted schedule string does not terminate (%s)" % stream,
                   "SCHEDULE(%r, start=%s, count=%r) exceeded the step cap" % (s, nstart, count), rp)

  # ---- correspondence with the model
  if mo is None:
    return None
  if "error" in mo:
    mc = {"error": mo["error"]}
    if "error" in rc and rc.get("phase") == "parse":
      rcc = {"error": rc["error"]}
    else:
      rcc = rc
  else:
    mc = {"out": mo.get("out")}
    rcc = dict(rc)
    rcc.pop("phase", None)
    if "error" in rc and rc.get("phase") == "series":
      # Python's representable range is not modelled
      if any(f[0] > 9990 for f in (mo.get("out") or []) if isinstance(f, list)) or case.get("maybe_unrepresentable"):
        ck.count("skipped:not representable")
        return None
  if mc != rcc:
    return {"case": case, "impl": rc, "model": mo}
  return None


def _digit_runs(s):
  out, cur = [], ""
  for c in s:
    if c.isdigit():
      cur += c
    else:
      if cur:
        out.append(cur)
      cur = ""
  if cur:
    out.append(cur)
  return out


# ------------------------------------------------------------------------------------------------

WITNESSES = [
  # replayed Lean witnesses (GristProps/C35.lean): zero_interval_witness, its repeating variant,
  # before_1900_witness, the 1900-01-03 weekly example, overflow_witness
  {"stream": "zero", "s": "0-day: 1am", "sem": ["days", 0, [[0, 3600]]], "start": [2018, 9, 4, 2, 0, 0, 0], "end": None, "count": 1},
  {"stream": "zero", "s": "0-day: 1am", "sem": ["days", 0, [[0, 3600]]], "start": [2018, 9, 4, 0, 0, 0, 0], "end": None, "count": 3},
  {"stream": "early", "s": "daily: 07:30", "sem": ["days", 1, [[0, 27000]]], "start": [1850, 9, 4, 14, 0, 0, 0], "end": None, "count": 2},
  {"stream": "early", "s": "weekly: +0d", "sem": ["weeks", 1, [[0, 0]]], "start": [1900, 1, 3, 0, 0, 0, 0], "end": None, "count": 1},
  {"stream": "bignum", "s": "daily: +99999999999d", "start": [2018, 9, 4, 2, 0, 0, 0], "end": None, "count": 2},
]

DOC_EXAMPLES = [
  ('annual: Jan-15, Apr-15, Jul-15, Oct-15', ["years", 1, [[0, 14 * 86400], [3, 14 * 86400], [6, 14 * 86400], [9, 14 * 86400]]]),
  ('annual: 1/15, 4/15, 7/15', ["years", 1, [[0, 14 * 86400], [3, 14 * 86400], [6, 14 * 86400]]]),
  ('monthly: /1 2pm, /15 5pm', ["months", 1, [[0, 14 * 3600], [0, 14 * 86400 + 17 * 3600]]]),
  ('3-months: /10, +1m /20', ["months", 3, [[0, 9 * 86400], [1, 19 * 86400]]]),
  ('weekly: Mo 9am, Tu 9am, Fr 2pm', ["weeks", 1, [[0, 86400 + 9 * 3600], [0, 2 * 86400 + 9 * 3600], [0, 5 * 86400 + 14 * 3600]]]),
  ('2-weeks: Mo, +1w Tu', ["weeks", 2, [[0, 86400], [0, 9 * 86400]]]),
  ('daily: 07:30, 21:00', ["days", 1, [[0, 27000], [0, 75600]]]),
  ('2-day: 12am, 4pm, +1d 8am', ["days", 2, [[0, 0], [0, 16 * 3600], [0, 32 * 3600]]]),
  ('hourly: :15, :45', ["hours", 1, [[0, 900], [0, 2700]]]),
  ('4-hour: :00, +1H :20, +2H :40', ["hours", 4, [[0, 0], [0, 4800], [0, 9600]]]),
  ('10-minute: +0s', None),    # the docstring's own example: lower-case s
  ('10-minute: +0S', ["minutes", 10, [[0, 0]]]),
]


def build_cases(ck):
  rng = ck.rng
  quick = ck.tier == "quick"
  cases = []

  def call_case(stream, s, sem, lo=1901, hi=2100, **extra):
    start, end, count = gen_call(rng, sem, lo, hi)
    c = {"stream": stream, "s": s, "sem": [sem[0], sem[1], [list(x) for x in sem[2]]],
         "start": fields(start), "end": fields(end) if end is not None else None, "count": count}
    c.update(extra)
    return c

  for w in WITNESSES:
    cases.append(dict(w))
  for s, sem in DOC_EXAMPLES:
    if sem is None:
      cases.append({"stream": "doc-example", "s": s, "sem": ["minutes", 10, [[0, 0]]],
                    "start": [2018, 9, 4, 14, 0, 0, 0], "end": None, "count": 4})
    else:
      cases.append({"stream": "valid", "s": s, "sem": sem, "start": [2018, 9, 4, 14, 0, 0, 0], "end": None, "count": 4})
      for _ in range(3):
        cases.append(call_case("valid", s, (sem[0], sem[1], [tuple(x) for x in sem[2]])))

  n_valid = 4000 if quick else 80000
  for _ in range(n_valid):
    s, sem = gen_schedule(rng, True)
    c = call_case("valid", s, sem)
    if rng.random() < 0.04:
      c["start_is_date"] = True
      c["start"] = c["start"][:3] + [0, 0, 0, 0]
    cases.append(c)
  for _ in range(n_valid // 6):
    s, sem = gen_schedule(rng, False)
    cases.append(call_case("unordered", s, sem))
  # zone-aware starts: oracle only
  for _ in range(n_valid // 12):
    s, sem = gen_schedule(rng, True)
    cases.append(call_case("valid-aware", s, sem, tz=rng.choice(["America/New_York", "Europe/Paris", "Asia/Kolkata", "UTC"])))
  # interval of zero units
  for _ in range(60 if quick else 600):
    s, sem = gen_schedule(rng, True)
    unit, n, slots = sem
    if unit in ("years", "months"):
      slots = [x for x in slots if x[0] == 0] or [(0, 0)]
    else:
      slots = [(0, x[1] % UNIT_SECS[unit]) for x in slots]
      slots = sorted(set(slots))
    sem = (unit, 0, slots)
    s = "0-%s:%s" % (SING[unit], ",".join(render_slot(rng, unit, mo, secs) for mo, secs in slots))
    cases.append(call_case("zero", s, sem))
  # early years
  for _ in range(60 if quick else 600):
    s, sem = gen_schedule(rng, True)
    cases.append(call_case("early", s, sem, lo=1, hi=1899) if rng.random() < 0.8 else
                 call_case("early", s, sem, lo=1900, hi=1900))
  for d in range(1, 8):
    cases.append({"stream": "early", "s": "weekly: Sa", "sem": ["weeks", 1, [[0, 6 * 86400]]],
                  "start": [1900, 1, d, 0, 0, 0, 0], "end": None, "count": 2})
  # invalid strings
  for _ in range(1500 if quick else 20000):
    s, kind = gen_invalid(rng)
    cases.append({"stream": "invalid", "kind": kind, "s": s, "start": [2018, 9, 4, 14, 0, 0, 0], "end": None, "count": 3})
  # large numerals
  for _ in range(40 if quick else 400):
    cases.append({"stream": "bignum", "s": gen_bignum(rng), "start": [2018, 9, 4, 14, 0, 0, 0], "end": None, "count": 2})
  # junk strings: correspondence of the recognisers, error class
  for _ in range(3000 if quick else 60000):
    s = gen_junk(rng)
    c = {"stream": "junk", "s": s}
    if rng.random() < 0.5:
      c.update({"start": fields(gen_start(rng, None)), "end": None, "count": rng.choice([1, 3, 5])})
    cases.append(c)
  # non-ASCII: no model, error class only
  for _ in range(200 if quick else 2000):
    s = gen_junk(rng)
    pos = rng.randrange(len(s) + 1)
    s = s[:pos] + rng.choice(["é", "١", "K", " ", " ", "１", "ſ", "\U0001f600"]) + s[pos:]
    cases.append({"stream": "non-ascii", "s": s, "ascii": False, "start": [2018, 9, 4, 14, 0, 0, 0], "end": None, "count": 2})
  # exhaustive slot tokens over a small alphabet, for every interval unit
  maxlen = 3 if quick else 4
  heads = ["annual", "monthly", "weekly", "daily", "hourly", "5-minute", "5-second"]
  for L in range(1, maxlen + 1):
    for tok in itertools.product(TOKEN_ALPHABET, repeat=L):
      t = "".join(tok)
      for h in (heads if L < 4 else ["annual", "daily", "hourly"]):
        cases.append({"stream": "tokens", "s": "%s: %s" % (h, t)})
  return cases


def run(ck):
  ck.rule = ("seeded streams: structured valid schedules (all 7 units, multiples, 1-6 slots rendered in every documented "
             "slot form) x starts 1901-2100 (often exactly on / 1us off an occurrence) x ends x counts; unordered/out-of-window "
             "slots (correspondence only); zone-aware starts (oracle only); 0-unit intervals; starts before 1900; invalid strings "
             "by mutation class; large numerals; junk strings; non-ASCII junk; exhaustive slot tokens of length <=3 (quick) / <=4 "
             "over a 12-character alphabet for every unit.  non-trivial = in-scope valid schedule whose real output equals the "
             "brute-force enumeration and has >= 2 occurrences; distinct by (string, start, end, count)")
  ck.assumptions = [
    "ASCII schedule strings for the model correspondence (non-ASCII strings: error class only)",
    "all occurrences representable by datetime (year <= 9999); numerals shorter than 4300 digits",
    "start is given (not NOW()); string starts (dateutil) excluded; naive starts get the document zone (UTC in the harness)",
    "zone-aware starts: wall-clock arithmetic in the zone of start, compared with the oracle only (not modelled)",
    "theorems assume the unit boundary of start is not before 1900-01-01 and interval >= 1 (the excluded inputs are recorded findings)",
  ]
  ck.lean(["GristProps.C35"])
  cases = build_cases(ck)
  ops, idx = [], []
  for i, c in enumerate(cases):
    if c.get("ascii", True) and c.get("tz") is None:
      ops.append(to_op(c))
      idx.append(i)
  answers = ck.driver(ops)
  model = dict(zip(idx, answers))
  mism = None
  for i, c in enumerate(cases):
    m = evaluate(ck, c, model.get(i))
    if m is not None:
      ck.count("model_impl_disagreements")
      if mism is None:
        mism = m
  if mism and not ck.has_impl_violation():
    ck.broken("correspondence functions.schedule vs Grist.Schedule",
              "model and implementation differ and the property's clauses hold on all explored inputs: %r" % (mism,), mism["case"])
  civil_correspondence(ck)


def civil_correspondence(ck):
  """the model's calendar functions against datetime.date"""
  rng = ck.rng
  zs = list(range(-719162, -719162 + 800)) + [rng.randrange(-719162, 2932896) for _ in range(3000)]
  zs += [-25568, -25567, -25566, 0, 11016, 11017, 2932896]
  epoch = datetime.date(1970, 1, 1).toordinal()
  ops = [{"m": "schedule", "op": "civil", "z": z} for z in zs]
  ans = ck.driver(ops)
  bad = None
  for z, a in zip(zs, ans):
    d = datetime.date.fromordinal(z + epoch)
    ck.evaluated()
    if a.get("ymd") != [d.year, d.month, d.day] or a.get("wd") != d.isoweekday() % 7:
      bad = bad or {"z": z, "model": a, "python": [d.year, d.month, d.day, d.isoweekday() % 7]}
  ops = [{"m": "schedule", "op": "civil", "ymd": list(datetime.date.fromordinal(z + epoch).timetuple()[:3])} for z in zs]
  for z, a in zip(zs, ck.driver(ops)):
    ck.evaluated()
    if a.get("z") != z:
      bad = bad or {"ymd->z": z, "model": a}
  if bad:
    ck.broken("correspondence civilFromDays/daysFromCivil vs datetime.date", repr(bad), bad)


def replay(ck, rp):
  case = rp["replay"]
  ck.lean(["GristProps.C35"])
  if not isinstance(case, dict) or "s" not in case:
    print("replay: nothing to replay in %r" % (case,))
    return
  mo = None
  if case.get("ascii", True) and case.get("tz") is None:
    mo = ck.driver([to_op(case)])[0]
    print("replay: model answer %r" % (mo,))
  m = evaluate(ck, case, mo, verbose=True)
  if m is not None and not ck.has_impl_violation() and not ck.known:
    ck.broken("correspondence functions.schedule vs Grist.Schedule", repr(m), case)
  ck.nontrivial_case("replay")
  print("replay: %s" % ("property violated" if (ck.violations or ck.known) else "property holds"))
