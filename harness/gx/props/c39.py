"""
C39  RenameChoices renames exactly the mapped choices.

Theorems: lean/GristProps/C39.lean about GristModel/Choices.lean (useractions.RenameChoices,
column.ChoiceColumn.rename_choices, ChoiceListColumn._rename_cell_choice, trim_update_action, the
row assertion of docactions.BulkUpdateRecord, the rewrite of the column's `_grist_Filters`).

Interpretation (fixed here):
 * "any mapping" = any JSON object of str -> str (the TypeScript signature Record<string,string>);
   keys that match nothing, identity pairs, swaps, chains, the empty string as key or image.
 * "matching value in a Choice cell" = the raw cell is a str equal to a key; "element of a Choice
   List cell" = the raw cell is a tuple of str and the element equals a key.  None, alt-text in a
   ChoiceList column (a plain str), and wrong-type raw values are "nothing else" (unchanged).
 * Simultaneously = every original value is looked up ONCE in the map (a->b, b->a swaps; a->b, b->c
   turns a into b, not c).
 * Formula columns are not written (the code documents "they should just recalculate themselves"):
   for a formula column only the saved filters are renamed.
 * "that column's saved filters" = records of `_grist_Filters` whose colRef is the column; the
   documented shape is a JSON object mapping `included` / `excluded` to an array; string entries of
   the arrays equal to a key are replaced, other entries (numbers, null, nested arrays) are kept; a
   filter whose parsed value does not change keeps its exact text.  A range filter
   (`{"min": .., "max": ..}`, app/common/FilterState.ts) has no choices in it: it must be left alone
   and must not stop the rename.  Filters that are not JSON objects at all / invalid JSON are outside
   the property (only model = code is compared, and that a failed action changes nothing).
 * "changes nothing else" = every other cell of every table (metadata included) has the same exact
   token before and after, except formula cells that read the renamed column, which must hold the
   recomputed value.

Tie: each RenameChoices is run on a live engine and through the Lean model (input extracted from the
engine just before: `col._data`, `table.row_ids`, the `_grist_Filters` records parsed with
json.loads); the emitted cell update, the emitted filter update and the error class are compared.
Search (direct oracle): expected snapshot recomputed from the snapshot before with a naive
reference, compared with the snapshot after.
"""
import copy
import json

ALPHA = ["a", "b", "c", "d", "", "A", "a b", "é", "日本", "5", "None", "x,y", '"q"', "😀"]
FRESH = ["z", "w", "new", "B", "ab", " ", "é2"]

SIG_EMPTY_KEY = "rename map has the empty string as a key on a Choice data column (slot 0 / freed slots hold '')"
SIG_RANGE = "the column has a saved range filter (a key of the filter JSON holds a number, not an array)"
SIG_RANGE_OBJ = "the column has a saved range filter with a relative-date bound (object value): rewritten as the list of its keys"


# ---------------------------------------------------------------------------------------------
# encoding for the model

def enc_cell(v):
  if v is None:
    return None
  if isinstance(v, str):
    return ["s", v]
  if isinstance(v, (tuple, list)) and all(isinstance(x, str) for x in v):
    return ["l", list(v)]
  return ["o", repr(v)]


def enc_stored_cell(v):
  """an ENCODED value from a stored doc action"""
  if isinstance(v, list) and v and v[0] == "L":
    return enc_cell(tuple(v[1:]))
  return enc_cell(v)


def enc_elem(e):
  return ["s", e] if isinstance(e, str) else ["o", json.dumps(e, sort_keys=True)]


def enc_fval(v):
  if isinstance(v, list):
    return ["a", [enc_elem(e) for e in v]]
  if isinstance(v, str):
    return ["s", v]
  if isinstance(v, dict):
    return ["k", list(v.keys())]
  return ["x", json.dumps(v)]


def enc_parsed(j):
  if isinstance(j, dict):
    return ["o", [[k, enc_fval(v)] for k, v in j.items()]]
  return ["n", json.dumps(j, sort_keys=True)]


def enc_ftext(text):
  if not text:
    return ["e"]
  try:
    j = json.loads(text)
  except ValueError:
    return ["x"]
  return enc_parsed(j)


def valid_str(s):
  try:
    s.encode("utf-8")
    return True
  except UnicodeEncodeError:
    return False


# ---------------------------------------------------------------------------------------------
# the naive reference (the property's reading), on snapshot tokens

def image(renames, s):
  return renames[s] if s in renames else s


def spec_token(kind, renames, tokn):
  if kind == "Choice":
    if isinstance(tokn, str) and tokn.startswith("s"):
      return "s" + image(renames, tokn[1:])
    return tokn
  if kind == "ChoiceList":
    if isinstance(tokn, str) and tokn.startswith("o"):
      j = json.loads(tokn[1:])
      if isinstance(j, list) and j and j[0] == "L" and all(isinstance(x, str) for x in j[1:]):
        return "o" + json.dumps(["L"] + [image(renames, x) for x in j[1:]], sort_keys=True)
    return tokn
  return tokn


def filter_class(text):
  """'' | 'list' (documented shape) | 'range' (scalar bounds) | 'rangeobj' | 'malformed'"""
  if not text:
    return ""
  try:
    j = json.loads(text)
  except ValueError:
    return "malformed"
  if not isinstance(j, dict):
    return "malformed"
  vals = list(j.values())
  if all(isinstance(v, list) for v in vals):
    return "list"
  if any(isinstance(v, str) for v in vals):
    return "malformed"
  if set(j) <= {"min", "max"}:
    scalar = any(not isinstance(v, (list, dict)) for v in vals)     # raises TypeError when iterated
    return "range" if scalar else "rangeobj"
  return "malformed"


def spec_filter(renames, text):
  """(expected parsed filter or None when untouched-by-definition, must_keep_text)"""
  cls = filter_class(text)
  if cls != "list":
    return None
  j = json.loads(text)
  return {k: [image(renames, e) if isinstance(e, str) else e for e in v] for k, v in j.items()}


# ---------------------------------------------------------------------------------------------
# one RenameChoices on a live doc: model input, real run, comparison, oracle

DEPENDENTS = {"A": ["FA", "GA"], "B": ["GB"]}     # formula columns `$A` / `$B` of table T


def col_kind(col):
  n = type(col).__name__
  return {"ChoiceColumn": "Choice", "ChoiceListColumn": "ChoiceList"}.get(n, n)


def model_op(doc, tid, cid, renames):
  t = doc.engine.tables[tid]
  col = t.get_column(cid)
  tref = [x["id"] for x in doc.meta("_grist_Tables") if x["tableId"] == tid][0]
  col_rec = [c for c in doc.meta("_grist_Tables_column") if c["colId"] == cid and int(c["parentId"]) == tref][0]
  frecs = sorted(doc.meta("_grist_Filters"), key=lambda r: r["id"])
  return {"m": "choices", "kind": col_kind(col), "formula": bool(col.is_formula()),
          "renames": [[k, v] for k, v in renames.items()],
          "data": [enc_cell(v) for v in col._data], "live": list(t.row_ids),
          "colRef": col_rec["id"],
          "filters": [[r["id"], int(r["colRef"]), enc_ftext(r["filter"])] for r in frecs]}, col_rec["id"]


def real_updates(res, tid, cid):
  cells, filters = [], []
  for a in res.raw_stored:
    name = a[0]
    if name not in ("UpdateRecord", "BulkUpdateRecord"):
      continue
    rows = a[2] if name.startswith("Bulk") else [a[2]]
    cols = a[3] if name.startswith("Bulk") else {k: [v] for k, v in a[3].items()}
    if a[1] == tid and list(cols) == [cid]:
      cells.extend([r, enc_stored_cell(v)] for r, v in zip(rows, cols[cid]))
    elif a[1] == "_grist_Filters" and list(cols) == ["filter"]:
      filters.extend([r, enc_parsed(json.loads(v))] for r, v in zip(rows, cols["filter"]))
  return cells, filters


def evaluate(ck, doc, op, model_answer=None, collect=None):
  """Apply op = ["RenameChoices", tid, cid, renames]; returns dict(ok, bad=[(signature, detail)],
  mism=None|detail, changed=bool).  `collect` (a list) receives the model op instead of comparing."""
  _, tid, cid, renames = op
  out = {"bad": [], "mism": None, "changed": False, "ok": None}
  known = tid in doc.engine.tables and doc.engine.tables[tid].has_column(cid)
  mop = colref = None
  if known:
    mop, colref = model_op(doc, tid, cid, renames)
    kind, is_formula = mop["kind"], mop["formula"]
  before = doc.snapshot()
  fbefore = {r["id"]: r for r in doc.meta("_grist_Filters")}
  res = doc.apply([op])
  after = doc.snapshot()
  out["ok"] = res.ok
  out["mop"] = mop
  out["real"] = ({"error": res.error[0]} if not res.ok else
                 dict(zip(("cells", "filters"), real_updates(res, tid, cid))))

  # ---- a failed action changes nothing (whatever the reason)
  if not res.ok and after != before:
    out["bad"].append(("failed RenameChoices left changes behind", "; ".join(_diff(before, after))))

  if not known:
    if res.ok or res.error[0] != "KeyError":
      out["bad"].append(("unknown table/column not rejected with KeyError", repr(res.error)))
    return out

  # ---- is the action inside the property's domain, and must it succeed?
  in_kind = kind in ("Choice", "ChoiceList") or is_formula
  own = [r for r in fbefore.values() if int(r["colRef"]) == colref]
  classes = [filter_class(r["filter"]) for r in own]
  in_domain = in_kind and "malformed" not in classes
  out["domain"] = in_domain
  if not in_domain:
    if kind not in ("Choice", "ChoiceList") and not is_formula and (res.ok or res.error[0] != "AttributeError"):
      out["bad"].append(("non-choice column not rejected with AttributeError", repr(res.error)))
    return out

  if not res.ok:
    if kind == "Choice" and not is_formula and renames.get("", "") != "" and res.error[0] == "AssertionError":
      sig = SIG_EMPTY_KEY
    elif "range" in classes and res.error[0] == "TypeError":
      sig = SIG_RANGE
    else:
      sig = "RenameChoices rejected a valid rename: " + res.error[0]
    out["bad"].append((sig, "%r -> %r" % (op, res.error)))
    return out

  # ---- expected snapshot
  exp = copy.deepcopy(before)
  tcols = exp[tid]["cols"]
  if not is_formula:
    old = list(tcols[cid])
    tcols[cid] = [spec_token(kind, renames, x) for x in old]
    for dep in DEPENDENTS.get(cid, []) if tid == "T" else []:
      if dep in tcols:
        tcols[dep] = [d if n == o else n for d, n, o in zip(tcols[dep], tcols[cid], old)]
  ftab = exp["_grist_Filters"]
  fafter = {r["id"]: r for r in doc.meta("_grist_Filters")}
  for i, fid in enumerate(ftab["ids"]):
    r = fbefore[fid]
    if int(r["colRef"]) != colref:
      continue
    want = spec_filter(renames, r["filter"])
    if want is None or want == json.loads(r["filter"]):
      continue                      # must keep its exact text (token stays as before)
    got = fafter[fid]["filter"]
    try:
      got_parsed = json.loads(got)
    except ValueError:
      got_parsed = None
    if got_parsed == want and list(got_parsed) == list(want):
      ftab["cols"]["filter"][i] = "s" + got        # any text that parses to the expected value
      out["changed"] = True
    else:
      out["bad"].append(("saved filter not renamed as expected",
                         "filter #%s %r -> %r, expected %r" % (fid, r["filter"], got, want)))
      ftab["cols"]["filter"][i] = "s" + got
  if exp != after:
    d = _diff(exp, after)
    first = d[0] if d else "?"
    if first.startswith("cell _grist_Filters") and "rangeobj" in classes:
      sig = SIG_RANGE_OBJ
    elif first.startswith("cell %s[" % tid) and (".%s:" % cid) in first:
      sig = "cell of the renamed column differs from the simultaneous rename"
    elif first.startswith("cell _grist_Filters"):
      sig = "a saved filter that must be kept was rewritten"
    else:
      sig = "RenameChoices changed something else"
    out["bad"].append((sig, "; ".join(d)))
  if exp[tid]["cols"].get(cid) != before[tid]["cols"].get(cid):
    out["changed"] = True
  return out


def _diff(a, b, limit=4):
  outl = []
  for t in sorted(set(a) | set(b)):
    if t not in a or t not in b:
      outl.append("table %s present on one side only" % t); continue
    if a[t]["ids"] != b[t]["ids"]:
      outl.append("table %s row ids %r vs %r" % (t, a[t]["ids"], b[t]["ids"])); continue
    for c in sorted(set(a[t]["cols"]) | set(b[t]["cols"])):
      va, vb = a[t]["cols"].get(c), b[t]["cols"].get(c)
      if va is None or vb is None:
        outl.append("column %s.%s present on one side only" % (t, c)); continue
      for r, x, y in zip(a[t]["ids"], va, vb):
        if x != y:
          outl.append("cell %s[%s].%s: expected %r got %r" % (t, r, c, x, y))
          break
    if len(outl) >= limit:
      break
  return outl[:limit]


# ---------------------------------------------------------------------------------------------
# generation

def gen_choice(rng):
  return rng.choice(ALPHA[:6]) if rng.random() < 0.7 else rng.choice(ALPHA)


def gen_cell(rng, kind):
  x = rng.random()
  if kind == "Choice":
    if x < 0.72:
      return gen_choice(rng)
    if x < 0.85:
      return None
    return rng.choice([5, 2.5, True, "a"])        # numbers are converted to text by the user action
  if x < 0.7:
    return ["L"] + [gen_choice(rng) for _ in range(rng.choice([0, 1, 1, 2, 2, 3, 4]))]
  if x < 0.82:
    return None
  if x < 0.94:
    return gen_choice(rng)                          # alt-text: a plain string in a ChoiceList column
  return rng.choice([7, ["L", "a", 1], ["L", 3]])


def gen_renames(rng, allow_empty_key):
  style = rng.random()
  pool = ALPHA[:6] if rng.random() < 0.6 else ALPHA
  keys = [k for k in pool if allow_empty_key or k != ""]
  if style < 0.15:
    a, b = rng.sample(keys, 2)
    m = {a: b, b: a}                                         # swap
    if rng.random() < 0.3:
      c = rng.choice(keys); m.setdefault(c, rng.choice(FRESH))
    return m, "swap"
  if style < 0.3:
    n = rng.choice([2, 3, 3, 4])
    ks = rng.sample(keys, min(n, len(keys)))
    m = {ks[i]: ks[i + 1] for i in range(len(ks) - 1)}       # chain a->b, b->c
    if rng.random() < 0.4:
      m[ks[-1]] = ks[0]                                      # cycle
    return m, "chain"
  if style < 0.36:
    k = rng.choice(keys)
    return {k: k}, "identity"
  if style < 0.4:
    return {}, "empty"
  n = rng.choice([1, 1, 2, 3, 5])
  m = {}
  for k in rng.sample(keys, min(n, len(keys))):
    m[k] = rng.choice(FRESH) if rng.random() < 0.5 else rng.choice(ALPHA)   # maps to existing choices
  if rng.random() < 0.3:
    m[rng.choice(["nosuch", "zz", "Z"])] = rng.choice(FRESH)                  # unmapped key
  return m, "random"


def gen_filter_text(rng, family="list"):
  if family == "list":
    def lst():
      n = rng.choice([0, 1, 2, 3, 5])
      l = [gen_choice(rng) for _ in range(n)]
      if rng.random() < 0.25:
        l.insert(rng.randint(0, len(l)), rng.choice([1, None, True, 2.5, ["a"], {"a": "b"}]))
      return l
    x = rng.random()
    if x < 0.1:
      return ""
    key = rng.choice(["included", "excluded"])
    j = {key: lst()}
    if rng.random() < 0.12:
      j[rng.choice(["excluded", "included", "other"])] = lst()
    if rng.random() < 0.05:
      j = {}
    seps = rng.choice([(",", ":"), (", ", ": ")])
    return json.dumps(j, separators=seps, ensure_ascii=rng.random() < 0.5)
  if family == "range":
    return rng.choice(['{"min":1}', '{"min": 1, "max": 5}', '{"max":2.5}', '{"min":null,"max":3}'])
  if family == "rangeobj":
    return rng.choice(['{"min":{"quantity":-1,"unit":"day","endOf":false}}',
                       '{"max": {"quantity": 0, "unit": "a"}}'])
  return rng.choice(['[1]', '"abc"', 'nojson', '{"included": "ab"}', '5', 'null', '{"included":'])


class SetupRejected(Exception):
  pass


def must(doc, bundle):
  r = doc.apply(bundle)
  if not r.ok:
    raise SetupRejected("%r -> %r" % (bundle, r.error))
  return r


class Case(object):
  """One document and a sequence of steps; every RenameChoices step is one evaluated case."""

  def __init__(self, rng, special=None):
    self.rng = rng
    self.special = special
    self.steps = []

  def build(self):
    from gx import engine_driver as ed
    rng = self.rng
    doc = ed.Doc()
    cols = [{"id": "A", "type": "Choice"}, {"id": "B", "type": "ChoiceList"}, {"id": "C", "type": "Text"},
            {"id": "A2", "type": "Choice"}]
    if rng.random() < 0.6:
      cols += [{"id": "FA", "type": "Choice", "isFormula": True, "formula": "$A"},
               {"id": "GA", "type": "Any", "isFormula": True, "formula": "$A"},
               {"id": "GB", "type": "Any", "isFormula": True, "formula": "$B"}]
    if rng.random() < 0.4:
      cols += [{"id": "FT", "type": "Text", "isFormula": True, "formula": "'a'"}]
    must(doc, [["AddTable", "T", cols]])
    must(doc, [["AddTable", "U", [{"id": "A", "type": "Choice"}, {"id": "B", "type": "ChoiceList"}]]])
    n = rng.choice([0, 1, 2, 3, 4, 5, 6, 8])
    if n:
      must(doc, [["BulkAddRecord", "T", [None] * n,
                  {"A": [gen_cell(rng, "Choice") for _ in range(n)],
                   "B": [gen_cell(rng, "ChoiceList") for _ in range(n)],
                   "C": [gen_choice(rng) for _ in range(n)],
                   "A2": [gen_choice(rng) for _ in range(n)]}]])
    m = rng.choice([0, 2, 3])
    if m:
      must(doc, [["BulkAddRecord", "U", [None] * m,
                  {"A": [gen_choice(rng) for _ in range(m)],
                   "B": [gen_cell(rng, "ChoiceList") for _ in range(m)]}]])
    for _ in range(rng.choice([0, 1, 2, 3])):
      col = rng.choice(["A", "B", "A2"])
      colref = [c["id"] for c in doc.meta("_grist_Tables_column") if c["parentId"] == 1 and c["colId"] == col][0]
      must(doc, [["AddRecord", "_grist_Filters", None,
                  {"viewSectionRef": rng.choice([1, 2, 3]), "colRef": colref,
                   "filter": gen_filter_text(rng, "list"), "pinned": rng.random() < 0.5}]])
    return doc

  def mutate(self, doc):
    """a random state change between renames (returns the bundle or None)"""
    rng = self.rng
    t = doc.engine.tables["T"]
    rows = list(t.row_ids)
    colrefs = {c["colId"]: c["id"] for c in doc.meta("_grist_Tables_column") if c["parentId"] == 1}
    x = rng.random()
    if x < 0.2 and rows:
      return [["BulkRemoveRecord", "T", rng.sample(rows, rng.choice([1, 1, 2]) if len(rows) > 1 else 1)]]
    if x < 0.35:
      k = rng.choice([1, 2])
      return [["BulkAddRecord", "T", [None] * k,
               {"A": [gen_cell(rng, "Choice") for _ in range(k)],
                "B": [gen_cell(rng, "ChoiceList") for _ in range(k)]}]]
    if x < 0.45 and rows:
      # raw wrong-type values straight through a doc action (no conversion)
      r = rng.choice(rows)
      return [["ApplyDocActions", [["UpdateRecord", "T", r,
                                    rng.choice([{"A": 7}, {"A": ["L", "a"]}, {"B": ["L", "a", 1]}, {"B": 3},
                                                {"B": ["L"]}, {"A": None}])]]]]
    if x < 0.8:
      fam = "list"
      y = rng.random()
      if self.special == "range" or (self.special is None and y < 0.02):
        fam = "range"
      elif self.special == "rangeobj":
        fam = "rangeobj"
      elif self.special == "malformed":
        fam = "malformed"
      col = rng.choice(["A", "A", "B", "B", "C", "A2"] + (["FA", "FT"] if "FA" in colrefs and "FT" in colrefs else []))
      if fam != "list":
        col = rng.choice(["A", "B"])
      frecs = doc.meta("_grist_Filters")
      if frecs and rng.random() < 0.3:
        r = rng.choice(frecs)
        if fam == "list" and filter_class(r["filter"]) in ("", "list"):
          return [["UpdateRecord", "_grist_Filters", r["id"], {"filter": gen_filter_text(rng, fam)}]]
      return [["AddRecord", "_grist_Filters", None,
               {"viewSectionRef": rng.choice([1, 2, 3]), "colRef": colrefs[col],
                "filter": gen_filter_text(rng, fam), "pinned": rng.random() < 0.5}]]
    if x < 0.85:
      frecs = doc.meta("_grist_Filters")
      if frecs:
        return [["RemoveRecord", "_grist_Filters", rng.choice(frecs)["id"]]]
    return None

  def gen_rename(self, doc):
    rng = self.rng
    x = rng.random()
    cols = [c for c in ("FA", "FT") if doc.engine.tables["T"].has_column(c)]
    if x < 0.04:
      tid, cid = rng.choice([("Nope", "A"), ("T", "nope"), ("T", "C"), ("T", "manualSort")])
    elif x < 0.12 and cols:
      tid, cid = "T", rng.choice(cols)
    elif x < 0.18:
      tid, cid = "U", rng.choice(["A", "B"])
    else:
      tid, cid = "T", rng.choice(["A", "A", "B", "B", "A2"])
    allow_empty = (self.special == "emptykey") or cid in ("B", "FA", "FT") or tid != "T" and cid == "B"
    m, style = gen_renames(rng, allow_empty)
    if tid == "T" and rng.random() < 0.15:
      # rename exactly ONE label that occurs in a saved list filter of this column, preferring labels whose
      # JSON text is not the label itself (quotes, backslashes, non-ASCII written as \uXXXX): whoever looks
      # for the label in the filter's text instead of its parsed value misses those
      colrefs = {c["colId"]: c["id"] for c in doc.meta("_grist_Tables_column") if c["parentId"] == 1}
      labels = []
      for r in doc.meta("_grist_Filters"):
        if int(r["colRef"]) == colrefs.get(cid) and filter_class(r["filter"]) == "list":
          for v in json.loads(r["filter"]).values():
            labels += [x for x in v if isinstance(x, str) and (x != "" or allow_empty)]
      odd = [x for x in labels if json.dumps(x)[1:-1] != x]
      if labels:
        k = rng.choice(odd if odd and rng.random() < 0.7 else labels)
        m, style = {k: rng.choice(FRESH)}, "from-filter"
    if self.special == "emptykey" and cid in ("A", "A2") and rng.random() < 0.6:
      m[""] = rng.choice(FRESH + [""])
    return ["RenameChoices", tid, cid, m], style


def run_case(ck, rng, special, ops_out):
  """Runs one document; returns list of (doc_history_before, op, result dict)."""
  case = Case(rng, special)
  try:
    doc = case.build()
  except SetupRejected as e:
    ops_out.append(str(e))
    return []
  results = []
  n = rng.choice([4, 6, 8])
  for _ in range(n):
    for _ in range(rng.choice([0, 1, 1, 2, 3])):
      b = case.mutate(doc)
      if b:
        doc.apply(b)
    op, style = case.gen_rename(doc)
    hist = list(doc.history)
    out = evaluate(ck, doc, op)
    out["style"] = style
    results.append((hist, op, out))
  return results


def chunk_worker(arg):
  import random
  seedstr, special, n = arg
  rng = random.Random(seedstr)
  res, errs = [], []
  for _ in range(n):
    res.extend(run_case(None, rng, special, errs))
  return res, errs


def run(ck):
  ck.rule = ("seeded documents (table T: Choice A/A2, ChoiceList B, Text C, optional formula columns reading A/B, "
             "table U with the same choice strings) with random cells (choices incl. '', None, alt-text, raw wrong-type "
             "values), removed rows, `_grist_Filters` records of several columns (included/excluded arrays with "
             "non-string entries, both keys, empty text), and 4-8 RenameChoices each (swaps, chains, cycles, identity, "
             "empty map, maps onto existing choices, unmapped keys); non-trivial = the action succeeded and at least "
             "one cell or saved filter really changed; distinct by (history, action)")
  ck.assumptions = [
    "rename maps are str -> str (valid Unicode)",
    "saved filters outside the property: invalid JSON, non-object JSON, a string under a key (correspondence only)",
    "not a summary table; no trigger formulas on the table",
    "json.loads / json.dumps are parameters of the model (the harness parses the filter text)",
  ]
  ck.lean(["GristProps.C39"])
  quick = ck.tier == "quick"
  plan = [(None, 70 if quick else 2000), ("emptykey", 6 if quick else 60), ("range", 6 if quick else 60),
          ("rangeobj", 3 if quick else 30), ("malformed", 10 if quick else 150)]
  chunks = []
  for special, n in plan:
    i = 0
    while n > 0:
      k = min(n, 25)
      chunks.append(("C39/%s/%s/%d" % (ck.seed, special, i), special, k))
      n -= k
      i += 1
  allres = []
  setup_errors = []
  if quick:
    parts = [chunk_worker(c) for c in chunks]
  else:
    import multiprocessing
    with multiprocessing.Pool(min(8, multiprocessing.cpu_count())) as pool:
      parts = pool.map(chunk_worker, chunks, chunksize=1)
  for res, errs in parts:
    allres.extend(res)
    setup_errors.extend(errs)
  ck.count("setup_steps_rejected", len(setup_errors))
  # the witnesses of the Lean negation examples, replayed on the real code
  allres.extend(witness_cases(ck))
  ops = [o["mop"] for (_, _, o) in allres if o["mop"] is not None]
  answers = iter(ck.driver(ops))
  mism = None
  for hist, op, o in allres:
    ck.evaluated()
    ck.count("style:" + o.get("style", "witness"))
    ck.count("outcome:" + ("ok" if o["ok"] else "error:" + o["real"].get("error", "?")))
    if o["mop"] is not None:
      ck.count("kind:%s%s" % (o["mop"]["kind"], "/formula" if o["mop"]["formula"] else ""))
      ma = next(answers)
      if ma != o["real"]:
        ck.count("model_impl_disagreements")
        if mism is None:
          mism = dict(replay_obj(hist, op), model_input=o["mop"], model=ma, impl=o["real"])
    if o["ok"] and o["real"]["cells"]:
      ck.count("with_cell_update")
    if o["ok"] and o["real"]["filters"]:
      ck.count("with_filter_update")
    if o["ok"] and o["changed"]:
      ck.nontrivial_case([hist, op])
      ck.sample({"op": op, "emitted": o["real"]})
    for sig, detail in o["bad"]:
      ck.violation(sig, detail, replay_obj(hist, op))
  if mism and not ck.has_impl_violation():
    ck.broken("correspondence useractions.RenameChoices vs Grist.Choices.renameChoices",
              "model and implementation differ and the property's clauses hold on all explored inputs", mism)
  if setup_errors and not ck.violations:
    ck.broken("the engine rejected an ordinary set-up action of the test documents", setup_errors[0])


def replay_obj(hist, op):
  """the rename map travels as an item list: replay files are written with sorted keys, and the
  order of a Python dict is observable by the code under test"""
  return {"history": hist, "op": list(op[:3]), "renames": [[k, v] for k, v in op[3].items()]}


def witness_cases(ck):
  from gx import engine_driver as ed
  res = []
  # witness 1 of GristProps/C39.lean: RenameChoices(T, A, {'': 'z'}), one row holding 'a'
  doc = ed.Doc()
  doc.apply([["AddTable", "T", [{"id": "A", "type": "Choice"}]]])
  doc.apply([["AddRecord", "T", None, {"A": "a"}]])
  op = ["RenameChoices", "T", "A", {"": "z"}]
  hist = list(doc.history)
  res.append((hist, op, evaluate(ck, doc, op)))
  # witness 2: a Choice column with the saved filter {"min": 1}
  doc.apply([["AddRecord", "_grist_Filters", None, {"viewSectionRef": 1, "colRef": 2, "filter": '{"min": 1}'}]])
  op = ["RenameChoices", "T", "A", {"a": "b"}]
  hist = list(doc.history)
  res.append((hist, op, evaluate(ck, doc, op)))
  return res


def replay(ck, rp):
  from gx import engine_driver as ed
  r = rp["replay"]
  if "op" not in r:          # a correspondence replay: {"history","op",...} is always present
    raise ValueError("not a C39 replay")
  doc = ed.Doc()
  for b in r["history"][1:]:       # [0] is InitNewDoc, already applied by Doc()
    assert doc.apply(b).ok, b
  op = list(r["op"][:3]) + [dict((k, v) for k, v in r["renames"])]
  o = evaluate(ck, doc, op)
  ck.evaluated()
  ck.nontrivial_case([r["history"], r["op"], r["renames"]]); ck.nontrivial_case("replay")
  print("replay: %r -> %s; emitted %r" % (op, "ok" if o["ok"] else "error", o["real"]))
  if o["mop"] is not None:
    ma = ck.driver([o["mop"]])[0]
    print("replay: model says %r" % (ma,))
    if ma != o["real"] and not o["bad"]:
      ck.broken("correspondence useractions.RenameChoices vs Grist.Choices.renameChoices",
                "model and implementation differ on the replayed input", {"model": ma, "impl": o["real"]})
  for sig, detail in o["bad"]:
    print("replay: property violated: %s: %s" % (sig, detail))
    ck.violation(sig, detail, replay_obj(r["history"], op))
  if not o["bad"]:
    print("replay: property holds")
  ck.lean(["GristProps.C39"])
