"""
C40  Predicate formula parse trees are faithful.

Interpretation (decisions, see also lean/GristProps/C40.lean):
 * "supported subset" = what the docstring of parse_predicate_formula lists plus visit_Call:
   BoolOp And/Or, BinOp Add/Sub/Mult/Div/Mod, UnaryOp Not (unary minus/plus/invert are NOT in the
   subset: TreeConverter sends them to generic_visit), single Compare with the ten comparison
   operators, Name, `$x`, Attribute, Constant None/bool/int/float/str, List, Tuple, Call (positional,
   keyword and ** arguments), and one trailing/leading comment.
 * "documented node semantics" = Python's own (DESIGN App. B): And/Or short-circuit and return the
   deciding operand; Comment evaluates its node; Call applies the evaluated function.
 * visit_Tuple documents "We don't distinguish tuples and lists": the reference evaluation reads a
   tuple display as a list display (an AST transform Tuple->List before `eval`).  Where the literal
   Python result differs only because of that identification (e.g. `(1, 2) == [1, 2]`) it is counted
   (`tuple_identification_observable`) and not reported.
 * "JSON-serializable" = json.dumps(tree, allow_nan=False) succeeds, the tree holds only
   list/str/int/float/bool/None and survives a json round trip.
 * "Unsupported syntax raises SyntaxError rather than being mistranslated": every formula that
   contains a node kind outside the subset must raise SyntaxError (no other exception class, no
   tree).

 * A formula that Python itself refuses to compile (`f(c=1, c=2)`) is not an expression of the subset:
   it must raise SyntaxError too.
 * Line ends are Python's (\n, \r\n, bare \r): the expected first comment is computed on that reading.

Findings on the unchanged tree (known_findings.json, each keyed by its own signature):
 bytes/Ellipsis/complex constants accepted (tree not JSON); 1e999 -> Infinity; repeated keyword
 accepted; bare-CR line ends: tokenize.TokenError escapes / comment missed.

Theorems (lean/GristProps/C40.lean, model lean/GristModel/Predicate.lean): convert_faithful,
parse_faithful, accepted_iff_supported, unsupported_rejected, parse_rejects, tree_json_safe_iff,
tree_json_safe_partial, tree_json_safe_full_is_false (negation witness b'x', replayed here),
comment_node, no_comment, comment_transparent, comment_stripped.

Tie: (a) Python's own `ast` of the text (dumped to the model's PExpr; `$x` marked by the generator)
     -> model `parseFormula` vs real parse_predicate_formula(text);
     (b) Python `eval` of the text vs model `evalExpr`; an independent naive Python evaluator of the
     REAL tree vs model `evalTree` of the real tree.
Oracle (independent of the model): naive evaluation of the real tree == Python eval of the text;
     json clauses on the real tree; SyntaxError for every non-subset formula.
"""
import ast
import io
import json
import math
import struct
import tokenize
import warnings

LEAN_MODULES = ["GristProps.C40"]

# --------------------------------------------------------------------------------------------
# value universe shared by the Python side

ATTR_POOL = ["n1", "n2", "s1", "s2", "l1", "l2", "b1", "o1", "Office", "City", "Email", "zz9",
             "lower", "upper"]
NAME_POOL = ["x", "y", "s", "t", "xs", "ys", "flag", "nothing", "rec", "user", "newRec", "choice",
             "len", "missing"]


class Rec(object):
  """An object with attributes and identity (rec / user / newRec / choice / nested records)."""
  def __init__(self, rid, fields):
    self.__dict__.update(fields)
    self.__dict__["_rid"] = rid

  def __repr__(self):
    return "<Rec %d>" % self._rid


def _check_pools():
  for a in ATTR_POOL:
    for v in (None, True, 1, 1.5, [], len, "x".lower, Rec(0, {})):
      assert not hasattr(v, a), (a, v)
    assert hasattr("x", a) == (a in ("lower", "upper"))


_check_pools()


def fbits(x):
  if x != x:
    return "nan"
  return str(struct.unpack("<Q", struct.pack("<d", x))[0])


def bits_float(s):
  return struct.unpack("<d", struct.pack("<Q", int(s)))[0]


def enc_value(v, with_fields=False):
  """Canonical JSON form of a Python value (the driver uses the same encoding)."""
  if v is None or v is True or v is False:
    return v
  t = type(v)
  if t is int:
    return {"i": str(v)}
  if t is float:
    return {"f": fbits(v)}
  if t is str:
    return {"s": v}
  if t is list or t is tuple:
    return {"l": [enc_value(x, with_fields) for x in v]}
  if t is Rec:
    if with_fields:
      return {"r": v._rid, "fields": [[k, enc_value(x, True)] for k, x in sorted(v.__dict__.items())
                                      if k != "_rid"]}
    return {"r": v._rid}
  if v is len:
    return {"b": "len"}
  if t is type("".lower) and isinstance(getattr(v, "__self__", None), str):
    return {"m": [v.__self__, v.__name__]}
  return {"unknown": repr(v)}


def enc_result(fn):
  try:
    with warnings.catch_warnings():
      warnings.simplefilter("ignore")
      return {"ok": enc_value(fn())}
  except RecursionError:
    raise
  except Exception as e:       # pylint: disable=broad-except
    return {"error": type(e).__name__}


def enc_tree(t):
  """Real parse tree -> the driver's tree encoding."""
  if t is None or t is True or t is False:
    return t
  ty = type(t)
  if ty is int:
    return {"i": str(t)}
  if ty is float:
    return {"f": fbits(t)}
  if ty is str:
    return t
  if ty is list:
    return [enc_tree(x) for x in t]
  if ty is bytes:
    return {"o": "bytes"}
  if t is Ellipsis:
    return {"o": "ellipsis"}
  if ty is complex:
    return {"o": "complex"}
  return {"o": "?" + ty.__name__}


# --------------------------------------------------------------------------------------------
# independent, naive evaluator of the REAL tree: the documented node list read with Python's
# operators (written without looking at the Lean model)

import operator as _op

_BIN = {"Add": _op.add, "Sub": _op.sub, "Mult": _op.mul, "Div": _op.truediv, "Mod": _op.mod,
        "Eq": _op.eq, "NotEq": _op.ne, "Lt": _op.lt, "LtE": _op.le, "Gt": _op.gt, "GtE": _op.ge,
        "Is": _op.is_, "IsNot": _op.is_not,
        "In": lambda a, b: a in b, "NotIn": lambda a, b: a not in b}


class MalformedTree(Exception):
  pass


def eval_tree(t, env):
  if type(t) is not list or not t or type(t[0]) is not str:
    raise MalformedTree(repr(t))
  tag, args = t[0], t[1:]
  if tag == "And":
    if not args: raise MalformedTree("And")
    v = None
    for a in args:
      v = eval_tree(a, env)
      if not v:
        return v
    return v
  if tag == "Or":
    if not args: raise MalformedTree("Or")
    v = None
    for a in args:
      v = eval_tree(a, env)
      if v:
        return v
    return v
  if tag in _BIN:
    if len(args) != 2: raise MalformedTree(tag)
    left = eval_tree(args[0], env)
    right = eval_tree(args[1], env)
    return _BIN[tag](left, right)
  if tag == "Not":
    if len(args) != 1: raise MalformedTree(tag)
    return not eval_tree(args[0], env)
  if tag == "List":
    return [eval_tree(a, env) for a in args]
  if tag == "Const":
    if len(args) != 1 or type(args[0]) is list: raise MalformedTree(tag)
    return args[0]
  if tag == "Name":
    if len(args) != 1 or type(args[0]) is not str: raise MalformedTree(tag)
    if args[0] not in env:
      raise NameError(args[0])
    return env[args[0]]
  if tag == "Attr":
    if len(args) != 2 or type(args[1]) is not str: raise MalformedTree(tag)
    return getattr(eval_tree(args[0], env), args[1])
  if tag == "Comment":
    if len(args) != 2 or type(args[1]) is not str: raise MalformedTree(tag)
    return eval_tree(args[0], env)
  if tag == "Call":
    if not args: raise MalformedTree(tag)
    func = eval_tree(args[0], env)
    rest = args[1:]
    kws = []
    if rest and type(rest[-1]) is list and rest[-1] and rest[-1][0] == "keywords":
      kws = rest[-1][1:]
      rest = rest[:-1]
    pos = [eval_tree(a, env) for a in rest]
    named = {}
    for kw in kws:
      if type(kw) is not list or len(kw) != 2: raise MalformedTree("keywords")
      v = eval_tree(kw[1], env)
      if kw[0] is None:
        # [None, node] is `**node`: Python merges it at once; anything but a mapping is a TypeError
        if not isinstance(v, dict):
          raise TypeError("argument after ** must be a mapping")
        named.update(v)
      elif kw[0] in named:
        raise TypeError("got multiple values for keyword argument")
      else:
        named[kw[0]] = v
    return func(*pos, **named)
  raise MalformedTree(tag)


def tree_json_clauses(tree):
  """The JSON clauses of the property on the real tree.  Returns None or (signature, detail)."""
  bad = []

  def walk(t):
    ty = type(t)
    if ty is list:
      for x in t:
        walk(x)
    elif t is None or ty in (str, int, bool):
      pass
    elif ty is float:
      if math.isinf(t) or t != t:
        bad.append(("float literal overflowing to inf accepted as Const (json.dumps emits the non-JSON token Infinity)", repr(t)))
    else:
      kind = "Ellipsis" if t is Ellipsis else ty.__name__
      if kind in ("bytes", "Ellipsis", "complex"):
        bad.append(("bytes/Ellipsis/complex literal accepted as Const (tree is not JSON-serialisable)", kind))
      else:
        bad.append(("tree holds a non-JSON value of type " + kind, repr(t)))
  walk(tree)
  if bad:
    return bad[0]
  try:
    text = json.dumps(tree, allow_nan=False)
  except (TypeError, ValueError) as e:
    return ("json.dumps of the tree fails", "%s: %s" % (type(e).__name__, e))
  if json.loads(text) != tree:
    return ("tree does not survive a json round trip", text[:200])
  return None


# --------------------------------------------------------------------------------------------
# Python ast -> model PExpr (JSON).  `$x` is marked by the generator as DOLLAR_MARK.x

DOLLAR_MARK = "DLR__"

_BINOPS = {ast.Add, ast.Sub, ast.Mult, ast.Div, ast.Mod, ast.Pow, ast.FloorDiv, ast.MatMult,
           ast.BitOr, ast.BitAnd, ast.BitXor, ast.LShift, ast.RShift}


def child_exprs(node):
  out = []
  for c in ast.iter_child_nodes(node):
    if isinstance(c, ast.expr):
      out.append(c)
    elif isinstance(c, (ast.comprehension, ast.keyword, ast.arguments, ast.arg, ast.FormattedValue)):
      out.extend(child_exprs(c))
  return out


def dump_expr(n):
  if isinstance(n, ast.BoolOp):
    return {"k": "BoolOp", "op": type(n.op).__name__, "values": [dump_expr(v) for v in n.values]}
  if isinstance(n, ast.BinOp):
    return {"k": "BinOp", "op": type(n.op).__name__, "left": dump_expr(n.left), "right": dump_expr(n.right)}
  if isinstance(n, ast.UnaryOp):
    return {"k": "UnaryOp", "op": type(n.op).__name__, "operand": dump_expr(n.operand)}
  if isinstance(n, ast.Compare):
    return {"k": "Compare", "left": dump_expr(n.left), "ops": [type(o).__name__ for o in n.ops],
            "comparators": [dump_expr(c) for c in n.comparators]}
  if isinstance(n, ast.Attribute):
    if isinstance(n.value, ast.Name) and n.value.id == DOLLAR_MARK:
      return {"k": "Dollar", "name": n.attr}
    return {"k": "Attribute", "value": dump_expr(n.value), "attr": n.attr}
  if isinstance(n, ast.Name):
    return {"k": "Name", "id": n.id}
  if isinstance(n, ast.Constant):
    v = n.value
    if v is None: return {"k": "Constant", "t": "none"}
    if v is True or v is False: return {"k": "Constant", "t": "bool", "v": v}
    if type(v) is int: return {"k": "Constant", "t": "int", "v": str(v)}
    if type(v) is float: return {"k": "Constant", "t": "float", "v": fbits(v) if v == v else "9221120237041090560"}
    if type(v) is str: return {"k": "Constant", "t": "str", "v": v}
    kind = "ellipsis" if v is Ellipsis else type(v).__name__
    return {"k": "Constant", "t": "other", "v": kind}
  if isinstance(n, ast.List):
    return {"k": "List", "elts": [dump_expr(e) for e in n.elts]}
  if isinstance(n, ast.Tuple):
    return {"k": "Tuple", "elts": [dump_expr(e) for e in n.elts]}
  if isinstance(n, ast.Call):
    return {"k": "Call", "func": dump_expr(n.func), "args": [dump_expr(a) for a in n.args],
            "keywords": [[k.arg, dump_expr(k.value)] for k in n.keywords]}
  return {"k": "Unsupported", "kind": type(n).__name__, "children": [dump_expr(c) for c in child_exprs(n)]}


def has_unsupported(d):
  """Independent (harness-side) reading of 'contains a node kind outside the subset'."""
  k = d["k"]
  if k == "Unsupported":
    return True
  if k == "BinOp" and d["op"] not in ("Add", "Sub", "Mult", "Div", "Mod"):
    return True
  if k == "UnaryOp" and d["op"] != "Not":
    return True
  if k == "Compare" and (len(d["ops"]) != 1 or len(d["comparators"]) != 1):
    return True
  subs = []
  for key in ("values", "comparators", "elts", "args", "children"):
    subs.extend(d.get(key, []))
  for key in ("left", "right", "operand", "value", "func"):
    if key in d and isinstance(d[key], dict):
      subs.append(d[key])
  for kw in d.get("keywords", []):
    subs.append(kw[1])
  return any(has_unsupported(s) for s in subs)


def odd_constants(d):
  """Kinds of constants outside None/bool/int/finite float/str occurring in the dumped expr."""
  out = []
  if d["k"] == "Constant":
    if d["t"] == "other":
      out.append(d["v"])
    elif d["t"] == "float":
      x = bits_float(d["v"])
      if math.isinf(x) or x != x:
        out.append("inf")
  for key in ("values", "comparators", "elts", "args", "children"):
    for s in d.get(key, []):
      out.extend(odd_constants(s))
  for key in ("left", "right", "operand", "value", "func"):
    if key in d and isinstance(d[key], dict):
      out.extend(odd_constants(d[key]))
  for kw in d.get("keywords", []):
    out.extend(odd_constants(kw[1]))
  return out


class TupleAsList(ast.NodeTransformer):
  def visit_Tuple(self, node):
    self.generic_visit(node)
    return ast.copy_location(ast.List(elts=node.elts, ctx=node.ctx), node)


# --------------------------------------------------------------------------------------------
# expression generator: trees over the grammar, printed to text with trivia
#
# generated node = tuple:
#   ("bool", "And"|"Or", [nodes])  ("bin", op, l, r)  ("not", e)  ("cmp", op, l, r)
#   ("name", id)  ("dollar", name)  ("const", source_text)  ("attr", e, name)
#   ("list", [nodes])  ("tuple", [nodes])  ("call", f, [args], [(kw|None, e)])
#   ("raw", source_text)      -- an unsupported construct, always parenthesised

P_OR, P_AND, P_NOT, P_CMP, P_ADD, P_MUL, P_UNARY, P_ATOMNUM, P_ATOM = 1, 2, 3, 4, 5, 6, 7, 8, 9
BIN_SYM = {"Add": ("+", P_ADD), "Sub": ("-", P_ADD), "Mult": ("*", P_MUL), "Div": ("/", P_MUL),
           "Mod": ("%", P_MUL)}
CMP_SYM = {"Eq": "==", "NotEq": "!=", "Lt": "<", "LtE": "<=", "Gt": ">", "GtE": ">=", "Is": "is",
           "IsNot": "is not", "In": "in", "NotIn": "not in"}


def prec(n):
  k = n[0]
  if k == "bool": return P_OR if n[1] == "Or" else P_AND
  if k == "not": return P_NOT
  if k == "cmp": return P_CMP
  if k == "bin": return BIN_SYM[n[1]][1]
  if k == "const": return P_ATOMNUM if n[1][:1] in "0123456789." else P_ATOM
  return P_ATOM


class Printer(object):
  """Prints a generated node; `mode` = 'real' ($x), 'mark' (DLR__.x), 'rec' (rec.x).
  Trivia decisions are drawn once (recorded) so that the three variants differ only in `$`."""

  def __init__(self, rng, trivia):
    self.rng = rng
    self.trivia = trivia          # 0 none, 1 spaces/parens, 2 + newlines/comments inside parens
    self.script = []              # recorded random decisions
    self.replaying = False
    self.pos = 0

  def draw(self, fn):
    if self.replaying:
      v = self.script[self.pos]
      self.pos += 1
      return v
    v = fn()
    self.script.append(v)
    return v

  def sp(self, depth):
    """Optional whitespace between tokens; inside brackets (depth>0) may hold newline/comment."""
    if self.trivia == 0:
      return ""
    r = self.draw(self.rng.random)
    if r < 0.55:
      return ""
    if r < 0.85 or depth == 0 or self.trivia < 2:
      return self.draw(lambda: self.rng.choice([" ", "  ", "\t", " \x0c "]))
    if r < 0.93:
      return self.draw(lambda: self.rng.choice(["\n", "\n", "\n", "\n", "\r\n", "\r"] if self.trivia >= 3 else ["\n", "\r\n"])) + \
             self.draw(lambda: self.rng.choice(["", " ", "    ", "\t"]))
    c = self.draw(lambda: gen_comment(self.rng))
    self.comments.append(c)
    return " " + c + "\n"

  def render(self, node, mode):
    self.mode = mode
    self.comments = []
    self.pos = 0
    text = self.p(node, 0, 0)
    return text

  def wrap(self, s, depth):
    return "(" + self.sp(depth + 1) + s + self.sp(depth + 1) + ")"

  def p(self, n, need, depth):
    """text of n in a context requiring precedence >= need."""
    extra = self.trivia and self.draw(self.rng.random) < 0.08
    if prec(n) < need or extra or n[0] == "raw":
      inner_depth = depth + 1
      out = "(" + self.sp(inner_depth)
      out += self.p0(n, inner_depth)
      out += self.sp(inner_depth)
      return out + ")"
    return self.p0(n, depth)

  def p0(self, n, d):
    k = n[0]
    s = lambda: self.sp(d)
    if k == "bool":
      word = " and " if n[1] == "And" else " or "
      me = prec(n)
      out = self.p(n[2][0], me + 1, d)
      for v in n[2][1:]:
        out += s()
        out += word
        out += s()
        out += self.p(v, me + 1, d)
      return out
    if k == "not":
      out = "not " + s()
      return out + self.p(n[1], P_NOT, d)
    if k == "cmp":
      out = self.p(n[2], P_CMP + 1, d)
      out += " " + s()
      out += CMP_SYM[n[1]] + " " + s()
      return out + self.p(n[3], P_CMP + 1, d)
    if k == "bin":
      sym, me = BIN_SYM[n[1]]
      out = self.p(n[2], me, d)
      out += s()
      out += sym + s()
      return out + self.p(n[3], me + 1, d)
    if k == "name":
      return n[1]
    if k == "dollar":
      return {"real": "$", "mark": DOLLAR_MARK + ".", "rec": "rec."}[self.mode] + n[1]
    if k == "const":
      return n[1]
    if k == "raw":
      return n[1][self.mode]
    if k == "attr":
      out = self.p(n[1], P_ATOM, d)
      out += s()
      out += "." + s()
      return out + n[2]
    if k == "list":
      return self.seq("[", [(None, e) for e in n[1]], "]", d, False)
    if k == "tuple":
      return self.seq("(", [(None, e) for e in n[1]], ")", d, len(n[1]) == 1)
    if k == "call":
      out = self.p(n[1], P_ATOM, d)
      out += s()
      return out + self.seq("(", [(None, e) for e in n[2]] + [(("**" if kw is None else kw), e) for kw, e in n[3]],
                            ")", d, False)
    raise ValueError(k)

  def seq(self, opn, items, close, d, force_tail):
    """bracketed, comma separated; built strictly left to right (comment order = text order)."""
    out = opn
    out += self.sp(d + 1)
    for i, (kw, e) in enumerate(items):
      if i:
        out += ","
        out += self.sp(d + 1)
      if kw == "**":
        out += "**"
        out += self.sp(d + 1)
      elif kw is not None:
        out += kw
        out += self.sp(d + 1)
        out += "="
        out += self.sp(d + 1)
      out += self.p(e, P_NOT, d + 1)
    if force_tail or (items and self.trivia and self.draw(self.rng.random) < 0.15):
      out += ","
    out += self.sp(d + 1)
    return out + close


COMMENT_BITS = ["Comment!", "allow owners", "$x is not rec.x here", "'quoted' \"text\"", "#double",
                "x == 1 and (", "\xe9t\xe9 \xa0 sep", "tab\there", "\U0001f600", ")]", "", "a  b"]
# whitespace at the edges of a comment (all of it must be stripped).  U+0085/U+2028/U+2029 only here:
# the shared driver pipe splits answers with str.splitlines(), so they must not survive into outputs.
SPACE_BITS = ["", "", " ", "  ", "\t", " \x0c", "\xa0", "\u3000 ", "\u2009", " \x1f", "\x85", "\x0b", "\u2028",
              "\u2029", "\u1680", "\u202f\u205f", "\x1c\x1d\x1e"]


def gen_comment(rng):
  return "#" + rng.choice(SPACE_BITS) + rng.choice(COMMENT_BITS) + rng.choice(SPACE_BITS)


def expected_comment(raw):
  """The stored comment for a raw comment token, computed by the harness (independent of the
  model): drop '#', strip Unicode whitespace."""
  body = raw[1:]
  i, j = 0, len(body)
  while i < j and body[i].isspace():
    i += 1
  while j > i and body[j - 1].isspace():
    j -= 1
  return body[i:j]


STR_VALUES = ["", "a", "A", "Seattle", "seattle", "X@", "sally@", "#x", " # Not a comment ", "$office",
              "it's", 'say "hi"', "a\\b", "line\nbreak", "été", "\U0001f600!", "abc", "b", "owners",
              "editors", "%s", "tab\t"]


def str_literal(rng, v):
  r = rng.random()
  if r < 0.5:
    return repr(v)
  if r < 0.7:
    return json.dumps(v, ensure_ascii=False)   # double quotes
  if r < 0.8 and "\\" not in v and '"""' not in v and not v.endswith('"'):
    return '"""' + v + '"""'
  if r < 0.9 and len(v) >= 2:
    k = rng.randint(1, len(v) - 1)
    return repr(v[:k]) + rng.choice([" ", ""]) + json.dumps(v[k:], ensure_ascii=False)     # implicit concatenation
  if "\\" not in v and "'" not in v and "\n" not in v:
    return "r'" + v + "'"
  return repr(v)


def int_literal(rng, v):
  r = rng.random()
  if r < 0.8 or v < 0:
    return str(v)
  if r < 0.87:
    return hex(v)
  if r < 0.92:
    return oct(v).replace("0o", "0O")
  if r < 0.96 and v >= 10:
    s = str(v)
    return s[:-1] + "_" + s[-1:]
  return bin(v)


FLOAT_LITS = ["2.5", "0.5", ".5", "5.", "1e3", "1.5e-3", "0.0", "1E2", "3.14", "1e308", "0.1", "1_0.2_5",
              "2.0", "1.0", "9007199254740993.0"]


class Gen(object):
  """Typed-ish generator: `kind` steers towards expressions that evaluate without error."""

  def __init__(self, rng, ill_typed=0.08, raw_rate=0.0):
    self.rng = rng
    self.ill = ill_typed
    self.raw_rate = raw_rate
    self.raw_used = []

  def const(self, kind):
    rng = self.rng
    if kind == "num":
      if rng.random() < 0.75:
        v = rng.choice([0, 1, 2, 3, 5, 7, 10, 12, 2 ** 53, 2 ** 53 + 1, 10 ** 20, rng.randint(0, 12)])
        return ("const", int_literal(rng, v))
      return ("const", rng.choice(FLOAT_LITS))
    if kind == "str":
      return ("const", str_literal(rng, rng.choice(STR_VALUES)))
    if kind == "bool":
      return ("const", rng.choice(["True", "False"]))
    return ("const", "None")

  def leaf(self, kind):
    rng = self.rng
    if rng.random() < self.ill:
      kind = rng.choice(["num", "str", "list", "bool", "none", "rec", "fn"])
    r = rng.random()
    if kind == "num":
      if r < 0.45: return self.const("num")
      if r < 0.6: return ("dollar", rng.choice(["n1", "n2"]))
      if r < 0.75: return ("attr", ("name", rng.choice(["rec", "newRec", "user"])), rng.choice(["n1", "n2"]))
      return ("name", rng.choice(["x", "y"]))
    if kind == "str":
      if r < 0.45: return self.const("str")
      if r < 0.6: return ("dollar", rng.choice(["s1", "s2"]))
      if r < 0.75: return ("attr", ("name", rng.choice(["rec", "user", "choice"])), rng.choice(["s1", "s2", "Email"]))
      if r < 0.8: return ("attr", ("attr", ("name", "user"), "Office"), "City")
      return ("name", rng.choice(["s", "t"]))
    if kind == "list":
      if r < 0.3: return ("dollar", rng.choice(["l1", "l2"]))
      if r < 0.5: return ("name", rng.choice(["xs", "ys"]))
      if r < 0.6: return ("attr", ("name", "rec"), rng.choice(["l1", "l2"]))
      ek = rng.choice(["num", "str", "num", "str", "any"])
      n = rng.choice([0, 1, 2, 2, 3, 4])
      return (rng.choice(["list", "tuple"]), [self.leaf(ek) for _ in range(n)])
    if kind == "bool":
      if r < 0.4: return self.const("bool")
      if r < 0.6: return ("dollar", "b1")
      if r < 0.8: return ("name", "flag")
      return ("attr", ("name", "user"), "b1")
    if kind == "none":
      if r < 0.5: return self.const("none")
      if r < 0.7: return ("dollar", "o1")
      if r < 0.85: return ("name", "nothing")
      return ("name", "missing") if r < 0.93 else ("attr", ("name", "rec"), "zz9")
    if kind == "rec":
      if r < 0.6: return ("name", rng.choice(["rec", "user", "newRec", "choice"]))
      return ("attr", ("name", "user"), "Office")
    if kind == "fn":
      if r < 0.5: return ("name", "len")
      return ("attr", self.leaf("str"), rng.choice(["lower", "upper"]))
    return self.leaf(rng.choice(["num", "str", "list", "bool", "none", "num", "str"]))

  def raw(self, depth):
    tmpl, kind = self.rng.choice(UNSUPPORTED_TEMPLATES)
    subs = []
    for _ in range(3):
      sub = self.expr("any", max(0, depth - 1), allow_raw=False)
      pr = Printer(self.rng, 0)
      subs.append({m: "(" + pr.render(sub, m) + ")" for m in ("real", "mark", "rec")})
    self.raw_used.append(kind)
    return ("raw", {m: tmpl.replace("{0}", subs[0][m]).replace("{1}", subs[1][m]).replace("{2}", subs[2][m])
                    for m in ("real", "mark", "rec")})

  def expr(self, kind, depth, allow_raw=True):
    rng = self.rng
    if allow_raw and self.raw_rate and rng.random() < self.raw_rate:
      return self.raw(depth)
    if depth <= 0 or rng.random() < 0.15:
      return self.leaf(kind)
    if rng.random() < self.ill:
      kind = "any"
    d = depth - 1
    E = lambda k: self.expr(k, d, allow_raw)
    r = rng.random()
    if kind == "num":
      if r < 0.6:
        op = rng.choice(["Add", "Sub", "Mult", "Div", "Mod", "Add", "Sub", "Mult"])
        return ("bin", op, E("num"), E("num"))
      if r < 0.7:
        return ("call", ("name", "len"), [E(rng.choice(["str", "list"]))], [])
      if r < 0.8:
        return ("bool", rng.choice(["And", "Or"]), [E("num"), E("num")])
      return self.leaf("num")
    if kind == "str":
      if r < 0.3: return ("bin", "Add", E("str"), E("str"))
      if r < 0.4: return ("bin", "Mult", E("str"), ("const", str(rng.randint(0, 3))))
      if r < 0.45: return ("bin", "Mult", ("const", str(rng.randint(0, 3))), E("str"))
      if r < 0.7: return ("call", ("attr", E("str"), rng.choice(["lower", "upper"])), [], [])
      if r < 0.8: return ("bool", rng.choice(["And", "Or"]), [E("str"), E("str")])
      return self.leaf("str")
    if kind == "list":
      if r < 0.25: return ("bin", "Add", E("list"), E("list"))
      if r < 0.35: return ("bin", "Mult", E("list"), ("const", str(rng.randint(0, 2))))
      if r < 0.75:
        ek = rng.choice(["num", "str", "any", "list"])
        return (rng.choice(["list", "tuple"]), [E(ek) for _ in range(rng.choice([0, 1, 2, 3]))])
      return self.leaf("list")
    if kind == "bool":
      if r < 0.3:
        k = rng.choice(["num", "str", "list", "num", "str", "any"])
        op = rng.choice(["Eq", "NotEq", "Lt", "LtE", "Gt", "GtE"])
        return ("cmp", op, E(k), E(k))
      if r < 0.45:
        if rng.random() < 0.5:
          ek = rng.choice(["num", "str"])
          return ("cmp", rng.choice(["In", "NotIn"]), E(ek), E("list"))
        return ("cmp", rng.choice(["In", "NotIn"]), E("str"), E("str"))
      if r < 0.55:
        # the right operand is a singleton or an object of the environment, never a literal
        # non-singleton (identity of two equal literals is an implementation detail of CPython)
        return ("cmp", rng.choice(["Is", "IsNot"]), E(rng.choice(["none", "any", "bool", "rec"])),
                rng.choice([("const", "None"), ("const", "None"), ("const", "True"), ("const", "False"),
                            ("name", rng.choice(["rec", "user", "newRec", "choice", "nothing", "flag"])),
                            ("attr", ("name", "user"), "Office"), ("dollar", "o1")]))
      if r < 0.7: return ("not", E(rng.choice(["bool", "any"])))
      if r < 0.95:
        n = rng.choice([2, 2, 3, 4])
        return ("bool", rng.choice(["And", "Or"]), [E(rng.choice(["bool", "bool", "any"])) for _ in range(n)])
      return self.leaf("bool")
    if kind == "fn":
      return self.leaf("fn")
    if kind in ("none", "rec"):
      if r < 0.3:
        return ("bool", rng.choice(["And", "Or"]), [E(kind), E(kind)])
      return self.leaf(kind)
    # any
    if r < 0.08:
      # arbitrary call shapes (parse-level: keywords, **), mostly TypeError when evaluated
      f = E(rng.choice(["fn", "fn", "any"]))
      args = [E("any") for _ in range(rng.choice([0, 1, 1, 2]))]
      kws = []
      for kwname in rng.sample(["c", "d", "key", None, None], rng.choice([0, 0, 1, 2])):
        kws.append((kwname, E("any")))
      return ("call", f, args, kws)
    return self.expr(rng.choice(["num", "str", "list", "bool", "bool", "none", "rec"]), depth, allow_raw)


# unsupported constructs ({0},{1},{2} are replaced by parenthesised supported sub-expressions)
UNSUPPORTED_TEMPLATES = [
  ("lambda: {0}", "Lambda"), ("lambda q: q", "Lambda"), ("{0} if {1} else {2}", "IfExp"),
  ("{{0}: {1}}", "Dict"), ("{}", "Dict"), ("{{0}, {1}}", "Set"),
  ("[q for q in {0}]", "ListComp"), ("{q for q in {0}}", "SetComp"), ("(q for q in {0})", "GeneratorExp"),
  ("{q: 1 for q in {0}}", "DictComp"), ("[q for q in {0} if {1}]", "ListComp"),
  ("{0}[{1}]", "Subscript"), ("{0}[{1}:{2}]", "Subscript"), ("{0}[:]", "Subscript"),
  ("(w := {0})", "NamedExpr"), ("f\"{{0}}\"", "JoinedStr"), ("f'a{{0}!r:>5}b'", "JoinedStr"), ("f''", "JoinedStr"),
  ("len(*{0})", "Starred"), ("[*{0}]", "Starred"), ("(*{0}, 1)", "Starred"),
  ("{0} < {1} < {2}", "chained"), ("{0} == {1} != {2}", "chained"), ("{0} in {1} in {2}", "chained"),
  ("{0} is {1} is {2}", "chained"),
  ("-{0}", "USub"), ("+{0}", "UAdd"), ("~{0}", "Invert"), ("- 1", "USub"), ("-1.5", "USub"),
  ("{0} ** {1}", "Pow"), ("{0} // {1}", "FloorDiv"), ("{0} @ {1}", "MatMult"), ("{0} | {1}", "BitOr"),
  ("{0} & {1}", "BitAnd"), ("{0} ^ {1}", "BitXor"), ("{0} << {1}", "LShift"), ("{0} >> {1}", "RShift"),
  ("await {0}", "Await"), ("(yield {0})", "Yield"), ("(yield)", "Yield"), ("(yield from {0})", "YieldFrom"),
]

ODD_CONSTANTS = [("b'x'", "bytes"), ("b''", "bytes"), ("B\"ab\" b'c'", "bytes"), ("rb'\\\\'", "bytes"),
                 ("...", "ellipsis"), ("1j", "complex"), ("2.5J", "complex"), ("0j", "complex"),
                 ("1e999", "inf"), ("1E400", "inf"), ("9" * 400 + ".0", "inf")]


# --------------------------------------------------------------------------------------------
# environments

def gen_scalar(rng, kind):
  if kind == "num":
    return rng.choice([0, 1, -1, 2, 3, 7, -5, 10, 2.5, 0.5, -0.0, 1.0, 2 ** 53, 2 ** 53 + 1, -(2 ** 62), 10 ** 20,
                       1e308, True, False, rng.randint(-20, 20)])
  if kind == "str":
    return rng.choice(STR_VALUES)
  if kind == "bool":
    return rng.choice([True, False])
  return None


def gen_list(rng, depth=1):
  k = rng.choice(["num", "str", "num", "str", "mixed"])
  n = rng.choice([0, 1, 2, 3, 4])
  out = []
  for _ in range(n):
    kk = rng.choice(["num", "str", "none", "bool"]) if k == "mixed" else k
    if depth and rng.random() < 0.1:
      out.append(gen_list(rng, depth - 1))
    else:
      out.append(gen_scalar(rng, kk))
  return out


class Counter(object):
  def __init__(self):
    self.n = 0

  def next(self):
    self.n += 1
    return self.n


def gen_record(rng, ids, nested=True):
  f = {}
  def maybe(name, fn, p=0.9):
    if rng.random() < p:
      f[name] = fn()
  maybe("n1", lambda: gen_scalar(rng, "num"))
  maybe("n2", lambda: gen_scalar(rng, "num"))
  maybe("s1", lambda: gen_scalar(rng, "str"))
  maybe("s2", lambda: gen_scalar(rng, "str"))
  maybe("Email", lambda: gen_scalar(rng, "str"))
  maybe("l1", lambda: gen_list(rng))
  maybe("l2", lambda: gen_list(rng))
  maybe("b1", lambda: gen_scalar(rng, "bool"))
  maybe("o1", lambda: rng.choice([None, None, 0, "", 5]))
  if rng.random() < 0.1:
    f[rng.choice(["n1", "s1", "l1"])] = rng.choice([None, "str", 3, [1]])     # off-type column
  if rng.random() < 0.05:
    f["lower"] = rng.choice(["field", 1])
  if nested:
    f["Office"] = Rec(ids.next(), {"City": gen_scalar(rng, "str"), "n1": gen_scalar(rng, "num")})
  return Rec(ids.next(), f)


def gen_env(rng):
  ids = Counter()
  rec = gen_record(rng, ids)
  env = {
    "rec": rec,
    "user": gen_record(rng, ids),
    "newRec": rec if rng.random() < 0.2 else gen_record(rng, ids),
    "choice": gen_record(rng, ids, nested=False),
    "x": gen_scalar(rng, "num"), "y": gen_scalar(rng, "num"),
    "s": gen_scalar(rng, "str"), "t": gen_scalar(rng, "str"),
    "xs": gen_list(rng), "ys": gen_list(rng),
    "flag": gen_scalar(rng, "bool"), "nothing": None, "len": len,
  }
  if rng.random() < 0.1:
    del env[rng.choice(["x", "s", "xs", "flag"])]
  return env


def enc_env(env):
  return [[k, enc_value(v, with_fields=True)] for k, v in sorted(env.items())]


def py_globals(env):
  g = {"__builtins__": {}}
  g.update(env)
  return g


# --------------------------------------------------------------------------------------------
# one case = one formula text

class Case(object):
  __slots__ = ("text", "mark", "rectext", "comment", "dump", "stream", "env", "kinds", "parse_error")


def first_comment_token(text):
  """The parser-side fact handed to the model: text of the first COMMENT token (Python tokenizer)."""
  # Python's own notion of a line: \n, \r\n and a bare \r all end a line (as in ast.parse)
  text = text.replace("\r\n", "\n").replace("\r", "\n")
  try:
    with warnings.catch_warnings():
      warnings.simplefilter("ignore")
      for tok in tokenize.generate_tokens(io.StringIO(text).readline):
        if tok[0] == tokenize.COMMENT:
          return tok[1]
  except (tokenize.TokenError, SyntaxError, IndentationError):
    return None
  return None


def make_case(rng, node, trivia, stream):
  pr = Printer(rng, trivia)
  c = Case()
  lead, trail = "", ""
  pr_comments_before = []
  if trivia >= 2:
    r = rng.random()
    if r < 0.12:
      cm = gen_comment(rng)
      pr_comments_before.append(cm)
      lead = cm + "\n"
    elif r < 0.18:
      lead = "\n"
  body = pr.render(node, "real")
  inner_comments = list(pr.comments)
  pr.replaying = True
  mark = pr.render(node, "mark")
  rectext = pr.render(node, "rec")
  trail_comments = []
  if trivia >= 1:
    r = rng.random()
    if r < 0.25:
      cm = gen_comment(rng)
      trail_comments.append(cm)
      trail = rng.choice(["", " ", "  "]) + cm + rng.choice(["", "\n", "\n# second comment ignored\n", "\r\n"])
    elif r < 0.35:
      trail = rng.choice([" ", "\n", "\n\n", " \n# only on its own line", "\t"])
      if "#" in trail:
        trail_comments.append("# only on its own line")
  c.text = lead + body + trail
  c.mark = lead + mark + trail
  c.rectext = lead + rectext + trail
  allc = pr_comments_before + inner_comments + trail_comments
  c.comment = allc[0] if allc else None      # first comment in textual order, by construction
  if first_comment_token(c.text) != c.comment:
    from gx.common import Infra
    raise Infra("harness self-check: first comment of %r is %r, constructed %r" % (
        c.text, first_comment_token(c.text), c.comment))
  c.stream = stream
  c.kinds = []
  c.env = None
  c.parse_error = None
  try:
    with warnings.catch_warnings():
      warnings.simplefilter("ignore")
      tree = ast.parse(c.mark, mode="eval")
    c.dump = dump_expr(tree.body)
  except SyntaxError as e:
    c.dump = None
    c.parse_error = str(e)
  return c


def real_parse(text):
  """-> ('ok', tree) | ('syntax', message) | ('exc', class name, message)"""
  import predicate_formula
  try:
    with warnings.catch_warnings():
      warnings.simplefilter("ignore")
      return ("ok", predicate_formula.parse_predicate_formula(text))
  except SyntaxError as e:
    return ("syntax", str(e.args[0]) if e.args else "")
  except RecursionError:
    return ("exc", "RecursionError", "")
  except Exception as e:      # pylint: disable=broad-except
    return ("exc", type(e).__name__, str(e)[:200])


def py_eval(rectext, env, tuple_as_list):
  def run():
    tree = ast.parse(rectext, mode="eval")
    if tuple_as_list:
      tree = ast.fix_missing_locations(TupleAsList().visit(tree))
    code = compile(tree, "<formula>", "eval")
    return eval(code, py_globals(env))      # pylint: disable=eval-used
  return enc_result(run)


# --------------------------------------------------------------------------------------------

def gen_cases(ck):
  rng = ck.rng
  quick = ck.tier == "quick"
  # 1. documented examples from the tests (fixed)
  for text in FIXED_TEXTS:
    yield fixed_case(text, "fixed")
  # 2. the supported subset with trivia, to be evaluated
  n_main = 2000 if quick else 60000
  for i in range(n_main):
    g = Gen(rng, ill_typed=rng.choice([0.0, 0.05, 0.15]))
    kind = rng.choice(["bool", "bool", "bool", "any", "num", "str", "list"])
    node = g.expr(kind, rng.choice([1, 2, 3, 3, 4, 5]))
    c = make_case(rng, node, rng.choice([0, 1, 2, 2, 2, 3]), "subset")
    c.env = gen_env(rng)
    yield c
  # 3. non-subset syntax inside supported contexts
  n_raw = 900 if quick else 20000
  for i in range(n_raw):
    g = Gen(rng, ill_typed=0.05, raw_rate=rng.choice([0.08, 0.15, 0.3]))
    node = g.expr("any", rng.choice([1, 2, 3, 4]))
    if not g.raw_used:
      node = g.raw(2) if rng.random() < 0.5 else ("bool", "And", [node, g.raw(2)])
    c = make_case(rng, node, rng.choice([0, 1, 2]), "nonsubset")
    c.kinds = list(g.raw_used)
    yield c
  # 4. constants outside JSON (bytes / Ellipsis / complex / inf) in supported contexts
  for i in range(60 if quick else 600):
    src, kind = rng.choice(ODD_CONSTANTS)
    g = Gen(rng, ill_typed=0.0)
    other = g.expr("any", 1)
    node = rng.choice([
      ("const", src), ("cmp", "Eq", other, ("const", src)), ("list", [other, ("const", src)]),
      ("bool", "Or", [other, ("const", src)]), ("call", ("name", "len"), [("const", src)], []),
    ])
    c = make_case(rng, node, rng.choice([0, 1]), "oddconst")
    c.kinds = [kind]
    yield c
  # 5. character-level mutations of valid formulas (mostly not Python at all)
  n_mut = 400 if quick else 10000
  for i in range(n_mut):
    g = Gen(rng, ill_typed=0.05)
    node = g.expr("any", rng.choice([1, 2, 3]))
    base = make_case(rng, node, rng.choice([0, 1, 2]), "mutated")
    t = base.text
    for _ in range(rng.choice([1, 1, 2, 3])):
      pos = rng.randint(0, len(t))
      r = rng.random()
      ch = rng.choice(list("()[]{}$#'\".,:=!<>+-*/%\\ \n\t@~^&|`?;") + ["$x", "$", "not", " is ", "lambda", "\r", "\x0c", "\x00"])
      if r < 0.4:
        t = t[:pos] + ch + t[pos:]
      elif r < 0.8 and t:
        t = t[:pos] + t[pos + 1:]
      else:
        t = t[:pos] + ch + t[pos + 1:]
    c = Case()
    c.text, c.mark, c.rectext, c.comment, c.dump, c.stream, c.env, c.kinds, c.parse_error = \
        t, None, None, None, None, "mutated", None, [], None
    yield c


FIXED_TEXTS = [
  "user.Email == 'X@'",
  "user.Role in ('editors', 'owners')",
  "user.Role not in ('editors', 'owners')",
  "rec.office == 'Seattle' and user.email in ['sally@', 'xie@']",
  "$office == 'Seattle' and user.email in ['sally@', 'xie@']",
  "user.IsAdmin or rec.assigned is None or (not newRec.HasDuplicates and rec.StatusIndex <= newRec.StatusIndex)",
  "user.IsAdmin or $assigned is None or (not newRec.HasDuplicates and $StatusIndex <= newRec.StatusIndex)",
  "r.A <= n.A + 1 or r.A >= n.A - 1 or r.B < n.B * 2.5 or r.B > n.B / 2.5 or r.C % 2 != 0",
  "rec.A is True or rec.A is not False",
  "$A is True or $A is not False",
  "user.Office.City == 'Seattle' and user.Status.IsActive",
  "True # Comment!  ",
  "\"#x\" == \" # Not a comment \"#Comment!",
  "# Allow owners\nuser.Access == 'owners' # ignored\n# comment ignored",
  "choice not in $Categories",
  "choice.role == \"Manager\"",
  "user.Email.lower() == 'foo'",
  "rec.First_Name.upper() == 'FOO'.lower()",
  "func(a.append(5), bar(b), c=1, d=baz(x=3))",
  "max(rec)",
  "f(**a)", "f(a, **b)", "f(c=1, c=2)", "()", "(1,)", "[]", "$x.y", "\"$x\"  # $c", "'a' 'b'", "DOLLARx", "rec.DLR",
  "(1, 2) == [1, 2]", "x or 0 or '' or [] or None", "1 and 2 and 3", "not not x",
  # old-Mac line ends (a bare CR ends a line for ast.parse)
  "(1,\r\t2)", "x\r# c", "(x\r# c\n)", "[1,\r\n\t2]  # c",
  # non-subset from the tests
  "user.id in {1, 2, 3}", "1 if user.IsAnon else 2", "max(*rec)", "1 | 2", "1 << 2", "~test", "-1", "+x", "a < b < c",
]


def fixed_case(text, stream):
  """A hand-written text: `$x` marking done by the same regex idea but on the harness side (all the
  fixed texts use `$` only as a column reference or inside a string/comment)."""
  import re
  c = Case()
  c.text = text
  pieces = re.split(r"""('(?:[^'\\]|\\.)*'|"(?:[^"\\]|\\.)*"|\#[^\n]*)""", text)
  mark, rec = [], []
  for i, p in enumerate(pieces):
    if i % 2 == 0:
      mark.append(re.sub(r"\$(?=[A-Za-z_])", DOLLAR_MARK + ".", p))
      rec.append(re.sub(r"\$(?=[A-Za-z_])", "rec.", p))
    else:
      mark.append(p); rec.append(p)
  c.mark, c.rectext = "".join(mark), "".join(rec)
  c.comment = first_comment_token(text)
  c.stream, c.kinds, c.env, c.parse_error = stream, [], None, None
  try:
    c.dump = dump_expr(ast.parse(c.mark, mode="eval").body)
  except SyntaxError as e:
    c.dump, c.parse_error = None, str(e)
  return c


# --------------------------------------------------------------------------------------------
# exhaustive small scope for the operator semantics: `a OP b` over a value table

def value_table():
  r1 = Rec(101, {"n1": 1})
  r2 = Rec(102, {"n1": 1})
  return [None, True, False, 0, 1, -1, 2, 7, -7, 2 ** 53, 2 ** 53 + 1, 10 ** 20, 0.0, -0.0, 1.0, 2.5, -2.5, 1e308,
          float("inf"), "", "a", "A", "ab", "b", "é", [], [1], [1, 2], [1.0], ["a"], [None], [[1]], [1, "a"],
          r1, r2, len]


BINARY_TEXTS = ["a + b", "a - b", "a * b", "a / b", "a % b", "a == b", "a != b", "a < b", "a <= b", "a > b",
                "a >= b", "a is b", "a is not b", "a in b", "a not in b", "a and b", "a or b", "not a",
                "[a] < [b]", "[a, 1] == [b, 1]", "a.lower()", "len(a)", "a.n1"]


# --------------------------------------------------------------------------------------------

def bare_cr(text):
  return "\r" in text.replace("\r\n", "")


def check_cases(ck, cases):
  """Runs the real code, the oracle and the model on the cases."""
  import predicate_formula
  ops, idx = [], []
  results = []
  for ci, c in enumerate(cases):
    ck.evaluated()
    ck.count("stream_" + c.stream)
    rp = real_parse(c.text)
    results.append(rp)
    replay = {"text": c.text, "stream": c.stream}
    # ---- oracle: exception class
    if rp[0] == "exc":
      if rp[1] == "TokenError" and bare_cr(c.text):
        sig = "bare CR line break: tokenize.TokenError escapes from parse_predicate_formula"
      else:
        sig = "non-SyntaxError exception %s from parse_predicate_formula" % rp[1]
      ck.violation(sig, "%r raised %s: %s" % (c.text, rp[1], rp[2]), replay)
      continue
    # ---- oracle: JSON clauses on every returned tree
    if rp[0] == "ok":
      bad = tree_json_clauses(rp[1])
      if bad:
        ck.violation(bad[0], "%r -> %r (%s)" % (c.text, rp[1], bad[1]), replay)
      else:
        try:
          with warnings.catch_warnings():
            warnings.simplefilter("ignore")
            js = predicate_formula.parse_predicate_formula_json(c.text)
          if json.loads(js) != rp[1]:
            ck.violation("parse_predicate_formula_json differs from the tree", repr(c.text), replay)
        except Exception as e:      # pylint: disable=broad-except
          ck.violation("parse_predicate_formula_json raises " + type(e).__name__, repr(c.text), replay)
    if c.stream == "mutated":
      ck.count("mutated_" + rp[0])
      continue
    if c.dump is None:
      # the generator printed something Python cannot parse: a harness bug, not a verdict
      from gx.common import Infra
      raise Infra("generator produced unparseable text %r: %s" % (c.mark, c.parse_error))
    unsupported = has_unsupported(c.dump)
    # ---- oracle: a formula that Python itself refuses to compile is not in the subset either
    if rp[0] == "ok" and not unsupported:
      try:
        with warnings.catch_warnings():
          warnings.simplefilter("ignore")
          compile(c.rectext, "<formula>", "eval")
      except SyntaxError as e:
        ck.violation("formula rejected by Python's compiler is accepted (%s)" % str(e.msg).split(":")[0],
                     "%r -> %r" % (c.text, rp[1]), replay)
        continue
    # ---- oracle: unsupported syntax must raise SyntaxError
    if unsupported:
      ck.count("nonsubset_cases")
      for k in c.kinds:
        ck.count("nonsubset_kind_" + k)
      if rp[0] == "ok":
        ck.violation("unsupported syntax accepted (%s)" % (",".join(sorted(set(c.kinds))) or "?"),
                     "%r -> %r" % (c.text, rp[1]), replay)
    else:
      if rp[0] != "ok":
        ck.violation("supported expression rejected",
                     "%r raised SyntaxError %s" % (c.text, rp[1]), replay)
      else:
        # ---- oracle: comment clause
        want = expected_comment(c.comment) if c.comment is not None else None
        got = rp[1][2] if (type(rp[1]) is list and rp[1][:1] == ["Comment"] and len(rp[1]) == 3) else None
        if want != got:
          sig = ("bare CR line break: comment not found by the tokenizer pass" if bare_cr(c.text) else
                 "Comment node text differs from the first comment")
          ck.violation(sig, "%r: expected %r got %r" % (c.text, want, got), replay)
          continue
        if want is not None:
          ck.count("with_comment")
    ops.append({"m": "predicate", "op": "parse", "expr": c.dump, "comment": c.comment})
    idx.append(("parse", ci))
    # ---- evaluation
    if c.env is not None and rp[0] == "ok" and not unsupported:
      ops.append({"m": "predicate", "op": "eval", "expr": c.dump, "comment": c.comment,
                  "env": enc_env(c.env), "tree": enc_tree(rp[1])})
      idx.append(("eval", ci))
  model = ck.driver(ops)
  mism = None
  for (what, ci), mo in zip(idx, model):
    c, rp = cases[ci], results[ci]
    replay = {"text": c.text, "stream": c.stream}
    if "error" in mo and "msg" not in mo:
      from gx.common import Infra
      raise Infra("driver error %r on %r" % (mo, c.text))
    if what == "parse":
      if rp[0] == "ok":
        ok = ("tree" in mo) and mo["tree"] == enc_tree(rp[1])
      else:
        ok = ("tree" not in mo) and rp[1].startswith(mo.get("msg", "\0"))
      ck.count("parse_compared")
      if not ok:
        ck.count("model_impl_disagreements")
        if mism is None:
          mism = {"text": c.text, "expr": c.dump, "impl": repr(rp)[:600], "model": mo}
      elif rp[0] == "ok" and c.stream == "subset":
        ck.nontrivial_case(c.text)
      continue
    # eval
    env = c.env
    lit = py_eval(c.rectext, env, False)
    ref = py_eval(c.rectext, env, True)
    if lit != ref:
      ck.count("tuple_identification_observable")
    tr = enc_result(lambda: eval_tree(rp[1], env))
    replay["env"] = enc_env(env)
    ck.count("eval_compared")
    ck.count("eval_outcome_" + (ref.get("error") or "value"))
    if tr != ref:
      # the property itself fails on the real code
      cls = "value" if "ok" in ref and "ok" in tr else "error/value"
      ck.violation("tree evaluation differs from Python evaluation (%s)" % cls,
                   "%r: python=%r tree=%r real tree=%r" % (c.text, ref, tr, rp[1]), replay)
      continue
    ck.sample({"text": c.text, "tree": rp[1], "result": ref})
    m_expr, m_tree, m_given = mo["expr"], mo["tree"], mo["given"]
    if m_expr.get("error") == "Unmodelled" or m_given.get("error") == "Unmodelled":
      ck.count("eval_unmodelled")
      if m_expr != m_given:
        ck.count("model_impl_disagreements")
        if mism is None:
          mism = {"text": c.text, "what": "unmodelled on one side only", "model": mo}
      continue
    if not (m_expr == ref and m_given == tr and m_tree == m_expr):
      ck.count("model_impl_disagreements")
      if mism is None:
        mism = {"text": c.text, "env": enc_env(env), "python": ref, "tree_eval": tr, "model": mo}
  return mism


def operator_table(ck):
  """`a OP b` for every pair of the value table: real parser + naive tree evaluation vs Python eval
  vs the model."""
  vals = value_table()
  if ck.tier == "quick":
    pairs = [(a, b) for a in vals for b in vals]
    pairs = [p for i, p in enumerate(pairs) if i % 4 == ck.seed % 4]
  else:
    pairs = [(a, b) for a in vals for b in vals]
  ops, meta = [], []
  mism = None
  for text in BINARY_TEXTS:
    c = fixed_case(text, "optable")
    rp = real_parse(text)
    if rp[0] != "ok":
      ck.violation("supported expression rejected", "%r: %r" % (text, rp), {"text": text, "stream": "optable"})
      continue
    unary = "b" not in text.replace("lower", "")
    seen = set()
    for (a, b) in pairs:
      if unary:
        if id(a) in seen:
          continue
        seen.add(id(a))
      env = {"a": a, "b": b, "len": len}
      ck.evaluated()
      ref = py_eval(text, env, True)
      tr = enc_result(lambda: eval_tree(rp[1], env))
      if ref != tr:
        ck.violation("tree evaluation differs from Python evaluation (operator table)",
                     "%r a=%r b=%r python=%r tree=%r" % (text, a, b, ref, tr),
                     {"text": text, "stream": "optable", "env": enc_env(env)})
        continue
      ops.append({"m": "predicate", "op": "eval", "expr": c.dump, "comment": None, "env": enc_env(env),
                  "tree": enc_tree(rp[1])})
      meta.append((text, a, b, ref))
  model = ck.driver(ops)
  for (text, a, b, ref), mo in zip(meta, model):
    ck.count("optable_compared")
    if mo["expr"].get("error") == "Unmodelled":
      ck.count("optable_unmodelled")
      if mo["given"] != mo["expr"]:
        ck.count("model_impl_disagreements")
        mism = mism or {"text": text, "a": repr(a), "b": repr(b), "model": mo}
      continue
    if not (mo["expr"] == ref and mo["given"] == ref and mo["tree"] == ref):
      ck.count("model_impl_disagreements")
      mism = mism or {"text": text, "a": repr(a), "b": repr(b), "python": ref, "model": mo}
    else:
      ck.nontrivial_case([text, repr(a), repr(b)])
  return mism


def lean_witness(ck):
  """Replay of the Lean negation witness (tree_json_safe_full_is_false): the constant b'x'."""
  rp = real_parse("b'x'")
  ck.evaluated()
  if rp[0] == "ok":
    bad = tree_json_clauses(rp[1])
    if bad:
      ck.violation(bad[0], "Lean witness b'x' -> %r (%s)" % (rp[1], bad[1]), {"text": "b'x'", "stream": "oddconst"})
      ck.count("lean_witness_confirmed")
      return
  # the witness no longer fails on the code: the model (which accepts it) is out of date
  out = ck.driver([{"m": "predicate", "op": "parse", "expr": {"k": "Constant", "t": "other", "v": "bytes"},
                    "comment": None}])[0]
  if "tree" in out:
    ck.broken("lean witness b'x' not reproduced", "model accepts a bytes constant, the code gives %r" % (rp,),
              {"text": "b'x'"})


def run(ck):
  ck.rule = ("formulas generated from the supported grammar (typed generator, depth<=5, random trivia: spaces, "
             "redundant parentheses, line breaks and comments inside brackets, leading/trailing comments, literal "
             "spellings) each with a random environment (records with attributes, numbers incl. floats/bools/big ints, "
             "strings, lists); a non-subset stream (41 unsupported constructs nested in supported contexts); constants "
             "outside JSON; character-level mutations; an operator table `a OP b` over 36x36 values (every fourth pair in "
             "quick). non-trivial = subset formula accepted by the real parser whose tree equals the model's, or an "
             "operator-table cell on which Python, the naive tree evaluator and the model agree; distinct by text / cell")
  ck.assumptions = [
    "Python's tokenizer/parser and the textual `$x`->`rec.x` replacement are parameters: the model starts from Python's ast of the text",
    "tuple displays are read as list displays (visit_Tuple: 'We don't distinguish tuples and lists')",
    "model value universe: None/bool/int/float/str/list/records with identity/len/str.lower/str.upper; "
    "float %, str % x, identity of non-singletons, |int|>2^53 mixed with floats, non-ASCII case mapping are "
    "'Unmodelled' (skipped in the model comparison, still checked by the oracle)",
    "attribute names used on non-record values are not Python built-in attributes (other than str.lower/upper)",
  ]
  ck.lean(LEAN_MODULES)
  lean_witness(ck)
  mism, chunk = None, []
  for c in gen_cases(ck):
    chunk.append(c)
    if len(chunk) >= 5000:
      mism = check_cases(ck, chunk) or mism
      chunk = []
  mism = check_cases(ck, chunk) or mism
  mism2 = operator_table(ck)
  mism = mism or mism2
  if mism and not ck.has_impl_violation():
    ck.broken("correspondence predicate_formula vs Grist.Predicate",
              "model and implementation differ and the property's clauses hold on all explored inputs", mism)


def replay(ck, rp):
  r = rp["replay"]
  text = r["text"]
  res = real_parse(text)
  ck.evaluated()
  print("replay: %r -> %r" % (text, res))
  c = Case()
  c.text, c.stream, c.kinds, c.env, c.parse_error = text, r.get("stream", "subset"), [], None, None
  if c.stream == "mutated":
    c.mark = c.rectext = c.comment = c.dump = None
    cases = [c]
  else:
    c = fixed_case(text, c.stream)
    if "env" in r:
      c.env = dec_env(r["env"])
    cases = [c]
  mism = check_cases(ck, cases)
  if c.stream == "optable" and "env" in r and res[0] == "ok":
    env = dec_env(r["env"])
    ref = py_eval(c.rectext, env, True)
    tr = enc_result(lambda: eval_tree(res[1], env))
    print("replay: python=%r tree=%r" % (ref, tr))
    if ref != tr:
      ck.violation("tree evaluation differs from Python evaluation (operator table)", "%r" % text, r)
  if mism:
    ck.broken("correspondence predicate_formula vs Grist.Predicate", "replayed mismatch", mism)
  ck.nontrivial_case(text); ck.nontrivial_case("replay")
  ck.lean(LEAN_MODULES)


def dec_env(enc):
  recs = {}

  def dv(j):
    if j is None or j is True or j is False:
      return j
    if "i" in j: return int(j["i"])
    if "f" in j: return float("nan") if j["f"] == "nan" else bits_float(j["f"])
    if "s" in j: return j["s"]
    if "l" in j: return [dv(x) for x in j["l"]]
    if "b" in j: return len
    if "r" in j:
      if j["r"] not in recs:
        recs[j["r"]] = Rec(j["r"], {k: dv(v) for k, v in j.get("fields", [])})
      return recs[j["r"]]
    raise ValueError(j)
  return {k: dv(v) for k, v in enc}
