"""
C05  Incremental recalculation equals recalculation from scratch.

Theorems: GristProps/C05.lean about GristModel/Recalc.lean: the invariant "no clean cell has read a
dirty cell, and every clean formula cell is consistent" is preserved by every transition
(inv_preserved); at quiescence every formula cell equals its formula applied to the store
(quiescent_consistent); on acyclic documents that fixpoint is unique, so an incremental run and a
from-scratch run agree (acyclic_unique, fresh_run_agrees).
Tie: (i) the machine's enabledness condition is audited on the real engine for every evaluation of
every bundle: a completed evaluation must not have read a dirty cell (wrappers on _use_node /
_recompute_one_cell); (ii) C18's check validates the engine's finishing order against the machine.
     (iii) lookup.py's `_LookupRelation` bookkeeping (which referring rows are handed to invalidate_records when
keys of a lookup index change; the `_invalidated_keys_cache`) is below the Recalc model.  It has its own model
GristModel/LookupRel.lean with safety theorems in GristProps/C05.lean; every relation of every history is recorded
at run time (gx/lookuprel_harness.py), replayed in the model through the driver and compared per operation (rows
handed over, get_affected_rows_by_keys, final map and cache); the theorems' explicit hypothesis about the engine
(`engineSettled`: a row handed over or reset is evaluated from the start before the engine treats it as up to date)
is evaluated on every trace at every end of a bundle.  It is expected to fail only for the `#summary#` helper
columns (their formula `lookupOrAddDerived` adds the record it looks up while the column is being computed; the
property excludes such formulas); those are counted separately.
Search (the property itself): after every successful bundle a fresh Engine is loaded with the
metadata and the data columns only, `Calculate` is applied, and every table is compared.
Excluded as the property says: volatile / side-effecting user formulas and trigger-formula data
columns (the generator emits neither).
"""
from gx.props import _hist

PROP = "C05"
_LK_COUNT = [0]
LK_PROP = "C05/lookuprel"      # pseudo-property under which lookuprel correspondence problems travel in h.findings
PROFILE = {"add_formula_column": 10, "modify_formula": 6, "summary": 4, "update_summary": 1.5, "add_ref_column": 4,
           "reverse_column": 1, "update_record": 18, "bulk_update": 8, "remove_record": 8, "bulk_remove": 4,
           "replace_data": 2, "rename_column": 4, "modify_type": 4, "to_formula": 2, "to_data": 1,
           "undo_earlier": 3, "malformed": 2, "trigger_column": 0, "trigger_config": 0, "unhashable_key": 4,
           "lookup_chain": 14, "ref_reach_retype": 5,
           # an OLD undo list replayed on a document that has moved on is a raw application of doc actions: it can
           # remove a table under its summary table or a column under its references (a document violating C09);
           # such documents are outside this property's histories, as for C09 / C10 / C11 / C12
           "stale_undo": 0}
CFG = {"oracles": (), "n_bundles": 14, "profile": PROFILE, "hook": "gx.props.c05.install", "tie": False}


CFG_CHAIN = {"oracles": (), "n_bundles": 3, "profile": dict(PROFILE, lookup_chain=60), "hook": "gx.props.c05.install",
             "tie": False, "chain": True}


def setup_chain(h):
  """Set-up bundles: rows, a cross-table chain of lookups whose second key column is a formula fed by the first
  lookup (Gen.g_lookup_chain), then a run of single-cell edits of the chain's key cells, each followed by the
  fresh-engine comparison."""
  from gx.gen_hist import World
  rng, gen = h.rng, h.gen
  w = World(h.doc)
  for t in w.user_tables():
    if len(t["rows"]) < 3:
      k = rng.randint(3, 6)
      yield [["BulkAddRecord", t["tableId"], [None] * k,
              {c["colId"]: [gen.value_for(w, c, allow_bad=False) for _ in range(k)] for c in w.data_cols(t)}]]
  for _ in range(5):
    ua = gen.g_lookup_chain(World(h.doc))
    if isinstance(ua, tuple):
      yield ua[0]
      break
  for _ in range(rng.randint(15, 30)):
    ua = gen.g_lookup_chain(World(h.doc))
    if ua and not isinstance(ua, tuple):
      yield [ua]
    if getattr(h, "_c05_dead", False):
      return


def setup_missing_id(h):
  """Set-up bundles: formulas that mention a column id that does not exist yet (AttributeError), directly and
  through a reference; then a column of that table gets exactly that id - by a rename, by AddColumn, or by the
  undo of a rename away from it - and cells are edited: the formulas must come to life as in a fresh engine."""
  from gx.gen_hist import World
  rng, gen = h.rng, h.gen
  w = World(h.doc)
  ts = w.user_tables()
  if not ts:
    return
  t = rng.choice(ts)
  for tt in ts:
    if len(tt["rows"]) < 2:
      k = rng.randint(2, 4)
      yield [["BulkAddRecord", tt["tableId"], [None] * k,
              {c["colId"]: [gen.value_for(w, c, allow_bad=False) for _ in range(k)] for c in w.data_cols(tt)}]]
  miss = rng.choice(["zz1", "zz2", "Total"])
  yield [["AddColumn", t["tableId"], gen.new_name(), {"type": "Any", "isFormula": True,
                                                       "formula": rng.choice(["$%s", "$%s * 2", "rec.%s", "str($%s) + 'x'"]) % miss}]]
  other = rng.choice(ts)
  rname = gen.new_name()
  yield [["AddColumn", other["tableId"], rname, {"type": "Ref:%s" % t["tableId"], "isFormula": False}]]
  w = World(h.doc)
  trows = w.tables[t["tableId"]]["rows"]
  orows = w.tables[other["tableId"]]["rows"]
  if trows and orows:
    yield [["BulkUpdateRecord", other["tableId"], list(orows), {rname: [rng.choice(trows) for _ in orows]}]]
  yield [["AddColumn", other["tableId"], gen.new_name(), {"type": "Any", "isFormula": True, "formula": "$%s.%s" % (rname, miss)}]]
  w = World(h.doc)
  dcs = [c for c in w.data_cols(w.tables[t["tableId"]]) if c["colId"] != rname]
  how = rng.random()
  if dcs and how < 0.6:
    c = rng.choice(dcs)
    if rng.random() < 0.5:
      yield [["RenameColumn", t["tableId"], c["colId"], miss]]
    else:
      yield [["UpdateRecord", "_grist_Tables_column", c["ref"], {"colId": miss}]]
    if trows:
      yield [["UpdateRecord", t["tableId"], rng.choice(trows), {miss: gen.value_for(w, c, allow_bad=False)}]]
  elif how < 0.8:
    yield [["AddColumn", t["tableId"], miss, {"type": "Int", "isFormula": False}]]
    if trows:
      yield [["UpdateRecord", t["tableId"], rng.choice(trows), {miss: rng.randint(1, 9)}]]
  elif dcs:
    c = rng.choice(dcs)
    yield [["RenameColumn", t["tableId"], c["colId"], miss]]
    r2 = h.bundles[-1]["res"] if h.bundles else None
    yield [["RenameColumn", t["tableId"], miss, "tmp_" + miss]]
    last = h.bundles[-1]["res"]
    if last.ok and last.raw_undo:
      yield [["ApplyUndoActions", last.raw_undo]]


def install(h, cfg):
  from gx import engine_driver as ed
  from gx import recalc_harness as rh
  from gx import lookuprel_harness as lh
  rh.install()
  # the _LookupRelation recorder: every history in the quick tier, every `lookuprel_every`-th one of a worker otherwise
  _LK_COUNT[0] += 1
  h._lkrel = None
  if (_LK_COUNT[0] - 1) % max(1, cfg.get("lookuprel_every", 1)) == 0:
    h._lkrel = lh.Recorder(h.doc.engine).start()
  if cfg.get("chain"):
    h.setup = setup_chain
  elif h.rng.random() < 0.35:
    h.setup = setup_missing_id
  orig_raw = h._raw

  def raw(uas):
    with rh.Recording(reads=True) as rec:
      res = orig_raw(uas)
    if h._lkrel is not None:
      h._lkrel.settle()
    bad = rh.dirty_read_violations(rec.reads)
    if bad:
      h._find(PROP, "an evaluation completed although it read a dirty cell", repr(bad[:2]),
              {"log_index": len(h.log) - 1})
    return res
  h._raw = raw
  h.extra_oracles.append(fresh_oracle)
  orig_end = h.end

  def end():
    orig_end()
    lookuprel_finish(h)
  h.end = end


def lookuprel_finish(h):
  """End of a history: replay every recorded `_LookupRelation` trace in Grist.LookupRel and compare."""
  from gx import lookuprel_harness as lh
  rec = h._lkrel
  if rec is None:
    return []
  rec.stop()
  h.stats["lkrel_histories"] = h.stats.get("lkrel_histories", 0) + 1
  cnt, problems = lh.compare(rec, lh.run_driver)
  for k, v in cnt.items():
    h.stats["lkrel_" + k] = h.stats.get("lkrel_" + k, 0) + v
  explained = any(f[0] == PROP for f in h.findings)
  out = []
  for (kind, detail, obj) in problems:
    f = (LK_PROP, kind, detail, {"history": h.replay_obj()["history"], "lookuprel": obj,
                                 "explained_by_direct_finding": explained})
    h.findings.append(f)
    out.append(f)
  return out


STALE_LOOKUP_SIG = ("formula with a lookup keyed on a column that no longer exists keeps its old result "
                    "(a freshly loaded engine computes KeyError)")


def stale_removed_key(doc, sch, t, c):
  """Does column t.c's formula look records up by a keyword column that the target table lacks?"""
  import re
  info = sch.get(t, {}).get(c)
  if not info or not info[2]:
    return False
  for m in re.finditer(r"(\w+)\.lookup(?:One|Records)\(([^()]*(?:\([^()]*\)[^()]*)*)\)", info[2]):
    tgt, args = m.group(1), m.group(2)
    if tgt not in sch:
      continue
    for kw in re.findall(r"(?:^|,)\s*(\w+)\s*=", args):
      if kw not in ("order_by", "sort_by") and kw not in sch[tgt] and kw != "id":
        return True
  return False


def fresh_oracle(h, rec):
  from gx import engine_driver as ed
  if getattr(h, "_c05_dead", False):
    return
  doc = h.doc
  try:
    fresh, res = ed.fresh_engine_from(doc)
  except Exception as e:
    h._find(PROP, "fresh engine cannot load the document: " + type(e).__name__, str(e)[:200], rec)
    return
  h.stats["fresh_compares"] = h.stats.get("fresh_compares", 0) + 1
  if not res.ok:
    h._find(PROP, "Calculate fails on a freshly loaded engine: " + res.error[0], res.error[1], rec)
    return
  a, b = doc.snapshot(), fresh.snapshot()
  d = ed.diff_snapshots(a, b)
  if d:
    sch = doc.engine_schema()
    sig = classify(d[0], sch, rec)
    cells = [x for x in d if x.startswith("cell ")]
    from gx.hist_run import circ_order_only, CIRC_ORDER_SIG
    if circ_order_only(doc, d):
      sig = CIRC_ORDER_SIG % "fresh"
    elif __import__("gx.hist_run", fromlist=["x"]).stale_lookup_only(doc, d):
      sig = STALE_LOOKUP_SIG
    elif __import__("gx.hist_run", fromlist=["x"]).empty_table_key_change_only(doc, d, rec["actions"]):
      sig = __import__("gx.hist_run", fromlist=["x"]).EMPTY_KEY_CHANGE_SIG % "fresh"
    elif __import__("gx.hist_run", fromlist=["x"]).empty_table_key_change_only(doc, d, rec["actions"], type_error=True):
      sig = __import__("gx.hist_run", fromlist=["x"]).UNHASHABLE_KEY_NO_DEP_SIG % "fresh"
    h._find(PROP, sig, "; ".join(d[:3]) + " (first=incremental, second=fresh)", rec)
    h._c05_dead = True      # the live engine is known to have diverged: stop judging this history
  # non-trivial: some formula cell changed through a dependency in this bundle
  st = rec["res"].steps or []
  if sum(1 for s in st if s[0] == "calc") >= 2:
    rec["nontrivial"] = True


def classify(d, sch, rec):
  kind = d.split(" ")[0]
  acts = "+".join(sorted(set(a[0] for a in rec["actions"])))
  if kind == "cell":
    t = d.split(" ")[1].split("[")[0]
    c = d.split("].", 1)[1].split(":")[0]
    info = sch.get(t, {}).get(c)
    what = "formula" if (info and info[1]) else "data"
    where = "summary table" if "_summary" in t else ("metadata table " + t if t.startswith("_grist_") else "user table")
    return "incremental value differs from fresh recalculation: %s column of %s after %s" % (what, where, acts)
  return "incremental document differs from freshly loaded one (%s) after %s" % (kind, acts)


def run(ck):
  ck.rule = ("formula-heavy seeded histories (references, reference lists, lookups, summary groups, cross-table chains, "
             "type changes, renames, undo); after EVERY successful bundle a fresh engine is loaded from the data columns "
             "and compared; non-trivial = bundle in which at least two calc deltas were produced; distinct by user actions")
  ck.assumptions = ["generator emits deterministic formulas only; no NOW/TODAY/random/REQUEST/PEEK; no trigger-formula columns",
                    "read audit covers reads of specific rows (lookup-map reads are whole-node reads and are covered by the fresh-engine comparison only)",
                    "Grist.LookupRel: keys are tokens numbered per relation by Python equality/hash; the set/set TwoWayMap is modelled as "
                    "one relation (C13 proves its two dicts consistent; both are compared with the model)",
                    "Grist.LookupRel explicit hypothesis engineSettled (theorem lookuprel_settled_rows_handed): a referring row handed to "
                    "invalidate_records or passed to reset_rows is evaluated from the start before the engine treats it as up to date; "
                    "evaluated on every recorded trace at every end of a bundle; it fails, as expected, only for #summary# helper columns "
                    "(lookupOrAddDerived changes the index it reads during the evaluation; counted separately in "
                    "lookuprel_correspondence.hypothesis_violations_side_effecting_column)",
                    "which row is 'current' when _add_lookup is called (engine._current_row_id) and the order in which the engine "
                    "issues the operations are observed, not modelled"]
  ck.lean(["GristProps.C05"])
  synthetic_lookuprel(ck)
  every = 1 if ck.tier == "quick" else 3
  merged = _hist.run_histories(ck, dict(CFG, lookuprel_every=every), n_quick=16, n_thorough=1200)
  # the lookup-chain family: short histories that are nearly all chain edits
  m2 = _hist.run_histories(ck, dict(CFG_CHAIN, lookuprel_every=every), n_quick=64, n_thorough=2500)
  for key in ("findings", "tie", "samples", "infra"):
    merged[key] += m2[key]
  merged["nontrivial"].update(m2["nontrivial"])
  merged["histories"] += m2["histories"]
  for key in ("stats", "kinds", "errors", "step_kinds"):
    for k, v in m2[key].items():
      if isinstance(v, (int, float)):
        merged[key][k] = merged[key].get(k, 0) + v
  ck.extra["fresh_engine_comparisons"] = merged["stats"].get("fresh_compares", 0)
  ck.extra["lookup_chain_histories"] = m2["histories"]
  _hist.report(ck, merged, PROP, ())
  report_lookuprel(ck, merged)


def synthetic_lookuprel(ck, only=None):
  """The witnesses of GristProps/C05.lean part (L) and seeded random operation sequences, applied to a bare
  `_LookupRelation` of the current tree and to the model."""
  from gx import common
  common.setup_repo_path()
  from gx import lookuprel_harness as lh
  if only is not None:
    seqs = [only]
  else:
    n = 400 if ck.tier == "quick" else 6000
    seqs = [list(w) for w in lh.WITNESSES] + [lh.random_ops(ck.rng, ck.rng.randint(3, 30)) for _ in range(n)]
  real = [lh.run_on_real_class(ops) for ops in seqs]
  answers = ck.driver([{"m": "lookuprel", "op": "trace", "ops": ops} for ops in seqs])
  first, bad, handing, suppressed = None, 0, 0, 0
  for ops, (results, fin), ans in zip(seqs, real, answers):
    if "error" in ans:
      raise common.Infra("lookuprel driver: %s" % ans["error"])
    ck.evaluated()
    hs = [r for o, r in zip(ops, results) if o[0] == "inv" and r]
    handing += len(hs)
    if ans["variant_differs"]:
      suppressed += 1
      ck.nontrivial_case(["lookuprel", ops])
    m = lh.synthetic_mismatch(ops, results, fin, ans)
    if m:
      bad += 1
      if first is None:
        first = (m, ops, results, fin, ans)
  ck.cov["counters"].update({"lookuprel_synthetic_sequences": len(seqs), "lookuprel_synthetic_disagreements": bad,
                             "lookuprel_synthetic_invalidations_handing_rows": handing,
                             "lookuprel_synthetic_sequences_where_variant_differs": suppressed})
  if first is not None:
    ck._lookuprel_synthetic = first
  return first


def report_lookuprel(ck, merged):
  lk = {k[6:]: v for k, v in merged["stats"].items() if k.startswith("lkrel_")}
  ck.extra["lookuprel_correspondence"] = lk
  probs = [f for f in merged["findings"] if f[0] == LK_PROP]
  unexplained = [f for f in probs if not f[3].get("explained_by_direct_finding")]
  ck.cov["counters"].update({
    "lookuprel_relations_traced": lk.get("relations", 0), "lookuprel_ops_replayed": lk.get("ops", 0),
    "lookuprel_invalidate_ops_compared": lk.get("inv_compared", 0),
    "lookuprel_traces_violating_hypothesis": lk.get("hypothesis_violations", 0),
    "lookuprel_model_impl_problems": len(probs),
    "lookuprel_problems_in_histories_with_a_reported_violation": len(probs) - len(unexplained)})
  syn = getattr(ck, "_lookuprel_synthetic", None)
  if syn is not None and not ck.has_impl_violation():
    (m, ops, results, fin, ans) = syn
    ck.broken("correspondence lookup.py _LookupRelation vs Grist.LookupRel",
              "operation sequence on a bare _LookupRelation: %s" % m,
              {"lookuprel_ops": ops, "code_results": results, "code_final": fin, "model": ans})
  if unexplained and not ck.has_impl_violation():
    (_, kind, detail, replay, seed) = unexplained[0]
    what = ("hypothesis engineSettled of Grist.LookupRel on a recorded trace" if kind.startswith("hypothesis")
            else "correspondence lookup.py _LookupRelation vs Grist.LookupRel")
    ck.broken(what, "%d problem(s); first: %s -- %s" % (len(unexplained), kind, detail[:500]), dict(replay, seed=seed))


def replay(ck, rp):
  ck.lean(["GristProps.C05"])
  import random
  from gx import common
  common.setup_repo_path()
  from gx.hist_run import HistoryRun
  r = rp["replay"]
  if "lookuprel_ops" in r:
    first = synthetic_lookuprel(ck, only=r["lookuprel_ops"])
    print("replay (operation sequence on a bare _LookupRelation):", first[0] if first else "code and model agree")
    if first:
      ck.broken("correspondence lookup.py _LookupRelation vs Grist.LookupRel", first[0], r)
    ck.nontrivial_case("replay"); ck.nontrivial_case("replay2")
    return
  hist, idx = r["history"], r.get("bundle_index", len(r["history"]) - 1)
  h = HistoryRun(random.Random(0), n_bundles=0, oracles=())
  install(h, CFG)
  for b in hist[:idx]:
    h._raw(b)
  h.apply(hist[idx], ["replay"])
  lk = lookuprel_finish(h)
  for f in h.findings:
    print("replay finding:", f[0], f[1], f[2][:300])
    if f[0] == PROP:
      ck.violation(f[1], f[2], {"history": hist, "bundle_index": idx})
  if lk and not ck.has_impl_violation():
    ck.broken("correspondence lookup.py _LookupRelation vs Grist.LookupRel" if not lk[0][1].startswith("hypothesis")
              else "hypothesis engineSettled of Grist.LookupRel on a recorded trace",
              "%s -- %s" % (lk[0][1], lk[0][2][:500]), lk[0][3])
  if not h.findings:
    print("replay: property holds on this history")
  ck.evaluated(); ck.nontrivial_case("replay"); ck.nontrivial_case("replay2")
