"""
C25  Migrations are total and reach the current schema.

Theorems: lean/GristProps/C25.lean about GristModel/Lenient.lean (= table_data_set.TableDataSet) and
the data lean/Generated/Migrations.lean that translate.gen_migrations() extracts from the REAL
create_migrations on every run (see the header of C25.lean for what is proved and what is searched).

Interpretation (decisions where the property text leaves room):
 * "a document at schema version v" = `test_migrations.schema_version0()` brought to v by the
   registered migration functions 1..v on a real TableDataSet (translate.mig_doc_at), then populated:
   every metadata table gets records whose cells hold values of the column's declared type, user
   tables get typed data and matching _grist_Tables/_grist_Tables_column records.
 * "values of their declared types" is read at the interface create_migrations really has
   (ActiveDoc._migrate passes raw database values): Text = any str; Int/Ref = int; Bool = bool;
   Numeric/PositionNumber/DateTime = float (DateTime also None); RefList/ChoiceList = None or the
   JSON text the database stores ('[15]' — migration29's own comment says so).  Metadata is
   referentially consistent: Ref cells hold 0 or the id of an existing record, structural references
   (column->table, field->section/column, section->table, summary->source) are valid and non-zero,
   table/column identifiers and column types are well-formed (they are Text cells, but they are the
   document's schema, not free text).  Everything else that is Text is free text.
 * "creating and applying succeeds": `create_migrations(all_tables)` (all tables passed, as the
   second attempt of ActiveDoc._migrate does) returns, and a TableDataSet holding the same document
   applies the returned actions without raising (test_migrations does exactly this for v0).
 * "schema equals the current schema": `get_schema()` restricted to `_grist_*` tables `==`
   `{a.table_id: {c['id']: c}}` of schema_create_actions() — Python dict equality, i.e. column ORDER
   is not compared (it legitimately differs), every col_info key is.
 * "cells of ordinary user tables are untouched": every user table keeps its row ids and the values
   of every column that exists before and after.  Old migrations deliberately emit a few SCHEMA
   actions on user tables (ModifyColumn type/formula: m3, m7, m17, m28; AddColumn
   gristHelper_Display: m10; RemoveColumn + RenameTable for old-style summary tables: m7, m31): these
   are allowed (a renamed table is followed; a removed column is only allowed for m7's documented
   clean-up of old-style summary tables), any RECORD action on a user table is a violation — except
   migration17's documented conversion of 'Image' columns ("the only migration that ... modifies user
   data"), which must be exactly val -> [val] if positive int else [].
 * "already-current only rewrites schemaVersion": at v = SCHEMA_VERSION (and for a version from the
   future, which create_migrations documents as "downgrading") the list is the single UpdateRecord.
 * VARIANT START SHAPES.  migrations.py contains steps guarded by "if <column> not in <table>.columns"
   / "if <table> not in all_tables" / maybe_add_column, because documents of one version number exist
   in more than one shape (migration 38 was shipped in two conflicting versions, which migration 39
   reconciles; migration 1 copes with version-0 test documents that lack tables; migration 7 with
   documents that already have the summarySource columns).  "Any document at any older version" is
   read to include them: a GUARD UNIT = the columns one guarded block adds (they were shipped together,
   so a unit is atomic: memo/label/enabled is one unit) or one guarded table; a variant document at
   version v is the linear-history document with any subset of the units of LATER migrations toggled
   (absent -> added with the col_info of schema.py, as the other branch of history did; present ->
   removed), then populated like every other document.  The units are a fixed table (GUARD_UNITS_FIXED,
   written from the history, independent of the code) united with whatever guards an AST scan of the
   current migrations.py finds.  For these documents the clauses are the same (succeeds; metadata schema
   == schema_create_actions() column by column; data in step with schema; schemaVersion current; user
   tables untouched) plus RE-MIGRATION IS A NO-OP (create_migrations on the result emits the single
   schemaVersion update and applying it changes nothing).  They are judged by the direct oracle (and the
   TableDataSet-vs-model tie of the applied actions); the Lean theorem (i) and its generated per-version
   obligations cover only the linear-history start schemas, NOT the variant ones.  Variant documents
   carry no hostile text, so a failure on one is never a recorded finding (own signature prefix).
Findings are keyed by "migration N raises <Exc>: <table>.<column> = <shape of the text>" (shape_of:
not JSON / deeply nested JSON / JSON list / JSON object / JSON scalar); an exception on a document
without injected text is keyed "...: benign document" and is never a known finding.
"""
import copy
import json
import math
import multiprocessing
import os
import sys
import traceback

LEVEL = "proof"     # strength: PARTIAL -- see ck.explanation / manifest text

# --------------------------------------------------------------------------- tokens / snapshots

def fcanon(x):
  if math.isnan(x):
    return "nan"
  if math.isinf(x):
    return "inf" if x > 0 else "-inf"
  if x == int(x) and abs(x) < 2 ** 62:
    return "%d.0" % int(x)
  return repr(x)


def _nest(ev):
  if isinstance(ev, bool) or ev is None or isinstance(ev, (str, int)):
    return ev
  if isinstance(ev, float):
    return {"__f": fcanon(ev)}
  if isinstance(ev, (list, tuple)):
    return [_nest(x) for x in ev]
  if isinstance(ev, dict):
    return {str(k): _nest(v) for k, v in ev.items()}
  return {"__repr": repr(ev)}


def tok(ev):
  if ev is None or isinstance(ev, bool):
    return ev
  if isinstance(ev, int):
    return "i%d" % ev
  if isinstance(ev, float):
    return "f" + fcanon(ev)
  if isinstance(ev, str):
    return "s" + ev
  return "o" + json.dumps(_nest(ev), sort_keys=True)


MODELLED_KEYS = {"id", "type", "isFormula", "formula", "reverseColId"}


def proj_info(ci):
  out = {"type": ci["type"], "isFormula": bool(ci["isFormula"]), "formula": ci["formula"]}
  if isinstance(ci.get("reverseColId"), str):
    out["reverseColId"] = ci["reverseColId"]
  return out


def snapshot(td):
  """The whole TableDataSet, dict ORDER kept (dicts travel as arrays of pairs)."""
  return {
    "tables": [[t, {"ids": list(d.row_ids),
                    "cols": [[c, [tok(x) for x in vals]] for c, vals in d.columns.items()]}]
               for t, d in td.all_tables.items()],
    "schema": [[t, [[c, proj_info(ci)] for c, ci in cols.items()]] for t, cols in td.get_schema().items()],
  }


def tok_action(a):
  """[name, *fields] with tokenised RAW values (no objtypes encoding: TableDataSet stores what it is
  given); row ids stay raw: int or None."""
  r = [type(a).__name__] + list(a)
  n = r[0]
  if n in ("AddRecord", "UpdateRecord"):
    return [n, r[1], r[2], {k: tok(v) for k, v in r[3].items()}]
  if n in ("BulkAddRecord", "BulkUpdateRecord", "ReplaceTableData"):
    return [n, r[1], list(r[2]), {k: [tok(x) for x in v] for k, v in r[3].items()}]
  if n == "BulkRemoveRecord":
    return [n, r[1], list(r[2])]
  if n == "AddTable":
    return [n, r[1], [dict(c) for c in r[2]]]
  if n in ("AddColumn", "ModifyColumn"):
    return [n, r[1], r[2], dict(r[3])]
  return list(r)


def abstraction_ok(a):
  """The col_info abstraction of the Lean model covers this action."""
  n = type(a).__name__
  if n == "AddColumn":
    return set(a.col_info) <= MODELLED_KEYS and a.col_info.get("id", a.col_id) == a.col_id
  if n == "ModifyColumn":
    return set(a.col_info) <= (MODELLED_KEYS - {"id"})
  if n == "AddTable":
    return all(set(c) <= MODELLED_KEYS for c in a.columns)
  if n == "RenameColumn":
    return False       # would leave a stale 'id' inside the real col_info dict
  return True

# --------------------------------------------------------------------------- text pools

DEEP = "[" * 3000

# (descriptive label, text): wrong-shape / edge JSON and arbitrary text.  Signatures use shape_of(text).
HOSTILE = [
  ("empty text", ""),
  ("text that is not JSON", "hello, world"),
  ("truncated JSON", '{"a": [1, 2'),
  ("non-ASCII text", u"ünï©ødé ✓   \U0001F600"),
  ("text with NUL", "a\x00b"),
  ("JSON list", "[]"),
  ("JSON list", '[1, "2", null]'),
  ("JSON list of lists", "[[1], [2, [3]]]"),
  ("JSON list of objects", '[{"a": 1}]'),
  ("JSON string", '"abc"'),
  ("JSON string of digits", '"12"'),
  ("JSON number", "5"),
  ("JSON number", "0"),
  ("JSON number", "-2.5"),
  ("JSON null", "null"),
  ("JSON bool", "true"),
  ("JSON NaN", "NaN"),
  ("JSON infinity", "1e999"),
  ("JSON huge integer", "1" + "0" * 400),
  ("deeply nested JSON", DEEP),
  ("JSON object", '{"a": {"b": [1, 2, {"c": null}]}, "": 0}'),
  ("JSON Comment array", '["Comment", ["Const", 1], "memo text"]'),
  ("JSON Comment array too short", '["Comment"]'),
  ("JSON Comment array with non-text memo", '["Comment", 1, {"a": [1]}]'),
]
N_BASE = len(HOSTILE)
JSON_COLS = {"widgetOptions", "filterSpec", "filter", "options", "aclFormulaParsed", "content", "layoutSpec",
             "documentSettings", "sortColRefs", "principals", "userAttributes", "actions", "shareOptions",
             "aclFormula", "permissionsText", "condition", "eventTypes"}
_KEYS = ["visibleCol", "filterBar", "timeCreated", "timeUpdated", "resolved", "rulesOptions"]
_VALS = [("a string", '"yesterday"'), ("null", "null"), ("a list", "[1]"), ("an object", '{"x": 1}'),
         ("a number as string", '"1700000000000"'), ("a bool", "true"), ("NaN", "NaN"),
         ("infinity", "1e999"), ("a huge integer", "1" + "0" * 400), ("a float", "1.5e12"),
         ("a number", "1700000000000")]
for _k in _KEYS:
  for (_vl, _vt) in _VALS:
    HOSTILE.append(("JSON object with %s = %s" % (_k, _vl), '{"%s": %s, "other": 1}' % (_k, _vt)))

# Text the code is expected to cope with everywhere: right-shape JSON for the column, or no JSON at all.
BENIGN_ANY = ["", "", "hello", "not { json", u"café ✓", "{}", '{"a": 1}', '{"alignment": "left"}']


def benign_text(rng, table, col, ctx):
  """Plausible content for the Text cell table.col."""
  r = rng.random()
  if col == "widgetOptions":
    opts = ["", '{"widget":"TextBox","alignment":"left"}', '{"visibleCol":"A"}', '{"visibleCol":"Name"}',
            '{"visibleCol":"id"}', '{"visibleCol":""}', '{"rulesOptions":[{"fillColor":"#f00"}],"widget":"TextBox"}',
            "not json"]
    return rng.choice(opts)
  if col == "filterSpec":
    cols = ctx.get("colrefs") or [1]
    return rng.choice(["", "{}", json.dumps({str(rng.choice(cols)): [1, "a", None]}),
                       json.dumps({str(rng.choice(cols)): ["x"], "999": [2]}), "garbage"])
  if col == "filter":
    return rng.choice(["", "", '{"included":["a","b"]}', '{"excluded":[1,2]}', '{"min":1,"max":5}'])
  if col == "options":
    return rng.choice(["", "{}", '{"filterBar":true}', '{"filterBar":false,"verticalGridlines":true}',
                       '{"filterBar":1}', '{"customView":"{}"}', "nope"])
  if col == "aclFormulaParsed":
    return rng.choice(["", '["Comment", ["Const", true], "owners only"]', '["Const", true]',
                       '["Comment", ["Name", "x"], ""]', '["Eq", ["Attr", ["Name", "user"], "Access"], ["Const", "owners"]]',
                       "broken ["])
  if col == "content":
    t = rng.randint(1, 2 * 10 ** 12)
    return rng.choice([
      "", "plain text", "{}",
      json.dumps({"text": "hi", "userName": "Ann", "timeCreated": t, "timeUpdated": t + 5000, "resolved": rng.random() < 0.5}),
      json.dumps({"text": u"✓", "timeCreated": t}),
      json.dumps({"text": "no times"}),
      json.dumps({"timeCreated": t * 1.0, "timeUpdated": None, "resolved": 0}),
      json.dumps({"resolved": True, "mentions": [1, 2]}),
    ])
  if col in ("layoutSpec", "documentSettings", "shareOptions", "userAttributes", "actions"):
    return rng.choice(["", "{}", '{"locale":"en-US"}', '[{"id":1,"url":"x"}]', '{"children":[{"leaf":1}]}', "x"])
  if col == "sortColRefs":
    return rng.choice(["", "[]", "[1,-2]", "[3]"])
  if col == "principals":
    return rng.choice(["", "[1]", "[1,2]"])
  if col == "formula":
    return rng.choice(["", "", "$A + 1", "len($group)", "rec.B * 2", "# just a comment"])
  if col == "timezone":
    return rng.choice(["", "UTC", "America/New_York"])
  if r < 0.7:
    return rng.choice(["", "x", "Name %d" % rng.randint(0, 99), u"été", "a b c"])
  return rng.choice(BENIGN_ANY)

# --------------------------------------------------------------------------- document generator

def _mods():
  from gx import translate_migrations as translate
  return translate._mig_modules()


# --------------------------------------------------------------------------- variant start shapes

# [migration N that holds the guard, "cols" | "table", table, columns of the unit | None].  Written from the
# history of migrations.py (independent of the code under test):
#   m1  "extra-lax": version-0 (test) documents without _grist_Attachments / _grist_TabItems / schemaVersion;
#   m7  maybe_add_column: documents that already have summarySourceTable / summarySourceCol;
#   m38/m39: one shipped migration 38 added _grist_Triggers.memo/label/enabled, the other
#            _grist_Views_section.description; migration 39 adds whichever is missing.
GUARD_UNITS_FIXED = [
  [1, "table", "_grist_Attachments", None],
  [1, "table", "_grist_TabItems", None],
  [1, "cols", "_grist_DocInfo", ["schemaVersion"]],
  [7, "cols", "_grist_Tables", ["summarySourceTable"]],
  [7, "cols", "_grist_Tables_column", ["summarySourceCol"]],
  [39, "cols", "_grist_Triggers", ["memo", "label", "enabled"]],
  [39, "cols", "_grist_Views_section", ["description"]],
]


def _unit_key(u):
  return (u[0], u[1], u[2], tuple(sorted(u[3] or ())))


def _const_str(node):
  import ast
  if isinstance(node, ast.Constant) and isinstance(node.value, str):
    return node.value
  return None


def _guard_of(test):
  """('table', col) for `'col' not in <x>.all_tables['table'].columns`, ('table', None) for
  `'table' not in <x>.all_tables`, else None."""
  import ast
  if not (isinstance(test, ast.Compare) and len(test.ops) == 1 and isinstance(test.ops[0], ast.NotIn)):
    return None
  left = _const_str(test.left)
  c = test.comparators[0]
  if left is None or not isinstance(c, ast.Attribute):
    return None
  if c.attr == "all_tables":
    return (left, None)
  if c.attr == "columns" and isinstance(c.value, ast.Subscript):
    sub = c.value
    sl = sub.slice
    if hasattr(ast, "Index") and isinstance(sl, getattr(ast, "Index")):     # python < 3.9
      sl = sl.value
    t = _const_str(sl)
    if t is not None and isinstance(sub.value, ast.Attribute) and sub.value.attr == "all_tables":
      return (t, left)
  return None


def _added_in(stmts):
  """(table, column) of the add_column(...) calls in the statements, NOT descending into nested `if`s
  (a nested guard is its own unit)."""
  import ast
  out = []
  stack = list(stmts)
  while stack:
    node = stack.pop(0)
    if isinstance(node, ast.If):
      continue
    if isinstance(node, ast.Call) and getattr(node.func, "id", getattr(node.func, "attr", None)) == "add_column" \
       and len(node.args) >= 2:
      t, c = _const_str(node.args[0]), _const_str(node.args[1])
      if t is not None and c is not None:
        out.append((t, c))
    stack[0:0] = list(ast.iter_child_nodes(node))
  return out


def discover_guards():
  """Guard units found by an AST scan of the CURRENT migrations.py (so that a guard added later is
  exercised without editing this file).  None if the scan fails (the fixed table still applies)."""
  import ast
  try:
    migrations = _mods()[2]
    path = migrations.__file__
    if path.endswith(".pyc"):
      path = path[:-1]
    with open(path) as f:
      tree = ast.parse(f.read())
    out = []
    for fn in tree.body:
      if not (isinstance(fn, ast.FunctionDef) and fn.name.startswith("migration") and fn.name[9:].isdigit()):
        continue
      n = int(fn.name[9:])
      for node in ast.walk(fn):
        if isinstance(node, ast.If):
          g = _guard_of(node.test)
          if g is None:
            continue
          if g[1] is None:
            out.append([n, "table", g[0], None])
          else:
            cols = [g[1]] + [c for (t, c) in _added_in(node.body) if t == g[0] and c != g[1]]
            out.append([n, "cols", g[0], list(dict.fromkeys(cols))])
        elif isinstance(node, ast.Call) and getattr(node.func, "id", None) == "maybe_add_column" and len(node.args) >= 3:
          t, c = _const_str(node.args[1]), _const_str(node.args[2])
          if t is not None and c is not None:
            out.append([n, "cols", t, [c]])
    return out
  except Exception:      # noqa: BLE001 -- the scan is a convenience, never a verdict
    return None


def guard_units():
  """(units, number found only by the scan, scan_ok)."""
  units = [list(u) for u in GUARD_UNITS_FIXED]
  seen = {_unit_key(u) for u in units}
  found = discover_guards()
  extra = 0
  for u in found or []:
    # a scanned unit that shares a column/table with a fixed unit is the same guard seen differently
    # (e.g. after an edit of the guarded block): the fixed unit stays authoritative
    if _unit_key(u) in seen:
      continue
    if any(f[0] == u[0] and f[2] == u[2] and (f[1] == "table" or u[1] == "table" or set(f[3]) & set(u[3]))
           for f in GUARD_UNITS_FIXED):
      continue
    seen.add(_unit_key(u))
    units.append(u)
    extra += 1
  return units, extra, found is not None


def unit_label(u):
  return u[2] if u[1] == "table" else "%s.%s" % (u[2], "/".join(u[3]))


def apply_variant(td, variant, actions, schema):
  """Toggle each unit on the (still empty) version-v document.  A guarded table that is present is
  removed; a guarded column group that is wholly present is removed, wholly absent is added with the
  col_info schema.py declares (what the other branch of history added).  Anything else (table missing,
  group half present, column unknown to schema.py) is left alone.  Returns the labels really applied."""
  applied = []
  if not variant:
    return applied
  cur = {a.table_id: {c['id']: c for c in a.columns} for a in schema.schema_create_actions()}
  for u in variant:
    kind, t, cols = u[1], u[2], u[3]
    if t not in td.all_tables:
      continue
    if kind == "table":
      td.apply_doc_action(actions.RemoveTable(t))
      applied.append("-" + t)
      continue
    have = [c in td.all_tables[t].columns for c in cols]
    if all(have):
      for c in cols:
        td.apply_doc_action(actions.RemoveColumn(t, c))
      applied.append("-" + unit_label(u))
    elif not any(have) and all(c in cur.get(t, {}) for c in cols):
      for c in cols:
        td.apply_doc_action(actions.AddColumn(t, c, dict(cur[t][c])))
      applied.append("+" + unit_label(u))
  return applied


class DocGen(object):
  """A version-v document with plausible metadata and user data."""

  def __init__(self, rng, v, flavour=None, variant=None):
    from gx import translate_migrations as translate
    self.rng = rng
    self.v = v
    self.actions, self.schema, self.migrations, self.tds, _ = _mods()
    self.td = translate.mig_doc_at(v)
    # variant start shape: toggled BEFORE the document is populated, so the extra columns get typed values
    self.variant_applied = apply_variant(self.td, variant or [], self.actions, self.schema)
    self.flav = flavour or {}
    self.ctx = {}
    self.user = []        # list of dict(tableId, ref, cols=[dict(colId,type,isFormula,formula,ref,...)], rows)
    self.build()

  # ---- helpers
  def has(self, t, c=None):
    if t not in self.td.all_tables:
      return False
    return c is None or c in self.td.all_tables[t].columns

  def nrows(self, t):
    return len(self.td.all_tables[t].row_ids) if t in self.td.all_tables else 0

  def coltype(self, t, c):
    return self.td.get_schema()[t][c]["type"]

  def typed(self, t, c, n_of):
    """A value of the declared type of t.c; `n_of(table)` = number of records the table will have."""
    rng = self.rng
    ty = self.coltype(t, c)
    base = ty.split(":", 1)[0]
    if base == "Text":
      return benign_text(rng, t, c, self.ctx)
    if base == "Int":
      return rng.choice([0, 0, 1, 2, 7, 100, -1, 2 ** 40])
    if base == "Bool":
      return rng.random() < 0.5
    if base == "Ref":
      n = n_of(ty.split(":", 1)[1])
      return rng.randint(1, n) if n and rng.random() < 0.6 else 0
    if base in ("RefList",):
      n = n_of(ty.split(":", 1)[1])
      if not n or rng.random() < 0.6:
        return None
      return json.dumps(sorted(rng.sample(range(1, n + 1), rng.randint(1, min(3, n)))), separators=(",", ":"))
    if base == "ChoiceList":
      return rng.choice([None, '["add"]', '["add","update"]'])
    if base in ("Numeric", "PositionNumber", "ManualSortPos"):
      return rng.choice([1.0, 2.0, 3.5, float(rng.randint(1, 50))])
    if base in ("DateTime", "Date"):
      return rng.choice([None, 0.0, 1.7e9, float(rng.randint(10 ** 9, 2 * 10 ** 9))])
    return rng.choice([None, 1, "x", 2.5])

  def add_records(self, t, n, overrides=None, n_of=None):
    """Append n records to metadata table t: overrides[col] = list of n values, the rest typed."""
    if not self.has(t) or n <= 0:
      return []
    overrides = overrides or {}
    start = max([r for r in self.td.all_tables[t].row_ids if isinstance(r, int)] or [0]) + 1
    ids = list(range(start, start + n))
    n_of = n_of or (lambda tab: self.planned.get(tab, self.nrows(tab)))
    cols = {}
    for c in self.td.all_tables[t].columns:
      if c in overrides:
        cols[c] = list(overrides[c])
      else:
        cols[c] = [self.typed(t, c, n_of) for _ in range(n)]
    self.td.apply_doc_action(self.actions.BulkAddRecord(t, ids, cols))
    return ids

  # ---- user tables
  def plan_user_tables(self):
    rng, v, f = self.rng, self.v, self.flav
    T = []
    cols1 = [("manualSort", "ManualSortPos", False, ""), ("A", "Text", False, ""), ("B", "Int", False, ""),
             ("C", "Numeric", False, ""), ("D", "Bool", False, ""), ("E", "Any", True, "$B * 2"),
             ("Att", "Attachments", False, "")]
    if f.get("derived") and v < 3:
      cols1.append(("Drv", "Derived", True, "People.lookupOrAddDerived($A, $B)"))
    if f.get("image") and v < 17:
      cols1.append(("Pic", "Image", False, ""))
      cols1.append(("PicF", "Image", True, "$Pic"))
    T.append({"tableId": "Table1", "cols": cols1})
    cols2 = [("manualSort", "ManualSortPos", False, ""), ("Name", "Text", False, ""),
             ("Boss", "Ref:People", False, ""), ("Tab", "Ref:Table1", False, ""),
             ("Nope", "Ref:Missing", False, ""), ("Many", "RefList:Table1", False, "")]
    T.append({"tableId": "People", "cols": cols2})
    if rng.random() < 0.5:
      T.append({"tableId": "T3", "cols": [("manualSort", "ManualSortPos", False, ""), ("x", "Any", False, "")]})
    if f.get("summary") and v >= 7:
      name = "GristSummary_6_Table1" if (v < 31 and rng.random() < 0.7) else "Table1_summary_A"
      T.append({"tableId": name, "summary_of": "Table1", "cols": [
        ("A", "Text", False, ""), ("group", "RefList:Table1", True, "table.getSummarySourceGroup(rec)"),
        ("count", "Int", True, "len($group)")], "groupby": ["A"]})
      T[0]["cols"].append(("Cnt", "Any", True, "%s.lookupOne(A=$A).count + GristSummary_6_Table1x" % name))
    if f.get("old_summary") and v < 7:
      # old-style summary table of Table1 grouped by A: the name carries A's column ref (patched below)
      T.append({"tableId": "Summary_Table1_@A", "old_summary_of": "Table1", "cols": [
        ("manualSort", "ManualSortPos", False, ""), ("A", "Text", False, ""),
        ("group", "Any", True, "Table1.lookupRecords(Summary_Table1_@A=$id)"),
        ("count", "Int", True, "len($group)")]})
      T[0]["cols"].append(("Summary_Table1_@A", "Ref:Summary_Table1_@A", True,
                           "Summary_Table1_@A.lookupOrAddDerived($A)"))
    return T

  def user_value(self, ty, n):
    rng = self.rng
    base = ty.split(":", 1)[0]
    if base == "Text":
      return rng.choice(["", "a", "b", u"ü", '{"timeCreated": "x"}'])
    if base == "Int":
      return rng.randint(-5, 50)
    if base == "Numeric":
      return rng.choice([0.0, 1.5, float(rng.randint(0, 9))])
    if base in ("ManualSortPos", "PositionNumber"):
      return float(rng.randint(1, 100))
    if base == "Bool":
      return rng.random() < 0.5
    if base == "Ref":
      return rng.randint(0, n)
    if base == "RefList":
      return rng.choice([None, ["L", 1], ["L", 1, 2]])
    if base == "Attachments":
      return rng.choice([None, ["L", 1], ["L", 2, 3]])
    if base == "Image":
      return rng.choice([0, 1, 7, -3, None, "x", True, 2.0])
    return rng.choice([None, 1, "x", 2.5, ["L", 1]])

  def build(self):
    rng, v, td, A = self.rng, self.v, self.td, self.actions
    tables = self.plan_user_tables()
    # ids
    for i, t in enumerate(tables):
      t["ref"] = i + 1
    cref = 0
    for t in tables:
      t["colrefs"] = {}
      for c in t["cols"]:
        cref += 1
        t["colrefs"][c[0]] = cref
    # patch old-style summary names (they embed the source column ref)
    aref = tables[0]["colrefs"].get("A")
    def patch(s):
      return s.replace("@A", str(aref))
    for t in tables:
      t["tableId"] = patch(t["tableId"])
      t["cols"] = [(patch(c[0]), patch(c[1]), c[2], patch(c[3])) for c in t["cols"]]
      t["colrefs"] = {patch(k): r for k, r in t["colrefs"].items()}
    byname = {t["tableId"]: t for t in tables}
    n_tables = len(tables)
    n_cols = cref
    self.ctx["colrefs"] = list(range(1, n_cols + 1))
    n_views = n_tables + rng.randint(0, 2)
    n_sections = n_views + rng.randint(0, 3)
    self.planned = {"_grist_Tables": n_tables, "_grist_Tables_column": n_cols, "_grist_Views": n_views,
                    "_grist_Views_section": n_sections}
    # user tables: schema + data
    for t in tables:
      td.apply_doc_action(A.AddTable(t["tableId"], [
        {"id": c[0], "type": c[1], "isFormula": c[2], "formula": c[3]} for c in t["cols"]]))
      n = rng.randint(0, 4)
      ids = list(range(1, n + 1))
      if n and rng.random() < 0.3:
        ids = sorted(rng.sample(range(1, 20), n))
      t["rows"] = ids
      td.apply_doc_action(A.BulkAddRecord(t["tableId"], ids, {
        c[0]: [self.user_value(c[1], n) for _ in ids] for c in t["cols"]}))
    # _grist_Tables
    ov = {"tableId": [t["tableId"] for t in tables]}
    if self.has("_grist_Tables", "primaryViewId"):
      ov["primaryViewId"] = [(i + 1 if rng.random() < 0.8 else 0) for i in range(n_tables)]
    if self.has("_grist_Tables", "summarySourceTable"):
      ov["summarySourceTable"] = [byname[t["summary_of"]]["ref"] if t.get("summary_of") else 0 for t in tables]
    if self.has("_grist_Tables", "rawViewSectionRef"):
      ov["rawViewSectionRef"] = [(rng.randint(1, n_sections) if rng.random() < 0.7 else 0) for _ in tables]
    self.add_records("_grist_Tables", n_tables, ov)
    # _grist_Tables_column
    recs = []
    for t in tables:
      for pos, c in enumerate(t["cols"]):
        recs.append((t, pos, c))
    ov = {
      "parentId": [t["ref"] for t, _, _ in recs],
      "parentPos": [float(pos + 1) for _, pos, _ in recs],
      "colId": [c[0] for _, _, c in recs],
      "type": [c[1] for _, _, c in recs],
      "isFormula": [c[2] for _, _, c in recs],
      "formula": [c[3] for _, _, c in recs],
      "label": [c[0] for _, _, c in recs],
    }
    if self.has("_grist_Tables_column", "summarySourceCol"):
      ov["summarySourceCol"] = [
        (byname[t["summary_of"]]["colrefs"][c[0]] if t.get("summary_of") and c[0] in t.get("groupby", ()) else 0)
        for t, _, c in recs]
    if self.has("_grist_Tables_column", "displayCol"):
      ov["displayCol"] = [(rng.randint(1, n_cols) if rng.random() < 0.3 else 0) for _ in recs]
    if self.has("_grist_Tables_column", "reverseCol"):
      ov["reverseCol"] = [0 for _ in recs]
    self.add_records("_grist_Tables_column", n_cols, ov)
    # views, sections, fields
    self.add_records("_grist_Views", n_views, {
      "name": [(tables[i]["tableId"] if i < n_tables else "View %d" % i) for i in range(n_views)]})
    ov = {"tableRef": [rng.randint(1, n_tables) for _ in range(n_sections)],
          "parentId": [(i + 1 if i < n_views else rng.randint(0, n_views)) for i in range(n_sections)],
          "parentKey": [rng.choice(["record", "record", "detail", "chart", "single"]) for _ in range(n_sections)]}
    if self.has("_grist_Views_section", "linkSrcSectionRef"):
      ov["linkSrcSectionRef"] = [rng.choice([0, 0, rng.randint(1, n_sections)]) for _ in range(n_sections)]
    sec_ids = self.add_records("_grist_Views_section", n_sections, ov)
    n_fields = rng.randint(0, 3 * n_sections)
    self.planned["_grist_Views_section_field"] = n_fields
    if n_fields:
      self.add_records("_grist_Views_section_field", n_fields, {
        "parentId": [rng.randint(1, n_sections) for _ in range(n_fields)],
        "parentPos": [float(i + 1) for i in range(n_fields)],
        "colRef": [rng.randint(1, n_cols) for _ in range(n_fields)]})
    # everything else: generic typed records
    done = {"_grist_Tables", "_grist_Tables_column", "_grist_Views", "_grist_Views_section",
            "_grist_Views_section_field", "_grist_DocInfo"}
    others = [t for t in td.all_tables if t.startswith("_grist_") and t not in done]
    for t in others:
      self.planned[t] = self.nrows(t) + rng.choice([0, 1, 2, 3])
    for t in others:
      n = self.planned[t] - self.nrows(t)
      ov = {}
      if t == "_grist_ACLResources":
        ov = {"tableId": [rng.choice(["", "*", tables[0]["tableId"], tables[-1]["tableId"]]) for _ in range(n)],
              "colIds": [rng.choice(["", "*", "A", "A,B"]) for _ in range(n)]}
      if t == "_grist_Cells":
        ov = {"tableRef": [rng.randint(1, n_tables) for _ in range(n)],
              "colRef": [rng.randint(1, n_cols) for _ in range(n)]}
      if t == "_grist_Triggers":
        ov = {"tableRef": [rng.randint(1, n_tables) for _ in range(n)]}
      ov = {k: x for k, x in ov.items() if self.has(t, k)}
      self.add_records(t, n, ov)
    # _grist_DocInfo row 1: typed values for the free Text columns
    di = td.all_tables["_grist_DocInfo"]
    upd = {}
    for c in di.columns:
      if c != "schemaVersion" and self.coltype("_grist_DocInfo", c) == "Text" and rng.random() < 0.5:
        upd[c] = benign_text(rng, "_grist_DocInfo", c, self.ctx)
    if upd:
      td.apply_doc_action(A.UpdateRecord("_grist_DocInfo", 1, upd))
    self.user = tables

  def text_cells(self):
    """(table, column) of every free-text metadata column of this version."""
    structural = {("_grist_Tables", "tableId"), ("_grist_Tables_column", "colId"),
                  ("_grist_Tables_column", "type"), ("_grist_ACLResources", "tableId")}
    out = []
    for t, cols in self.td.get_schema().items():
      if not t.startswith("_grist_"):
        continue
      for c, ci in cols.items():
        if ci["type"] == "Text" and (t, c) not in structural and self.nrows(t):
          out.append((t, c))
    return out

# --------------------------------------------------------------------------- running one case

def where_raised(exc):
  """('migration', N) / ('create_migrations', None) / ('apply', None) from the traceback."""
  tb = exc.__traceback__
  found = None
  while tb is not None:
    co = tb.tb_frame.f_code
    if os.path.basename(co.co_filename) == "migrations.py":
      if co.co_name.startswith("migration") and co.co_name[9:].isdigit():
        found = int(co.co_name[9:])
      elif found is None and co.co_name == "create_migrations":
        found = "setup"
    tb = tb.tb_next
  return found


def classify(a):
  from gx import translate_migrations as translate
  ts = translate.mig_targets(a)
  sch = translate.mig_is_schema_action(a)
  if all(translate.mig_is_meta(t) for t in ts):
    return "meta-schema" if sch else "meta-record"
  if not any(translate.mig_is_meta(t) for t in ts):
    return "user-schema" if sch else "user-record"
  return "mixed"


def image_conv(val):
  return [val] if isinstance(val, int) and val > 0 else []


def schema_diff_lines(got, cur):
  """The property's schema clause column by column: every table and column of schema.py present with
  the declared col_info, nothing else present."""
  lines = []
  for t in sorted(set(got) | set(cur)):
    if t not in got:
      lines.append("table %s missing" % t)
    elif t not in cur:
      lines.append("unexpected table %s" % t)
    else:
      for c in sorted(set(got[t]) | set(cur[t])):
        if c not in got[t]:
          lines.append("column %s.%s missing" % (t, c))
        elif c not in cur[t]:
          lines.append("unexpected column %s.%s" % (t, c))
        elif got[t][c] != cur[t][c]:
          lines.append("column %s.%s is %r, schema.py says %r" % (t, c, got[t][c], cur[t][c]))
  return lines


def check_case(td, v, user, expect_schema_acts, want_tie=True, variant=None):
  """Run the real create_migrations + TableDataSet on the document `td` (version v).
  `variant` = None, or the list of toggles that made this a variant start shape: then every violation
  signature carries the prefix "variant start shape [...]: " and re-migration is checked too.
  Returns dict(finding=(signature-less tuple)|None, problems=[(kind, signature, detail)], tie=payload|None,
  counters=[...])."""
  actions, schema, migrations, tds, _ = _mods()
  out = {"raised": None, "problems": [], "tie": None, "counters": [], "acts": None}
  pre = ("variant start shape [%s]: " % ", ".join(variant)) if variant else ""
  before = snapshot(td)
  user_before = {t["tableId"]: copy.deepcopy((td.all_tables[t["tableId"]].row_ids,
                                               dict(td.all_tables[t["tableId"]].columns))) for t in user}
  user_types = {t["tableId"]: {c[0]: (c[1], c[2]) for c in t["cols"]} for t in user}
  # migration7's documented clean-up: the lookupOrAddDerived helper column of the source table (named
  # after the old-style summary table) and the non-formula non-group-by columns of that summary table
  m7_removable = set()
  for t in user:
    if t.get("old_summary_of"):
      m7_removable.add((t["old_summary_of"], t["tableId"]))
      for c in t["cols"]:
        if not c[2] and c[0] != "A":
          m7_removable.add((t["tableId"], c[0]))
  try:
    acts = migrations.create_migrations(td.all_tables)
  except Exception as e:     # noqa: BLE001 -- any exception is the observation
    out["raised"] = (where_raised(e), type(e).__name__, (str(e).splitlines() or [""])[0][:160])
    return out
  out["acts"] = [tok_action(a) for a in acts]
  if snapshot(td) != before:
    out["problems"].append(("violation", pre + "create_migrations modified the document it was given", ""))
    return out
  try:
    td.apply_doc_actions(acts)
  except Exception as e:     # noqa: BLE001
    out["raised"] = ("apply", type(e).__name__, (str(e).splitlines() or [""])[0][:160])
    return out
  after = snapshot(td)
  P = out["problems"]
  V = schema.SCHEMA_VERSION
  # --- property clauses on the real result
  cur = {a.table_id: {c['id']: c for c in a.columns} for a in schema.schema_create_actions()}
  got = {t: cols for t, cols in td.get_schema().items() if t.startswith("_grist_")}
  if got != cur:
    diff = []
    for t in sorted(set(got) | set(cur)):
      if got.get(t) != cur.get(t):
        g, c = got.get(t) or {}, cur.get(t) or {}
        diff.append((t, sorted(k for k in set(g) | set(c) if g.get(k) != c.get(k))))
    P.append(("violation", pre + "migrated metadata schema differs from schema_create_actions()",
              (repr(diff) + " :: " + "; ".join(schema_diff_lines(got, cur)))[:400]))
  for t, cols in got.items():
    d = td.all_tables[t]
    if list(d.columns) != list(cols) or any(len(x) != len(d.row_ids) for x in d.columns.values()):
      P.append(("violation", pre + "metadata table data out of step with its schema after migration", t))
  di = td.all_tables["_grist_DocInfo"]
  if di.columns.get("schemaVersion") != [V] * len(di.row_ids) or di.row_ids != [1]:
    P.append(("violation", pre + "schemaVersion is not current after migration", repr(di.columns.get("schemaVersion"))))
  # user tables
  classes = [classify(a) for a in acts]
  renames = {}
  removed = {}
  for a, cl in zip(acts, classes):
    n = type(a).__name__
    if cl == "mixed":
      P.append(("violation", pre + "migration action mixes a metadata and a user table", repr(tok_action(a))[:200]))
    if cl == "user-record":
      ok = (n == "BulkUpdateRecord" and v < 17 and len(a.columns) == 1 and
            user_types.get(_orig(renames, a.table_id), {}).get(list(a.columns)[0], ("", True)) == ("Image", False))
      if not ok:
        P.append(("violation", pre + "migration emits a record action on a user table", repr(tok_action(a))[:200]))
    if cl == "user-schema":
      if n == "RenameTable":
        renames[a.new_table_id] = _orig(renames, a.old_table_id)
      elif n == "RemoveColumn":
        removed.setdefault(_orig(renames, a.table_id), set()).add(a.col_id)
      elif n not in ("ModifyColumn", "AddColumn"):
        P.append(("violation", pre + "unexpected schema action on a user table", repr(tok_action(a))[:200]))
  now_name = {orig: new for new, orig in renames.items()}
  for tname, (rows0, cols0) in user_before.items():
    cur_name = now_name.get(tname, tname)
    if cur_name not in td.all_tables:
      P.append(("violation", pre + "user table missing after migration", tname))
      continue
    d = td.all_tables[cur_name]
    if d.row_ids != rows0:
      P.append(("violation", pre + "user table row ids changed by migration", tname))
    for c, vals0 in cols0.items():
      if c not in d.columns:
        if not (v < 7 and c in removed.get(tname, ()) and (tname, c) in m7_removable):
          P.append(("violation", pre + "user table column removed by migration", "%s.%s" % (tname, c)))
        continue
      exp = vals0
      if v < 17 and user_types[tname].get(c) == ("Image", False):
        exp = [image_conv(x) for x in vals0]
        out["counters"].append("image_conversion_checked")
      if [tok(x) for x in d.columns[c]] != [tok(x) for x in exp]:
        P.append(("violation", pre + "user table cells changed by migration", "%s.%s" % (tname, c)))
  # already current (or from the future): only the version update
  if v >= V:
    exp = [["UpdateRecord", "_grist_DocInfo", 1, {"schemaVersion": tok(V)}]]
    if out["acts"] != exp:
      P.append(("violation", pre + "already-current document gets more than the schemaVersion update", repr(out["acts"])[:300]))
    chg = _diff_snap(before, after)
    if any(x != ("_grist_DocInfo", "schemaVersion") for x in chg):
      P.append(("violation", pre + "already-current document changed outside schemaVersion", repr(chg)[:200]))
  # --- variant start shapes: re-migrating the result is a no-op (single schemaVersion update, nothing changes)
  if variant:
    single = [["UpdateRecord", "_grist_DocInfo", 1, {"schemaVersion": tok(V)}]]
    try:
      acts2 = migrations.create_migrations(td.all_tables)
      toks2 = [tok_action(a) for a in acts2]
      td.apply_doc_actions(acts2)
    except Exception as e:     # noqa: BLE001
      P.append(("violation", pre + "re-migrating the migrated document raises %s" % type(e).__name__,
                (str(e).splitlines() or [""])[0][:160]))
    else:
      if toks2 != single:
        P.append(("violation", pre + "re-migrating the migrated document emits more than the schemaVersion update",
                  repr(toks2)[:300]))
      if snapshot(td) != after:
        P.append(("violation", pre + "re-migrating the migrated document changes it", repr(_diff_snap(after, snapshot(td)))[:200]))
      out["counters"].append("variant_remigration_checked")
  # --- ties with the generated data / theorem hypotheses
  if expect_schema_acts is not None:
    mine = [tok_action(a) for a, cl in zip(acts, classes) if cl == "meta-schema"]
    if mine != expect_schema_acts:
      P.append(("broken", "data independence: metadata schema actions differ from those of the empty document",
                "version %d: %d vs %d actions" % (v, len(mine), len(expect_schema_acts))))
  for a in acts:
    if not abstraction_ok(a):
      P.append(("broken", "abstraction: col_info outside the modelled keys / RenameColumn", repr(tok_action(a))[:200]))
  if want_tie:
    out["tie"] = {"before": before, "actions": out["acts"], "after": after, "classes": classes}
  return out


def _orig(renames, t):
  return renames.get(t, t)


def _diff_snap(a, b):
  """(table, column) pairs whose data differ, plus ('<table>', '') for structural differences."""
  out = []
  ta, tb = dict((t, d) for t, d in a["tables"]), dict((t, d) for t, d in b["tables"])
  if [t for t, _ in a["tables"]] != [t for t, _ in b["tables"]] or a["schema"] != b["schema"]:
    out.append(("<structure>", ""))
  for t in ta:
    if t in tb:
      if ta[t]["ids"] != tb[t]["ids"]:
        out.append((t, "<ids>"))
      ca, cb = dict((c, x) for c, x in ta[t]["cols"]), dict((c, x) for c, x in tb[t]["cols"])
      for c in ca:
        if c in cb and ca[c] != cb[c]:
          out.append((t, c))
  return out

# --------------------------------------------------------------------------- case specs (replayable)

def empty_docs_consistent():
  """Every empty version-v document has data columns exactly matching its schema (a TableDataSet that
  loses this cannot hold a document).  Returns None or (version, table)."""
  from gx import translate_migrations as translate
  _, schema, _, _, _ = _mods()
  for v in range(schema.SCHEMA_VERSION + 1):
    td = translate.mig_doc_at(v)
    for t, cols in td.get_schema().items():
      d = td.all_tables.get(t)
      if d is None or list(d.columns) != list(cols) or any(len(x) != len(d.row_ids) for x in d.columns.values()):
        return (v, t)
  return None


def build_case(spec):
  """spec = {"v", "seed", "flavour", "inject": [[table, col, row_index|None, text]], "future": n|None,
  "variant": [guard unit, ...]|None}"""
  import random
  rng = random.Random("c25/%s/%s" % (spec["v"], spec["seed"]))
  g = DocGen(rng, spec["v"], spec.get("flavour") or {}, spec.get("variant"))
  actions = g.actions
  for (t, c, ri, text) in spec.get("inject") or []:
    d = g.td.all_tables.get(t)
    if d is None or c not in d.columns or not d.row_ids:
      continue
    if ri is None:
      d.columns[c][:] = [text] * len(d.row_ids)
    else:
      d.columns[c][ri % len(d.row_ids)] = text
  if spec.get("future"):
    g.td.apply_doc_action(actions.UpdateRecord("_grist_DocInfo", 1, {"schemaVersion": spec["future"]}))
  return g


_EXPECT = {}


def expected_schema_acts():
  """Metadata schema actions for the empty document of each version (what the Lean data holds)."""
  if "acts" not in _EXPECT:
    from gx import translate_migrations as translate
    ex = translate.mig_extract()
    _EXPECT["acts"] = [[tok_action(a) for a in acts] for acts in ex["schema_acts"]]
    _EXPECT["ex"] = ex
  return _EXPECT["acts"]


def run_spec(spec):
  """Worker: build + check one case.  Returns a JSON-able result."""
  try:
    g = build_case(spec)
  except Exception:      # generator bug = infrastructure problem, never a verdict
    return {"spec": spec, "infra": traceback.format_exc()[-1500:]}
  V = g.schema.SCHEMA_VERSION
  exp = expected_schema_acts()
  v = spec["v"]
  # a variant start shape has, by construction, other metadata schema actions than the linear-history
  # document of its version: the generated per-version data does not apply to it (direct oracle only)
  va = g.variant_applied
  res = check_case(g.td, (spec.get("future") or v), g.user,
                   exp[v] if (v <= V and not spec.get("future") and not va) else None,
                   want_tie=spec.get("tie", False), variant=va or None)
  res["spec"] = spec
  res["variant_applied"] = va
  acts = res.pop("acts", None) or []
  res["n_acts"] = len(acts)
  res["n_user_schema_actions"] = sum(
    1 for a in acts if a[0] in ("ModifyColumn", "AddColumn", "RemoveColumn", "RenameTable") and not a[1].startswith("_grist_"))
  res["n_user_tables"] = len(g.user)
  res["n_meta_records"] = sum(len(d.row_ids) for t, d in g.td.all_tables.items() if t.startswith("_grist_"))
  res["flags"] = sorted(k for k, x in (spec.get("flavour") or {}).items() if x)
  return res


def shape_of(text):
  """Coarse class of a text as the migrations see it (what json.loads makes of it)."""
  try:
    x = json.loads(text)
  except RecursionError:
    return "deeply nested JSON"
  except ValueError:
    return "text that is not JSON"
  if isinstance(x, dict):
    return "JSON object"
  if isinstance(x, list):
    return "JSON list"
  return "JSON scalar"


def signature_for(res):
  """Specific signature of an exception: where + class + the injected text class (if one cell/column
  was injected) or 'benign document'."""
  where, cls, msg = res["raised"]
  inj = res["spec"].get("inject") or []
  va = res.get("variant_applied")
  if where == "apply":
    head = "applying the emitted actions raises %s" % cls
  elif where == "setup":
    head = "create_migrations raises %s before the first migration" % cls
  else:
    head = "migration %s raises %s" % (where, cls)
  if len(inj) == 1:
    return "%s: %s.%s = %s" % (head, inj[0][0], inj[0][1], shape_of(inj[0][3]))
  if va and not inj:
    # never a recorded finding: those are keyed on one injected hostile text
    return "variant start shape [%s]: %s: benign document" % (", ".join(va), head)
  if not inj:
    return head + ": benign document"
  return head + ": several hostile cells"

# --------------------------------------------------------------------------- TableDataSet vs model (malformed stream)

def random_tds_case(rng):
  """A small TableDataSet script, mostly valid (a shadow of tables/columns/rows steers the choices),
  with invalid steps mixed in (missing table/row/column, value lists of the wrong length, repeated
  and None row ids, AddColumn/RenameColumn/RenameTable onto an existing name).  All dict keys are
  str; row ids are int or None."""
  tabs = ["T", "U", "_grist_X", "W"]
  colnames = ["a", "b", "c", "d"]
  types = ["Text", "Int", "Numeric", "Bool", "Ref:T", "RefList:T", "Any", "PositionNumber", "Date", "Choice", "Nope"]
  vals = [None, True, False, 0, 1, 7, -2, 1.5, float("inf"), "", "x", "5", ["L", 1], [2]]
  wild = rng.random() < 0.35          # a script that does not care about validity

  def info():
    return {"type": rng.choice(types), "isFormula": rng.random() < 0.2, "formula": rng.choice(["", "$a"])}

  shadow = {}     # table -> {"cols": [..], "rows": [..]}
  script = []
  for t in rng.sample(tabs, rng.randint(1, 3)):
    cs = rng.sample(colnames, rng.randint(0, 3))
    if rng.random() < 0.1 and cs:
      cs.append(cs[0])
    script.append(["AddTable", t, [dict(info(), id=c) for c in cs]])
    shadow[t] = {"cols": list(dict.fromkeys(cs)), "rows": []}

  def pick_table():
    if shadow and not (wild and rng.random() < 0.3) and rng.random() < 0.93:
      return rng.choice(sorted(shadow))
    return rng.choice(tabs)

  def pick_col(t):
    cs = shadow.get(t, {}).get("cols") or []
    if cs and rng.random() < 0.85:
      return rng.choice(cs)
    return rng.choice(colnames)

  for _ in range(rng.randint(2, 12)):
    t = pick_table()
    sh = shadow.get(t)
    k = rng.random()
    n = rng.randint(0, 3)
    if 0.25 <= k < 0.50 or 0.61 <= k < 0.69:
      if not (sh and sh["rows"]) and rng.random() < (0.5 if wild else 0.9):
        k = 0.1                        # nothing to update/remove yet: add records instead
    if 0.82 <= k < 0.94 and not (sh and sh["cols"]) and rng.random() < (0.5 if wild else 0.9):
      k = 0.7                          # no column to rename/modify yet: add one
    def new_rows():
      out = []
      for _ in range(n):
        r = rng.random()
        if r < 0.08:
          out.append(None)
        elif r < 0.2 and sh and sh["rows"]:
          out.append(rng.choice(sh["rows"]))       # a repeated id
        else:
          out.append(rng.randint(1, 12))
      return out
    def old_rows():
      out = []
      for _ in range(n):
        if sh and sh["rows"] and rng.random() < (0.6 if wild else 0.95):
          out.append(rng.choice(sh["rows"]))
        else:
          out.append(rng.choice([None, 99, 1]))
      return out
    def colvals(m0):
      out = {}
      for _ in range(rng.randint(0, 3)):
        c = pick_col(t)
        m = m0 if rng.random() < (0.7 if wild else 0.93) else rng.randint(0, 4)
        out[c] = [rng.choice(vals) for _ in range(m)]
      return out
    if k < 0.25:
      rows = new_rows()
      script.append(["BulkAddRecord", t, rows, colvals(n)])
      if sh: sh["rows"].extend(rows)
    elif k < 0.42:
      script.append(["BulkUpdateRecord", t, old_rows(), colvals(n)])
    elif k < 0.50:
      rows = old_rows()
      script.append(["BulkRemoveRecord", t, rows])
      if sh: sh["rows"] = [r for r in sh["rows"] if r not in rows]
    elif k < 0.56:
      rows = new_rows()
      script.append(["ReplaceTableData", t, rows, colvals(n)])
      if sh: sh["rows"] = list(rows)
    elif k < 0.61:
      r = (new_rows() or [1])[0] if n else 1
      script.append(["AddRecord", t, r, {pick_col(t): rng.choice(vals) for _ in range(2)}])
      if sh: sh["rows"].append(r)
    elif k < 0.66:
      r = (old_rows() or [1])[0] if n else 1
      script.append(["UpdateRecord", t, r, {pick_col(t): rng.choice(vals) for _ in range(2)}])
    elif k < 0.69:
      r = (old_rows() or [1])[0] if n else 1
      script.append(["RemoveRecord", t, r])
      if sh: sh["rows"] = [x for x in sh["rows"] if x != r]
    elif k < 0.77:
      c = rng.choice(colnames)
      script.append(["AddColumn", t, c, info()])
      if sh and c not in sh["cols"]: sh["cols"].append(c)
    elif k < 0.82:
      c = pick_col(t)
      script.append(["RemoveColumn", t, c])
      if sh and c in sh["cols"]: sh["cols"].remove(c)
    elif k < 0.88:
      c, c2 = pick_col(t), rng.choice(colnames)
      script.append(["RenameColumn", t, c, c2])
      if sh and c in sh["cols"]:
        sh["cols"].remove(c)
        if c2 not in sh["cols"]: sh["cols"].append(c2)
    elif k < 0.94:
      p = {}
      if rng.random() < 0.6: p["type"] = rng.choice(types)
      if rng.random() < 0.4: p["formula"] = rng.choice(["", "1"])
      if rng.random() < 0.3: p["isFormula"] = rng.random() < 0.5
      script.append(["ModifyColumn", t, pick_col(t), p])
    elif k < 0.96:
      script.append(["RemoveTable", t])
      shadow.pop(t, None)
    else:
      t2 = rng.choice(tabs)
      script.append(["RenameTable", t, t2])
      if t in shadow:
        shadow[t2] = shadow.pop(t)
  return script


def run_tds_script(script):
  """Real TableDataSet on an action-repr script: (snapshot | None, error (class, index) | None)."""
  actions, schema, migrations, tds, _ = _mods()
  td = tds.TableDataSet()
  for i, r in enumerate(script):
    try:
      td.apply_doc_action(getattr(actions, r[0])(*copy.deepcopy(r[1:])))
    except Exception as e:      # noqa: BLE001
      return None, (type(e).__name__, i)
  return snapshot(td), None


def tok_script(script):
  out = []
  for r in script:
    n = r[0]
    if n in ("AddRecord", "UpdateRecord"):
      out.append([n, r[1], r[2], {k: tok(x) for k, x in r[3].items()}])
    elif n in ("BulkAddRecord", "BulkUpdateRecord", "ReplaceTableData"):
      out.append([n, r[1], r[2], {k: [tok(x) for x in xs] for k, xs in r[3].items()}])
    else:
      out.append(r)
  return out

# --------------------------------------------------------------------------- main

FLAVOURS = [{}, {"summary": True}, {"summary": True, "image": True}, {"derived": True, "old_summary": True},
            {"image": True}, {"derived": True, "image": True, "old_summary": True, "summary": True}]


def make_specs(ck, V):
  rng = ck.rng
  quick = ck.tier == "quick"
  specs = []
  versions = list(range(0, V + 1))
  # (a) benign documents at every version (quick: all versions x 1-2 docs; thorough: x many)
  per_v = 1 if quick else 16
  tie_versions = set(rng.sample(versions, 14)) if quick else set(versions)
  for v in versions:
    for k in range(per_v):
      specs.append({"v": v, "seed": rng.randrange(10 ** 9), "flavour": rng.choice(FLAVOURS),
                    "kind": "benign", "tie": (k == 0 and v in tie_versions) or (not quick and k < 4)})
  if quick:
    for k in range(15):
      specs.append({"v": rng.choice(versions[:-1]), "seed": rng.randrange(10 ** 9), "flavour": rng.choice(FLAVOURS),
                    "kind": "benign", "tie": False})
  # (b) already-current and from-the-future documents
  for k in range(3 if quick else 20):
    specs.append({"v": V, "seed": rng.randrange(10 ** 9), "flavour": rng.choice(FLAVOURS),
                  "kind": "current", "tie": k == 0})
    specs.append({"v": V, "seed": rng.randrange(10 ** 9), "flavour": {}, "future": V + rng.choice([1, 2, 50]),
                  "kind": "future", "tie": False})
  # (c) one hostile text: a whole column (sweep) or a single cell (random)
  sweep_versions = [0, 9, 14, 15, 28, 33, 34, 44] if not quick else rng.sample([0, 9, 14, 15, 28, 33, 34, 44], 3)
  sweep_versions = [min(x, V) for x in sweep_versions]
  sweep = []
  for v in sweep_versions:
    probe = DocGen(__import__("random").Random("probe/%d" % v), v, {})
    cells = probe.text_cells()
    for (t, c) in cells:
      # columns that are meant to hold JSON get every text; the others every base text + a sample of
      # the key/value variants (to them these are all just "a JSON object")
      items = HOSTILE if c in JSON_COLS else HOSTILE[:N_BASE] + rng.sample(HOSTILE[N_BASE:], 8)
      for (label, text) in items:
        sweep.append({"v": v, "seed": rng.randrange(10 ** 9), "flavour": rng.choice(FLAVOURS[:3]),
                      "inject": [[t, c, None, text]], "label": label, "kind": "column", "tie": False})
  if quick:
    sweep = rng.sample(sweep, min(len(sweep), 50))
    # always: the columns some migration parses, at the version just before it, one text per shape
    focus_texts = ["hello", DEEP, "[]", '[1, "2", null]', "5", '"abc"', "null", '{"a": {"b": [1]}, "": 0}',
                   '{"visibleCol": [1]}', '{"timeCreated": "yesterday"}', '{"timeCreated": NaN}',
                   '{"timeUpdated": 1e999}', '["Comment"]']
    for (v, t, c) in [(9, "_grist_Tables_column", "widgetOptions"), (14, "_grist_Views_section", "filterSpec"),
                      (15, "_grist_Tables_column", "widgetOptions"), (15, "_grist_Views_section_field", "widgetOptions"),
                      (28, "_grist_Tables_column", "widgetOptions"), (33, "_grist_Views_section", "options"),
                      (34, "_grist_ACLRules", "aclFormulaParsed"), (44, "_grist_Cells", "content")]:
      if v < V:
        for text in focus_texts:
          sweep.append({"v": v, "seed": rng.randrange(10 ** 9), "flavour": rng.choice(FLAVOURS[:3]),
                        "inject": [[t, c, None, text]], "label": shape_of(text), "kind": "column", "tie": False})
  specs.extend(sweep)
  for k in range(50 if quick else 3000):
    v = rng.choice(versions)
    specs.append({"v": v, "seed": rng.randrange(10 ** 9), "flavour": rng.choice(FLAVOURS),
                  "inject": "random-cell", "kind": "cell", "tie": False})
  # (d) variant start shapes of the guarded migration steps
  units, extra, scan_ok = guard_units()
  ck.count("variant_guard_units", len(units))
  ck.count("variant_guard_units_found_only_by_scan", extra)
  ck.count("variant_guard_scan_ok", 1 if scan_ok else 0)
  specs.extend(make_variant_specs(rng, quick, V, _EXPECT["ex"]["start"], units))
  return specs


def _subsets(items):
  """Every non-empty subset, smallest first."""
  out = []
  for mask in range(1, 2 ** len(items)):
    out.append([x for i, x in enumerate(items) if mask >> i & 1])
  out.sort(key=len)
  return out


def make_variant_specs(rng, quick, V, start, units):
  """Variant start shapes (see the module docstring).  `start[v]` = metadata schema of the linear-history
  version-v document (to know which units can be toggled at v).
   (d1) per migration N with guards, EVERY non-empty subset of its units (at most 15, else sampled), at
        version N-1 (the historically conflicted version itself: fixed witnesses, every run) and at
        one random earlier version (thorough: every earlier version x 2 documents);
   (d2) random subsets of the units of ALL later migrations at random versions (mixes e.g. a v5 document
        that already has summarySourceCol AND the webhook columns)."""
  def usable(u, v):
    return u[0] > v and u[2] in start[v]
  specs = []
  by_n = {}
  for u in units:
    by_n.setdefault(u[0], []).append(u)
  for n in sorted(by_n):
    if n - 1 > V or n < 1:
      continue
    vs_all = [v for v in range(0, min(n, V + 1)) if any(usable(u, v) for u in by_n[n])]
    if not vs_all:
      continue
    last = vs_all[-1]
    if quick:
      vs = [(last, True)] + ([(rng.choice(vs_all[:-1]), False)] if len(vs_all) > 1 else [])
    else:
      vs = [(v, v == last) for v in vs_all for _ in range(2)]
    for (v, witness) in vs:
      here = [u for u in by_n[n] if usable(u, v)]
      subs = _subsets(here) if len(here) <= 4 else [rng.sample(here, rng.randint(1, len(here))) for _ in range(15)]
      for sub in subs:
        specs.append({"v": v, "seed": rng.randrange(10 ** 9), "flavour": rng.choice(FLAVOURS), "variant": sub,
                      "kind": "variant_witness" if witness else "variant", "tie": witness or not quick})
  versions = [v for v in range(0, V) if any(usable(u, v) for u in units)]
  for k in range((10 if quick else 400) if versions else 0):
    v = rng.choice(versions)
    here = [u for u in units if usable(u, v)]
    sub = rng.sample(here, rng.randint(1, len(here)))
    sub.sort(key=lambda u: units.index(u))
    specs.append({"v": v, "seed": rng.randrange(10 ** 9), "flavour": rng.choice(FLAVOURS), "variant": sub,
                  "kind": "variant_mixed", "tie": False})
  return specs


def resolve_random_cell(spec):
  """Pick the injected cell deterministically from the spec's own seed (needs the document)."""
  import random
  if spec.get("inject") != "random-cell":
    return spec
  rng = random.Random("cell/%s/%s" % (spec["v"], spec["seed"]))
  g = build_case(dict(spec, inject=[]))
  cells = g.text_cells()
  spec = dict(spec)
  if not cells:
    spec["inject"] = []
    return spec
  t, c = rng.choice(cells)
  label, text = rng.choice(HOSTILE)
  spec["inject"] = [[t, c, rng.randrange(1000), text]]
  spec["label"] = label
  return spec


def _work(spec):
  spec = resolve_random_cell(spec)
  return run_spec(spec)


def run(ck):
  from gx import translate_migrations as translate
  ck.level = LEVEL
  ck.explanation = ("partial: the schema clauses (every version reaches the current schema, data independence), the frame clauses "
                    "and the already-current clause are proved on the TableDataSet model + generated data; totality of the "
                    "data-dependent migration bodies is searched on random/hostile documents, not proved")
  actions, schema, migrations, tds, _ = _mods()
  V = schema.SCHEMA_VERSION
  ck.rule = ("documents at EVERY version 0..%d (benign: right-shape JSON or non-JSON text in Text cells; plus one hostile "
             "text per document, swept over every free-text metadata column x %d text classes at selected versions and "
             "at random cells); non-trivial = version < current AND >= 10 metadata records AND >= 2 user tables AND the "
             "migration chain ran to the end; distinct by (version, seed, injected cell); PLUS variant start shapes: for "
             "every migration with guarded steps (if-column/table-not-in, maybe_add_column: m1, m7, m39 + whatever an AST "
             "scan of migrations.py finds) every non-empty subset of its guard units toggled at the version just before it "
             "(every run) and at earlier versions, and random mixes across migrations; these also re-migrate the result"
             % (V, len(HOSTILE)))
  ck.assumptions = [
    "version-v documents are schema_version0() + registered migrations 1..v on a real TableDataSet, then populated",
    "typed cells hold values of their declared type in database representation (RefList/ChoiceList = None or JSON text)",
    "metadata is referentially consistent; table/column identifiers and column types are well-formed; everything else Text is free",
    "col_info dicts are abstracted to (type, isFormula, formula, reverseColId): checked on every emitted action",
    "totality of the Python migration bodies is searched, not proved (level partial)",
    "variant start shapes (documents of one version number that already have / still lack the columns or tables of a guarded "
    "migration step, e.g. the two shipped flavours of version 38) are judged by the DIRECT ORACLE ONLY (succeeds, schema == "
    "schema.py column by column, data in step, schemaVersion current, user tables untouched, re-migration is a no-op) plus the "
    "generic TableDataSet-vs-model tie of the applied actions; theorem migrate_schema_reaches_current and its generated "
    "per-version obligations cover only the linear-history start schema of each version, not the variant ones",
    "a guard unit (the columns one guarded block adds, e.g. memo/label/enabled) is atomic: half-present units are not "
    "generated (no shipped version produced them); a toggled-in column gets the col_info schema.py declares",
  ]
  # 1. regenerate the Lean data from the current tree, build, audit
  try:
    ex = translate.mig_extract()
  except Exception as e:     # noqa: BLE001 -- create_migrations raises on an EMPTY document
    where = where_raised(e)
    ck.violation("create_migrations fails on an empty document (%s, %s)" % (where, type(e).__name__),
                 "%s: %s" % (type(e).__name__, e), {"empty_document": True, "where": str(where)})
    ck.obligations.append(("generate:Generated/Migrations.lean", False, str(e)[:300]))
    return
  bad = empty_docs_consistent()
  if bad:
    ck.violation("metadata table data out of step with its schema after migration",
                 "empty version-%d document, table %s" % bad, {"empty_document": True, "where": "consistency"})
    return
  try:
    text = translate.render_migrations(ex)
  except ValueError as e:    # the emitted schema actions left the vocabulary the model abstracts
    ck.broken("abstraction: emitted schema action outside the modelled col_info keys", str(e)[:400],
              {"empty_document": True})
    return
  translate._write_if_changed(os.path.join(translate.GEN_DIR, "Migrations.lean"), text)
  _EXPECT["ex"] = ex
  _EXPECT["acts"] = [[tok_action(a) for a in acts] for acts in ex["schema_acts"]]
  lean_ok = ck.lean(["GristProps.C25"])
  # 2. the generated file says what the real code said (through the compiled driver)
  if os.path.exists(os.path.join(translate.VERIF, "lean", ".lake", "build", "bin", "gristdrv")):
    gen = ck.driver([{"m": "lenient", "op": "generated"}])[0]
    want = {
      "version": V,
      "current": [[t, [[c, proj_info(ci)] for c, ci in cols.items()]] for t, cols in ex["current"].items()],
      "start": [[[t, [[c, proj_info(ci)] for c, ci in cols.items()]] for t, cols in s.items()] for s in ex["start"]],
      "acts": _EXPECT["acts"],
    }
    okgen = (gen.get("version") == want["version"] and gen.get("current") == want["current"]
             and gen.get("start") == want["start"] and _norm_acts(gen.get("acts")) == _norm_acts(want["acts"]))
    ck.obligations.append(("generated data equals the real create_migrations output", bool(okgen), ""))
    cur_acts = [tok_action(a) for a in ex["acts"][V]]
    ck.obligations.append(("emitted list at the current version is the single schemaVersion update",
                           cur_acts == [["UpdateRecord", "_grist_DocInfo", 1, {"schemaVersion": tok(V)}]], repr(cur_acts)[:200]))
  # 3. the cases
  specs = make_specs(ck, V)
  nproc = 1 if ck.tier == "quick" else min(8, os.cpu_count() or 2)
  if nproc > 1:
    with multiprocessing.Pool(nproc) as pool:
      results = pool.map(_work, specs, chunksize=16)
  else:
    results = [_work(s) for s in specs]
  report(ck, results, lean_ok)
  tds_tie(ck)


def _norm_acts(x):
  """Schema actions as canonical JSON text; the redundant col_info['id'] of AddColumn (checked equal
  to col_id by the translator) is not part of the model's ColInfo."""
  def norm(a):
    if a[0] == "AddColumn":
      return [a[0], a[1], a[2], {k: v for k, v in a[3].items() if k != "id"}]
    return a
  return json.dumps([[norm(a) for a in acts] for acts in (x or [])], sort_keys=True)


def report(ck, results, lean_ok=True):
  ties = []
  first_broken = None
  for res in results:
    spec = res["spec"]
    if "infra" in res:
      from gx.common import Infra
      raise Infra("generator failed: " + res["infra"])
    ck.evaluated()
    ck.count("kind_" + spec.get("kind", "?"))
    rp = {"spec": spec}
    if res["raised"]:
      sig = signature_for(res)
      ck.count("raised")
      if res.get("variant_applied"):
        ck.count("variant_documents_raised")
      ck.violation(sig, "%s: %s" % (res["raised"][1], res["raised"][2]), rp)
      continue
    ck.count("completed")
    if spec.get("variant"):
      va = res.get("variant_applied") or []
      if va:
        ck.count("variant_documents_migrated")
        if spec.get("kind") == "variant_witness":
          ck.count("variant_witness:v%d[%s]" % (spec["v"], ", ".join(va)))
        for lab in va:
          ck.count("variant_toggle:" + lab)
        if len(va) < len(spec["variant"]):
          ck.count("variant_partly_applied")
      else:
        ck.count("variant_degenerate_nothing_toggled")
    for c in res["counters"]:
      ck.count(c)
    for fl in res["flags"]:
      ck.count("flavour_" + fl)
    v = spec["v"]
    if not spec.get("future") and res["n_meta_records"] >= 10 and res["n_user_tables"] >= 2:
      if res["n_acts"] > 1:
        ck.nontrivial_case([v, spec["seed"], spec.get("inject")])
        ck.sample({"version": v, "flavour": spec.get("flavour"), "n_actions": res["n_acts"],
                   "n_meta_records": res["n_meta_records"], "inject": spec.get("inject")})
    if res["n_user_schema_actions"]:
      ck.count("user_table_schema_actions", res["n_user_schema_actions"])
    for (kind, sig, detail) in res["problems"]:
      if kind == "violation":
        ck.violation(sig, detail, rp)
      elif first_broken is None:
        first_broken = (sig, detail, rp)
    if res.get("tie"):
      ties.append((spec, res["tie"]))
  # model tie through the driver
  if ties:
    ops = [{"m": "lenient", "op": "run", "doc": t["before"], "actions": t["actions"]} for _, t in ties]
    outs = ck.driver(ops)
    for (spec, t), mo in zip(ties, outs):
      ck.count("model_tie_documents")
      bad = None
      if "error" in mo:
        bad = "model raises %s at action %s, TableDataSet applied all" % (mo.get("error"), mo.get("at"))
      elif mo["doc"] != t["after"]:
        bad = "final documents differ: %r" % (_diff_snap(t["after"], mo["doc"])[:6],)
      elif mo["schemaOnly"] != t["after"]["schema"]:
        bad = "schema-only fold differs from the schema TableDataSet reached"
      elif mo["classes"] != t["classes"]:
        bad = "action classification differs"
      if bad and first_broken is None:
        first_broken = ("correspondence TableDataSet vs Grist.Doc.applyL on migration actions", bad, {"spec": spec})
  if first_broken and not ck.has_impl_violation():
    ck.broken(first_broken[0], first_broken[1], first_broken[2])


def tds_tie(ck):
  """Random TableDataSet scripts (with invalid steps) on the real class and on the model."""
  rng = ck.rng
  n = 400 if ck.tier == "quick" else 12000
  scripts = [random_tds_case(rng) for _ in range(n)]
  ops = [{"m": "lenient", "op": "run", "doc": {"tables": [], "schema": []}, "actions": tok_script(s)} for s in scripts]
  outs = ck.driver(ops)
  mism = None
  for s, mo in zip(scripts, outs):
    snap, err = run_tds_script(s)
    ck.evaluated()
    if err:
      ck.count("tds_script_raises_" + err[0])
      ok = mo.get("error") == err[0] and mo.get("at") == err[1]
    else:
      ck.count("tds_script_ok")
      ok = "error" not in mo and mo["doc"] == snap
    if not ok and mism is None:
      mism = {"script": s, "real": [snap, err], "model": mo}
  if mism:
    ck.broken("correspondence TableDataSet vs Grist.Doc.applyL on random scripts",
              "model and table_data_set.py differ", mism)


def replay(ck, rp):
  from gx import translate_migrations as translate
  ck.level = LEVEL
  r = rp["replay"]
  if r.get("empty_document"):
    try:
      translate.mig_extract()
      bad = empty_docs_consistent()
      if bad:
        print("replay: empty version-%d document: data of %s out of step with its schema" % bad)
        ck.violation("metadata table data out of step with its schema after migration",
                     "empty version-%d document, table %s" % bad, r)
      else:
        print("replay: create_migrations succeeds on every empty document -> property holds")
    except Exception as e:     # noqa: BLE001
      print("replay: create_migrations on an empty document raises %s: %s" % (type(e).__name__, e))
      ck.violation("create_migrations fails on an empty document (%s, %s)" % (where_raised(e), type(e).__name__),
                   str(e), r)
    ck.evaluated(); ck.nontrivial_case("replay")
    return
  if "script" in r:
    snap, err = run_tds_script(r["script"])
    mo = ck.driver([{"m": "lenient", "op": "run", "doc": {"tables": [], "schema": []}, "actions": tok_script(r["script"])}])[0]
    print("replay: TableDataSet -> %r ; model -> %r" % (err or "ok", mo.get("error", "ok")))
    ck.evaluated(); ck.nontrivial_case("replay")
    same = (mo.get("error") == err[0] and mo.get("at") == err[1]) if err else ("error" not in mo and mo["doc"] == snap)
    if not same:
      ck.broken("correspondence TableDataSet vs Grist.Doc.applyL on random scripts", "differ", r)
    return
  spec = dict(r["spec"], tie=True)
  res = _work(spec)
  ck.evaluated(); ck.nontrivial_case("replay")
  if "infra" in res:
    print("replay: generator failed:\n" + res["infra"])
    return
  if res["raised"]:
    print("replay: version %s, inject %r -> %s raised %s: %s" % (
      spec["v"], [x[:3] + [x[3][:60]] for x in res["spec"].get("inject") or []], res["raised"][0], res["raised"][1], res["raised"][2]))
  else:
    print("replay: version %s, %d actions emitted and applied; problems: %r" % (
      spec["v"], res["n_acts"], res["problems"] or "none -> property holds"))
  report(ck, [res])
  try:
    translate.gen_migrations()
    ck.lean(["GristProps.C25"])
  except Exception as e:      # noqa: BLE001
    print("replay: Lean data could not be regenerated: %s" % e)
