# -*- coding: utf-8 -*-
"""
C16  Renames never change formula results.

Interpretation (demanded exactly by the oracles below):
 * "formula programs using the supported reference forms" = the typed grammar FExpr of
   lean/GristModel/FormulaRename.lean: int/str literals, + - * == != < <=, `$col`, `rec.col`,
   reference chains, `T.lookupRecords/lookupOne(k=e, ..., order_by="c"|"-c"|(...))`, attributes of
   lookup results / record sets, `T.all`, `[body for x in <record set>]`, len/sum/max,
   PREVIOUS/NEXT/RANK(rec, group_by=..., order_by=...), IF(c, a, b) - printed with random trivia
   (spaces, redundant parentheses, line breaks and comments inside brackets, trailing comments).
   The generator IS this grammar, so the harness knows the denotation (table, column) of every name.
 * "any requested name, by any of the rename paths" = user actions RenameColumn, RenameTable,
   UpdateRecord/BulkUpdateRecord _grist_Tables_column {colId}, {label} (colId tied to the label),
   UpdateRecord _grist_Tables {tableId}; requested names include ones needing sanitising or
   disambiguation ("a b", "1x", "class", "", existing names, names differing only in case, prefixes /
   extensions of other names, table names used as column names).  The new id is whatever the engine
   picked (read back from the metadata).  A bundle the engine rejects is no rename.
 * (i)  "leaves every formula value unchanged": every cell of every user table after the rename equals
   the cell before, keyed through the rename (renamed column / table looked up under its new id; a
   record value ["R", T, id] of a renamed table carries the new table id).  Error cells must stay the
   same error.
 * (ii) "are rewritten, and only those name tokens change": the new text in _grist_Tables_column.formula
   equals the old text with exactly the ground-truth occurrences of the renamed entity replaced by the
   new id (char-level), and - independently, with Python's tokenize - old and new text have the same
   token kinds/strings except NAME / STRING tokens that contain such an occurrence.
 * (iii) discovery (modelled-not-verified, tied here): gencode.grist_names() on the real generated
   module == the ground-truth occurrence list of every generated formula (occurrences of `id`, which
   cannot be renamed, are not compared).  A difference makes the harness rename exactly that entity
   next, so that it shows up as a violation of (i)/(ii); a difference that no rename turned into a
   violation and that no recorded finding covers is reported as a broken correspondence.
 * A rename bundle the engine REJECTS is no rename; the state its rollback leaves (formula cells were
   seen reset to None) belongs to other properties: the case continues on a document rebuilt from the
   accepted bundles.  Formulas must be valid Grist formulas: `$` directly after a word character
   (`in$x`) and an indented first line followed by less indented lines are not generated.
 * Recorded findings (known_findings.json; each has a fixed witness replayed on the real code every run,
   and a violation is attributed to one only when EVERY wrongly handled occurrence carries that tag):
   comprehension over a RefList column / record-set attribute, table id equal to a `functions` export
   (inference through Ref columns; shadowing / rewriting of the function's calls), loop variable named
   like a table, column renamed to order_by/sort_by, order_by key column rebuilt during the rename.
Theorems: lean/GristProps/C16.lean (rename_preserves_eval, rename_column_value_identical,
   rename_scalar_value_identical, print_rename_eq_patch, rename_text_outside_patches,
   rename_only_denoting_tokens, rename_denoting_tokens, checked_hasTy, eval_type_sound).
Tie (model vs real code, through the compiled driver "formularename"): printed text, occurrence
   list, `_prepare_formula_renames` output on the engine's own occurrence list, `print (rename e)` vs
   the stored new formula, and `eval` vs the engine's cell values before and after the rename.
"""
import collections
import copy
import io
import json
import os
import random
import tokenize

KNOWN_COMPR = ("comprehension over a RefList column or a record-set attribute (not directly "
               "Table.lookupRecords(...)/Table.all): attributes of the loop variable are not rewritten")

# --------------------------------------------------------------------------- FExpr (JSON lists)

def P(s, glue=False):
  return (s, None, glue, None)


def print_ob(t, ob, out, tag):
  q = "'" if ob["sq"] else '"'
  items = ob["items"]

  def item(it):
    out.append(P(q))
    if it[0]:
      out.append(P("-", True))
    out.append((it[1], (t, it[1]), True, tag))
    out.append(P(q, True))
  if ob["tuple"]:
    out.append(P("("))
    for i, it in enumerate(items):
      if i:
        out.append(P(","))
      item(it)
    if len(items) == 1:
      out.append(P(","))
    out.append(P(")"))
  else:
    for i, it in enumerate(items):
      if i:
        out.append(P(","))
      item(it)


def is_end(e):
  return e[0] == "kwEnd" and e[2] is None


def chain_root(e):
  while e[0] == "attr":
    e = e[1]
  if e[0] == "pn":
    return chain_root(e[2])
  return e


def pr(e, out, spans, bound=None, shadow=frozenset(), kwsh=False):
  """Mirror of Grist.FormulaRename.print.  Pieces are (text, denotation|None, glue-to-previous, tag).
  The tag of a name occurrence says through which inference step its table is known:
    plain | via_ref (attribute of a Ref/RefList column value) | indirect_loopvar (reached from a loop
    variable whose iterable is not literally T.lookupRecords(...) / T.all) | shadowed_table (a use of
    table T inside the iterable of a comprehension whose loop variable is also called T, and what hangs
    on it: keywords / order_by of that lookup, attributes of its result, its own loop variable).
  `shadow` = loop-variable names whose iterable is being printed; `kwsh` = inside the keyword list of a
  lookup on a shadowed table."""
  bound = bound or {}
  k = e[0]
  i0 = len(out)
  expr = True
  R = lambda x: pr(x, out, spans, bound, shadow)
  if k == "lit":
    out.append(P(str(e[1])))
  elif k == "str":
    q = "'" if e[2] else '"'
    out.append(P(q + e[1] + q))
  elif k == "binop":
    out.append(P("(")); R(e[2]); out.append(P(e[1])); R(e[3]); out.append(P(")"))
  elif k == "rec":
    out.append(P("rec"))
  elif k == "var":
    out.append(P(e[1]))
  elif k == "dollar":
    out.append(P("$")); out.append((e[2], (e[1], e[2]), True, "plain"))
  elif k == "attr":
    R(e[1]); out.append(P("."))
    root = chain_root(e[1])
    if root[0] == "var" and bound.get(root[1]):
      tag = bound[root[1]]
    elif root[0] in ("lookup", "all") and (root[1] if root[0] == "all" else root[2]) in shadow:
      tag = "shadowed_table"
    elif e[1][0] in ("dollar", "attr"):
      tag = "via_ref"
    else:
      tag = "plain"
    out.append((e[3], (e[2], e[3]), False, tag))
  elif k == "kwEnd":
    expr = False
    if e[2] is not None:
      out.append(P("order_by")); out.append(P("=")); print_ob(e[1], e[2], out, "shadowed_table" if kwsh else "plain")
  elif k == "kw":
    expr = False
    out.append((e[2], (e[1], e[2]), False, "shadowed_table" if kwsh else "plain")); out.append(P("=")); R(e[3])
    if not is_end(e[4]):
      out.append(P(","))
    pr(e[4], out, spans, bound, shadow, kwsh)
  elif k == "lookup":
    sh = e[2] in shadow
    out.append((e[2], (e[2], None), False, "shadowed_table" if sh else "plain")); out.append(P("."))
    out.append(P("lookupOne" if e[1] else "lookupRecords")); out.append(P("("))
    pr(e[3], out, spans, bound, shadow, sh); out.append(P(")"))
  elif k == "all":
    out.append((e[1], (e[1], None), False, "shadowed_table" if e[1] in shadow else "plain"))
    out.append(P(".")); out.append(P("all"))
  elif k == "compr":
    src = e[3]
    direct = src[0] == "all" or (src[0] == "lookup" and not src[1])
    shadow2 = frozenset(shadow | {e[2]})
    sh = direct and (src[1] if src[0] == "all" else src[2]) in shadow2
    b2 = dict(bound)
    b2[e[2]] = "shadowed_table" if sh else (None if direct else "indirect_loopvar")
    out.append(P("[")); pr(e[1], out, spans, b2, shadow); out.append(P("for")); out.append(P(e[2])); out.append(P("in"))
    pr(src, out, spans, bound, shadow2); out.append(P("]"))
  elif k in ("len", "sum", "max"):
    out.append(P(k)); out.append(P("(")); R(e[1]); out.append(P(")"))
  elif k == "pn":
    root = chain_root(e[2])
    tag = bound[root[1]] if root[0] == "var" and bound.get(root[1]) else "plain"
    out.append(P(e[1])); out.append(P("(")); R(e[2]); out.append(P(","))
    if e[4] is not None:
      out.append(P("group_by")); out.append(P("=")); print_ob(e[3], e[4], out, tag); out.append(P(","))
    out.append(P("order_by")); out.append(P("=")); print_ob(e[3], e[5], out, tag); out.append(P(")"))
  elif k == "if":
    out.append(P("IF")); out.append(P("(")); R(e[1]); out.append(P(","))
    R(e[2]); out.append(P(",")); R(e[3]); out.append(P(")"))
  else:
    raise ValueError(k)
  if expr and len(out) > i0:
    spans.append((i0, len(out) - 1))


def pieces_of(e):
  out, spans = [], []
  pr(e, out, spans)
  return out, spans


def render(pieces, triv):
  s = []
  for i, pc in enumerate(pieces):
    s.append(triv[i]); s.append(pc[0])
  s.append(triv[len(pieces)])
  return "".join(s)


def occs_of(pieces, triv):
  """Ground truth: [(pos, table, col|None)] in text order."""
  res, pos = [], 0
  for i, pc in enumerate(pieces):
    pos += len(triv[i])
    if pc[1] is not None:
      res.append((pos, pc[1][0], pc[1][1]))
    pos += len(pc[0])
  return res


def tags_of(pieces, triv):
  """position -> tag of the name occurrence starting there."""
  res, pos = {}, 0
  for i, pc in enumerate(pieces):
    pos += len(triv[i])
    if pc[1] is not None:
      res[pos] = pc[3]
    pos += len(pc[0])
  return res


def ren_tab(ren, t):
  return ren[2] if ren[0] == "tab" and t == ren[1] else t


def ren_col(ren, t, c):
  return ren[3] if ren[0] == "col" and t == ren[1] and c == ren[2] else c


def ren_ob(ren, t, ob):
  if ob is None:
    return None
  return {"items": [[d, ren_col(ren, t, c)] for d, c in ob["items"]], "tuple": ob["tuple"], "sq": ob["sq"]}


def rename(ren, e):
  """Mirror of Grist.FormulaRename.rename (independent implementation; tied through text2)."""
  k = e[0]
  R = lambda x: rename(ren, x)
  if k in ("lit", "str", "rec", "var"):
    return list(e)
  if k == "binop":
    return [k, e[1], R(e[2]), R(e[3])]
  if k == "dollar":
    return [k, ren_tab(ren, e[1]), ren_col(ren, e[1], e[2])]
  if k == "attr":
    return [k, R(e[1]), ren_tab(ren, e[2]), ren_col(ren, e[2], e[3])]
  if k == "kwEnd":
    return [k, ren_tab(ren, e[1]), ren_ob(ren, e[1], e[2])]
  if k == "kw":
    return [k, ren_tab(ren, e[1]), ren_col(ren, e[1], e[2]), R(e[3]), R(e[4])]
  if k == "lookup":
    return [k, e[1], ren_tab(ren, e[2]), R(e[3])]
  if k == "all":
    return [k, ren_tab(ren, e[1])]
  if k == "compr":
    return [k, R(e[1]), e[2], R(e[3])]
  if k in ("len", "sum", "max"):
    return [k, R(e[1])]
  if k == "pn":
    return [k, e[1], R(e[2]), ren_tab(ren, e[3]), ren_ob(ren, e[3], e[4]), ren_ob(ren, e[3], e[5])]
  if k == "if":
    return [k, R(e[1]), R(e[2]), R(e[3])]
  raise ValueError(k)


# --------------------------------------------------------------------------- trivia

WORD = set("abcdefghijklmnopqrstuvwxyzABCDEFGHIJKLMNOPQRSTUVWXYZ0123456789_'\"")


def gen_trivia(rng, pieces, spans, style):
  n = len(pieces)
  closers = [0] * (n + 1)
  openers = [0] * (n + 1)
  p_paren = {"tight": 0.0, "pretty": 0.04, "wild": 0.18}[style]
  for (a, b) in spans:
    if rng.random() < p_paren and not pieces[a][2] and (b + 1 >= n or not pieces[b + 1][2]):
      openers[a] += 1
      closers[b + 1] += 1
  triv = []
  depth = 0
  for i in range(n + 1):
    glued = i < n and pieces[i][2]
    prev = pieces[i - 1][0] if i > 0 else ""
    nxt = pieces[i][0] if i < n else ""
    depth -= closers[i]
    ws = ""
    if not glued:
      if style == "pretty":
        ops = ("+", "-", "*", "==", "!=", "<", "<=")
        if prev in (",", "for", "in") or nxt in ("for", "in") or prev in ops or nxt in ops:
          ws = " "
      elif style == "wild":
        r = rng.random()
        if i == 0:
          ws = rng.choice(["", "", " ", "  "])
        elif i == n:
          ws = rng.choice(["", "", " ", "  # n rl Bb.n $n", " #", "\n", "  \n"]) if depth == 0 else ""
        elif r < 0.45:
          ws = ""
        elif depth > 0:
          ws = rng.choice([" ", " ", "  ", "\n", "\n   ", " # n\n", "  #Bb.n $n 'n'\n  ", "\t", " \\\n "])
        else:
          ws = rng.choice([" ", " ", "  ", " \\\n  "])
    s = ")" * closers[i] + ws + "(" * openers[i]
    depth += openers[i]
    if i < n:
      depth += pieces[i][0].count("(") + pieces[i][0].count("[") if pieces[i][1] is None and pieces[i][0] in ("(", "[") else 0
      depth -= 1 if pieces[i][1] is None and pieces[i][0] in (")", "]") else 0
    if not glued and 0 < i < n and s == "" and prev[-1:] in WORD and (nxt[:1] in WORD or nxt == "$"):
      s = " "     # (`in$x` is not a Grist formula: `$` is first turned into the identifier prefix DOLLAR)
    triv.append(s)
  if any("\n" in x for x in triv[1:n]):
    triv[0] = triv[0].lstrip(" ")     # an indented first line followed by less indented lines is not Python
  return triv


# --------------------------------------------------------------------------- schema state + generator

class St(object):
  """What the harness believes about the document (kept in step with the engine's answers)."""
  def __init__(self):
    self.tables = []                                  # table ids, creation order
    self.cols = {}                                    # table -> OrderedDict col -> dict(ty=..., formula=None|{e,triv}, any=bool)
    self.colref = {}                                  # (table, col) -> _grist_Tables_column row id
    self.tabref = {}                                  # table -> _grist_Tables row id

  def ty(self, t, c):
    if c == "id":
      return ("int",)
    return self.cols[t][c]["ty"]

  def usable(self, t):
    """Columns formulas may mention: id, data columns, typed formula columns."""
    res = [("id", ("int",))]
    for c, info in self.cols[t].items():
      if info["ty"] is not None:
        res.append((c, info["ty"]))
    return res


class Gen(object):
  def __init__(self, rng, st, cur, avail):
    self.rng, self.st, self.cur = rng, st, cur
    self.avail = avail        # table -> list of (col, ty) the formula may mention (acyclic for typed formulas)
    self.known_shape = False  # set when an indirect comprehension was generated

  def cols(self, t, pred):
    return [c for c, ty in self.avail[t] if pred(ty)]

  def pick(self, opts):
    opts = [o for o in opts if o is not None]
    return self.rng.choice(opts) if opts else None

  # record-valued
  def rec(self, t, env, d):
    rng = self.rng
    opts = []
    if t == self.cur:
      opts.append(lambda: ["rec"])
    for x, tx in dict(env).items():
      if tx == t:
        opts.append(lambda x=x: ["var", x])
    for c in self.cols(self.cur, lambda ty: ty == ("ref", t)):
      opts.append(lambda c=c: ["dollar", self.cur, c])
      opts.append(lambda c=c: ["attr", ["rec"], self.cur, c])
    if d > 0:
      for u in self.st.tables:
        for c in self.cols(u, lambda ty: ty == ("ref", t)):
          def chain(u=u, c=c):
            b = self.rec(u, env, d - 1)
            return None if b is None else ["attr", b, u, c]
          opts.append(chain)
      opts.append(lambda: ["lookup", True, t, self.kws(t, env, d - 1)])
      opts.append(lambda: self.prevnext(t, env, d - 1, rng.choice(["PREVIOUS", "NEXT"])))
    rng.shuffle(opts)
    for o in opts[:4]:
      r = o()
      if r is not None:
        return r
    return None

  def recarg(self, t, env):
    opts = []
    if t == self.cur:
      opts.append(["rec"])
    scope = dict(env)
    for x, tx in scope.items():
      if tx == t:
        opts.append(["var", x])
    return self.pick(opts)

  def ob(self, t, allow_desc=True, force=False):
    rng = self.rng
    cs = self.cols(t, lambda ty: ty[0] in ("int", "text"))
    if rng.random() < 0.12 or not cs:
      cs = self.cols(t, lambda ty: ty[0] in ("int", "text", "ref"))
    if not cs:
      return None
    k = rng.choice([1, 1, 1, 2, 3])
    items = [[allow_desc and rng.random() < 0.4, rng.choice(cs)] for _ in range(k)]
    tup = k > 1 or rng.random() < 0.3
    return {"items": items, "tuple": tup, "sq": rng.random() < 0.5}

  def prevnext(self, t, env, d, f):
    a = self.recarg(t, env)
    if a is None:
      return None
    ob = self.ob(t)
    if ob is None:
      return None
    if ob["items"][0] == [False, "id"]:
      # make_sort_spec drops "id" and everything after it: PREVIOUS/NEXT/RANK then have no sort key and
      # raise "Can only use 'find' methods in a sorted reference list" (not a rename matter)
      ob["items"][0][0] = True
    gb = self.ob(t, allow_desc=False) if self.rng.random() < 0.5 else None
    return ["pn", f, a, t, gb, ob]

  def kws(self, t, env, d):
    rng = self.rng
    cs = [(c, ty) for c, ty in self.avail[t] if ty[0] in ("int", "text", "ref")]
    rng.shuffle(cs)
    n = rng.choice([0, 1, 1, 1, 2, 2])
    chain = ["kwEnd", t, self.ob(t) if rng.random() < 0.5 else None]
    for c, ty in cs[:n]:
      if ty[0] == "int":
        v = self.scalar("int", env, d)
      elif ty[0] == "text":
        v = self.scalar("text", env, d)
      else:
        v = None
        if rng.random() < 0.5:
          v = self.rec(ty[1], env, min(d, 1))
        if v is None:
          v = self.scalar("int", env, 0) if rng.random() < 0.5 else \
              (["dollar", self.cur, "id"] if rng.random() < 0.7 else ["lit", rng.randint(0, 3)])
      chain = ["kw", t, c, v, chain]
    return chain

  def recs(self, t, env, d):
    rng = self.rng
    opts = [lambda: ["lookup", False, t, self.kws(t, env, d - 1)],
            lambda: ["lookup", False, t, self.kws(t, env, d - 1)],
            lambda: ["all", t]]
    for c in self.cols(self.cur, lambda ty: ty == ("reflist", t)):
      opts.append(lambda c=c: ["dollar", self.cur, c])
    if d > 0:
      for u in self.st.tables:
        for c in self.cols(u, lambda ty: ty == ("reflist", t)):
          def viarec(u=u, c=c):
            b = self.rec(u, env, d - 1)
            return None if b is None else ["attr", b, u, c]
          opts.append(viarec)
        for c in self.cols(u, lambda ty: ty == ("ref", t)):
          def viarecs(u=u, c=c):
            b = self.recs(u, env, d - 1)
            return None if b is None else ["attr", b, u, c]
          opts.append(viarecs)
    rng.shuffle(opts)
    for o in opts[:3]:
      r = o()
      if r is not None:
        return r
    return ["all", t]

  def lst(self, a, env, d):
    """list of atoms of type a in {'int','text'} (or any atom type when a is None)."""
    rng = self.rng
    t = rng.choice(self.st.tables)
    if rng.random() < 0.35 and a in ("int", "text"):
      cs = self.cols(t, lambda ty: ty == (a,))
      if cs:
        return ["attr", self.recs(t, env, d - 1), t, rng.choice(cs)]
    # comprehension
    direct = rng.random() >= 0.06
    src = None
    if direct:
      src = ["all", t] if rng.random() < 0.35 else ["lookup", False, t, self.kws(t, env, max(d - 1, 0))]
    else:
      for _ in range(6):
        s = self.recs(t, env, max(d, 1))
        if not (s[0] == "all" or s[0] == "lookup"):
          src = s
          break
      if src is None:
        src = ["all", t]
      else:
        self.known_shape = True
    names = ["x", "y", "e", "n", "r", "s", t, t.lower()] + [c for c, _ in self.avail[t]][:3]
    x = rng.choice(names[:3]) if rng.random() < 0.6 else rng.choice(names)
    if x in ("rec", "id"):
      x = "x"
    env2 = env + [(x, t)]
    if a is None:
      a = rng.choice(["int", "int", "text", "bool", "rec"])
    if a == "rec":
      body = None
      refs = self.cols(t, lambda ty: ty[0] == "ref")
      if refs and rng.random() < 0.7:
        c = rng.choice(refs)
        body = ["attr", ["var", x], t, c]
      if body is None:
        body = ["var", x]
    else:
      body = self.scalar(a, env2, max(d - 1, 0), prefer_var=x)
    bp, _ = pieces_of(body)
    if any(pc[1] is not None and pc[1][1] is None and pc[0] == x for pc in bp):
      # the loop variable would shadow a table the body mentions: use a harmless name instead
      return ["compr", subst_var(body, x, "x_"), "x_", src]
    return ["compr", body, x, src]

  def scalar(self, a, env, d, prefer_var=None):
    rng = self.rng
    scope = {}
    for x, tx in env:
      scope[x] = tx
    if prefer_var is not None and rng.random() < 0.75:
      t = scope[prefer_var]
      cs = self.cols(t, lambda ty: ty == (a,)) if a in ("int", "text") else []
      if cs:
        return ["attr", ["var", prefer_var], t, rng.choice(cs)]
      if d > 0:
        refs = self.cols(t, lambda ty: ty[0] == "ref")
        if refs and a in ("int", "text"):
          c = rng.choice(refs)
          u = dict(self.avail[t])[c][1]
          cs = self.cols(u, lambda ty: ty == (a,))
          if cs:
            return ["attr", ["attr", ["var", prefer_var], t, c], u, rng.choice(cs)]
    if a == "bool":
      if rng.random() < 0.75:
        return ["binop", rng.choice(["<", "<=", "==", "!="]), self.scalar("int", env, d - 1), self.scalar("int", env, d - 1)]
      return ["binop", rng.choice(["==", "!="]), self.scalar("text", env, d - 1), self.scalar("text", env, d - 1)]
    if a == "text":
      opts = []
      cs = self.cols(self.cur, lambda ty: ty == ("text",))
      opts += [lambda c=c: ["dollar", self.cur, c] for c in cs]
      opts += [lambda c=c: ["attr", ["rec"], self.cur, c] for c in cs[:1]]
      opts.append(lambda: ["str", rng.choice(["a", "b", "n", "-n", "Bb", "s", "order_by", "x y", ""]), rng.random() < 0.5])
      if d > 0:
        def chain():
          u = rng.choice(self.st.tables)
          cs2 = self.cols(u, lambda ty: ty == ("text",))
          if not cs2:
            return None
          b = self.rec(u, env, d - 1)
          return None if b is None else ["attr", b, u, rng.choice(cs2)]
        opts.append(chain); opts.append(chain)
        opts.append(lambda: ["if", self.scalar("bool", env, d - 1), self.scalar("text", env, d - 1), self.scalar("text", env, d - 1)])
      for _ in range(4):
        r = rng.choice(opts)()
        if r is not None:
          return r
      return ["str", "a", False]
    # int
    opts = []
    cs = self.cols(self.cur, lambda ty: ty == ("int",))
    opts += [lambda c=c: ["dollar", self.cur, c] for c in cs]
    opts += [lambda c=c: ["attr", ["rec"], self.cur, c] for c in cs[:2]]
    opts.append(lambda: ["lit", rng.randint(0, 4)])
    if d > 0:
      def chain():
        u = rng.choice(self.st.tables)
        cs2 = self.cols(u, lambda ty: ty == ("int",))
        if not cs2:
          return None
        b = self.rec(u, env, d - 1)
        return None if b is None else ["attr", b, u, rng.choice(cs2)]
      opts += [chain, chain, chain]
      opts.append(lambda: ["binop", rng.choice(["+", "-", "*"]), self.scalar("int", env, d - 1), self.scalar("int", env, d - 1)])
      opts.append(lambda: ["len", self.recs(rng.choice(self.st.tables), env, d - 1)])
      opts.append(lambda: ["len", self.lst(None, env, d - 1)])
      opts.append(lambda: ["sum", self.lst("int", env, d - 1)])
      opts.append(lambda: ["max", self.lst("int", env, d - 1)])
      opts.append(lambda: ["if", self.scalar("bool", env, d - 1), self.scalar("int", env, d - 1), self.scalar("int", env, d - 1)])

      def rank():
        scope_t = [self.cur] + [tx for _, tx in env]
        return self.prevnext(rng.choice(scope_t), env, d - 1, "RANK")
      opts.append(rank)
    for _ in range(4):
      r = rng.choice(opts)()
      if r is not None:
        return r
    return ["lit", 1]

  def top(self, want, d):
    """A formula of the wanted result kind: 'int' 'text' 'bool' ('rec',T) ('recs',T) 'list'."""
    if want in ("int", "text", "bool"):
      return self.scalar(want, [], d)
    if want == "list":
      return self.lst(None, [], d)
    if want[0] == "rec":
      return self.rec(want[1], [], d)
    return self.recs(want[1], [], d)


# --------------------------------------------------------------------------- case construction

TABLE_POOL = ["Aa", "Aab", "Bb", "Cc", "Tt"]
INT_POOL = ["n", "nn", "k", "Bb", "val"]
TEXT_POOL = ["s", "t", "S2"]
REF_POOL = ["r", "p", "q", "rr"]


def build_case(rng, tier):
  """Returns (actions to build the document, St)."""
  st = St()
  nt = rng.choice([2, 2, 3])
  st.tables = rng.sample(TABLE_POOL, nt)
  if rng.random() < 0.12:
    st.tables[rng.randrange(nt)] = "N"      # also the name of a spreadsheet function exported by `functions`
  actions = []
  for t in st.tables:
    st.cols[t] = collections.OrderedDict()
    cols = []
    for c in rng.sample(INT_POOL, rng.choice([1, 2, 2])):
      st.cols[t][c] = {"ty": ("int",), "formula": None}
      cols.append({"id": c, "type": "Int"})
    for c in rng.sample(TEXT_POOL, rng.choice([1, 1, 2])):
      st.cols[t][c] = {"ty": ("text",), "formula": None}
      cols.append({"id": c, "type": "Text"})
    actions.append([["AddTable", t, cols]])
  for t in st.tables:
    for c in rng.sample(REF_POOL, rng.choice([1, 1, 2])):
      u = rng.choice(st.tables)
      st.cols[t][c] = {"ty": ("ref", u), "formula": None}
      actions.append([["AddColumn", t, c, {"type": "Ref:" + u}]])
    if rng.random() < 0.6:
      u = rng.choice(st.tables)
      st.cols[t]["rl"] = {"ty": ("reflist", u), "formula": None}
      actions.append([["AddColumn", t, "rl", {"type": "RefList:" + u}]])
  nrows = {t: rng.randint(2, 4) for t in st.tables}
  for t in st.tables:
    vals = {}
    for c, info in st.cols[t].items():
      ty = info["ty"]
      if ty[0] == "int":
        vals[c] = [rng.randint(0, 3) for _ in range(nrows[t])]
      elif ty[0] == "text":
        vals[c] = [rng.choice(["a", "b", "n", "", "B a"]) for _ in range(nrows[t])]
      elif ty[0] == "ref":
        vals[c] = [rng.randint(0, nrows[ty[1]]) for _ in range(nrows[t])]
      else:
        vals[c] = []
        for _ in range(nrows[t]):
          k = rng.randint(0, min(3, nrows[ty[1]]))
          ids = rng.sample(range(1, nrows[ty[1]] + 1), k)
          vals[c].append(["L"] + ids if ids else None)
    actions.append([["BulkAddRecord", t, [None] * nrows[t], vals]])
  # formula columns: first a few typed ones (others may mention them), then Any-typed ones
  nform = 0
  styles = ["tight", "pretty", "pretty", "wild", "wild", "wild"]
  known = False
  for t in st.tables:
    k_typed = rng.choice([0, 1, 1, 2])
    k_any = rng.choice([2, 3, 4]) if tier == "quick" else rng.choice([2, 3, 4, 5])
    for j in range(k_typed + k_any):
      typed = j < k_typed
      avail = {u: st.usable(u) for u in st.tables}
      g = Gen(rng, st, t, avail)
      d = rng.choice([1, 2, 2, 3])
      if typed:
        want = rng.choice(["int", "int", "text", ("rec", rng.choice(st.tables))])
        d = min(d, 2)
      else:
        want = rng.choice(["int", "int", "int", "text", "bool", "list", "list",
                           ("rec", rng.choice(st.tables)), ("recs", rng.choice(st.tables))])
      e = g.top(want, d)
      if e is None:
        e = g.top("int", d)
        want = "int"
      if typed and (g.known_shape or contains(e, "max")):
        e = ["dollar", t, "id"]; want = "int"; g.known_shape = False
      known = known or g.known_shape
      pieces, spans = pieces_of(e)
      triv = gen_trivia(rng, pieces, spans, rng.choice(styles))
      text = render(pieces, triv)
      cid = ("g%d" if typed else "f%d") % nform
      nform += 1
      if typed:
        gty = {"int": "Int", "text": "Text"}.get(want) or ("Ref:" + want[1])
        ty = {"int": ("int",), "text": ("text",)}.get(want) or ("ref", want[1])
      else:
        gty, ty = "Any", None
      st.cols[t][cid] = {"ty": ty, "formula": {"e": e, "triv": triv}, "any": not typed}
      actions.append([["AddColumn", t, cid, {"isFormula": True, "formula": text, "type": gty}]])
  return actions, st, known


def subst_var(e, x, y):
  if e[0] == "var":
    return ["var", y if e[1] == x else e[1]]
  if e[0] == "compr":
    if e[2] == x:
      return ["compr", e[1], e[2], subst_var(e[3], x, y)]
    return ["compr", subst_var(e[1], x, y), e[2], subst_var(e[3], x, y)]
  return [subst_var(z, x, y) if isinstance(z, list) and z and isinstance(z[0], str) else z for z in e]


def contains(e, kind):
  if e[0] == kind:
    return True
  return any(contains(x, kind) for x in e[1:] if isinstance(x, list) and x and isinstance(x[0], str))


# --------------------------------------------------------------------------- engine side

def tok_to_cell(ty, tk):
  if ty[0] == "int":
    if isinstance(tk, str) and tk.startswith("i"):
      return int(tk[1:])
  elif ty[0] == "text":
    if isinstance(tk, str) and tk.startswith("s"):
      return tk[1:]
  elif ty[0] == "ref":
    if isinstance(tk, str) and tk.startswith("i"):
      return {"r": int(tk[1:])}
  else:
    if tk is None:
      return {"l": []}
    if isinstance(tk, str) and tk.startswith("o"):
      v = json.loads(tk[1:])
      if isinstance(v, list) and v and v[0] == "L" and all(isinstance(x, int) for x in v[1:]):
        return {"l": v[1:]}
  raise ValueError("cell %r not of type %r" % (tk, ty))


def lean_doc(st, snap):
  doc = []
  for t in st.tables:
    ids = snap[t]["ids"]
    cols = [{"name": "id", "ty": ["int"], "data": list(ids)}]
    for c, info in st.cols[t].items():
      if info["ty"] is None:
        continue
      data = [tok_to_cell(info["ty"], tk) for tk in snap[t]["cols"][c]]
      cols.append({"name": c, "ty": list(info["ty"]), "data": data})
    doc.append({"name": t, "ids": list(ids), "cols": cols})
  return doc


def conv_json(v):
  if isinstance(v, list):
    if v and v[0] == "R":
      return {"R": [v[1], v[2]]}
    if v and v[0] == "r":
      return {"RS": [v[1], list(v[2])]}
    if v and v[0] == "L":
      return [conv_json(x) for x in v[1:]]
    if v and v[0] == "E":
      return {"E": v[1]}
    return {"?": v}
  return v


def canon_engine(tk, ty):
  """Engine cell token -> the driver's value JSON."""
  if tk is None or isinstance(tk, bool):
    return tk
  if tk.startswith("i"):
    n = int(tk[1:])
    if ty is not None and ty[0] == "ref":
      return {"R": [ty[1], n]}
    return n
  if tk.startswith("s"):
    return tk[1:]
  if tk.startswith("o"):
    return conv_json(json.loads(tk[1:]))
  return {"?": tk}


def map_tables_json(v, ren):
  if ren[0] != "tab":
    return v
  if isinstance(v, list):
    if v and v[0] in ("R", "r") and len(v) > 1 and v[1] == ren[1]:
      return [v[0], ren[2]] + [map_tables_json(x, ren) for x in v[2:]]
    return [map_tables_json(x, ren) for x in v]
  return v


def map_token(tk, ren):
  """An engine cell token keyed through the rename."""
  if ren[0] == "tab" and isinstance(tk, str) and tk.startswith("o"):
    return "o" + json.dumps(map_tables_json(json.loads(tk[1:]), ren), sort_keys=True)
  return tk


def norm_token(tk):
  if isinstance(tk, str) and tk.startswith("o"):
    v = json.loads(tk[1:])
    if isinstance(v, list) and v and v[0] == "E":
      v = v[:2]              # error class only (messages mention the column name)
    return "o" + json.dumps(v, sort_keys=True)
  return tk


def py_tokens(text):
  src = text.replace("$", "@")
  res = []
  lines = src.splitlines(True)
  starts = [0]
  for ln in lines:
    starts.append(starts[-1] + len(ln))
  for tk in tokenize.generate_tokens(io.StringIO(src).readline):
    if tk.type in (tokenize.ENDMARKER, tokenize.NEWLINE, tokenize.NL, tokenize.INDENT, tokenize.DEDENT):
      res.append((tokenize.tok_name[tk.type], "", None, None))
      continue
    a = starts[tk.start[0] - 1] + tk.start[1]
    b = starts[tk.end[0] - 1] + tk.end[1]
    res.append((tokenize.tok_name[tk.type], tk.string, a, b))
  return res


def text_oracle(old, new, occs, ren, new_id):
  """Clause (ii) on the real texts, independent of the model.  None or (kind, detail[, missed positions])."""
  if ren[0] == "col":
    target, oldname = (ren[1], ren[2]), ren[2]
  else:
    target, oldname = (ren[1], None), ren[1]
  hits = [pos for (pos, t, c) in occs if (t, c) == target]
  exp = old
  for pos in sorted(hits, reverse=True):
    if exp[pos:pos + len(oldname)] != oldname:
      return ("harness", "ground-truth occurrence at %d is not spelled %r" % (pos, oldname))
    exp = exp[:pos] + new_id + exp[pos + len(oldname):]
  if new != exp:
    # is `new` the old text with only a SUBSET of the ground-truth occurrences rewritten?
    hs = sorted(hits)
    missed = None
    if len(hs) <= 12:
      for mask in range(1, 1 << len(hs)):
        part = old
        for k in range(len(hs) - 1, -1, -1):
          if not (mask >> k) & 1:
            part = part[:hs[k]] + new_id + part[hs[k] + len(oldname):]
        if part == new:
          missed = [hs[k] for k in range(len(hs)) if (mask >> k) & 1]
          break
    part = new if missed else None
    missed = missed or []
    kind = "missed" if missed and new == part else "other"
    return (kind, "old %r new %r expected %r (occurrences of %r at %r, not rewritten at %r)" % (
      old, new, exp, target, hits, missed), missed)
  # token-level diff with Python's tokenizer
  try:
    ta, tb = py_tokens(old), py_tokens(new)
  except (tokenize.TokenError, IndentationError, SyntaxError):
    return None
  if len(ta) != len(tb):
    return ("other", "token count changed: %d -> %d (%r -> %r)" % (len(ta), len(tb), old, new))
  for x, y in zip(ta, tb):
    if x[0] != y[0]:
      return ("other", "token kind changed %r -> %r" % (x, y))
    if x[1] != y[1]:
      if x[0] not in ("NAME", "STRING"):
        return ("other", "a %s token changed: %r -> %r" % (x[0], x[1], y[1]))
      inside = [p for p in hits if x[2] <= p < x[3]]
      if not inside:
        return ("other", "token %r at %d changed to %r but denotes nothing renamed" % (x[1], x[2], y[1]))
      if x[0] == "NAME" and (inside != [x[2]] or x[1] != oldname or y[1] != new_id):
        return ("other", "NAME token %r -> %r is not the renamed name" % (x[1], y[1]))
  return None


KNOWN_FUNC = ("table id equal to a name exported by `functions` (e.g. N, T): attributes reached through a "
              "Ref/RefList column of that table are not rewritten")
KNOWN_SHADOW = ("loop variable named like a table (`for T in T.all`): uses of that table inside the comprehension's "
                "iterable are not rewritten")
KNOWN_FUNC2 = ("table id equal to a name exported by `functions` and called in formulas (IF, MAX, ...): renaming a table "
               "to it shadows the function, renaming that table away rewrites the function calls")


KNOWN_ORDER = ("an order_by key column of a lookup / PREVIOUS / NEXT / RANK gets a new column object during the rename "
               "(Ref column of a renamed table, or formula column whose text is rewritten): the sort order changes")


KNOWN_RESERVED = ("column renamed to `order_by` / `sort_by`: a lookup keyword for that column becomes the lookup's own "
                  "sorting parameter")


def order_keys(e, acc=None):
  """(table, col) of every order_by item of the formula."""
  if acc is None:
    acc = set()
  if e[0] == "kwEnd" and e[2] is not None:
    acc.update((e[1], c) for _, c in e[2]["items"])
  if e[0] == "pn":
    acc.update((e[3], c) for _, c in e[5]["items"])
  for x in e[1:]:
    if isinstance(x, list) and x and isinstance(x[0], str):
      order_keys(x, acc)
  return acc


def order_sensitive_columns(formulas, keys):
  """Formula columns whose value may depend on the order of a lookup sorted by one of the columns `keys`
  (directly, or through another such formula column they mention)."""
  sens = set()
  for f in formulas:
    if order_keys(f["e"]) & keys:
      sens.add((f["table"], f["col"]))
  while True:
    more = set()
    for f in formulas:
      if (f["table"], f["col"]) in sens:
        continue
      pieces, _ = pieces_of(f["e"])
      if any(pc[1] in sens for pc in pieces if pc[1] is not None):
        more.add((f["table"], f["col"]))
    if not more:
      return sens
    sens |= more


def is_function_name(t):
  import functions
  return hasattr(functions, t)


def explained(tag, tables):
  """Is an occurrence that grist_names() does not report covered by a recorded finding?"""
  return tag in ("indirect_loopvar", "shadowed_table") or \
      (tag == "via_ref" and any(is_function_name(t) for t in tables))


def diff_cells(before, after, tables, ren):
  """Clause (i): cells that differ, keyed through the rename."""
  cells = []
  for ut in tables:
    nt = ren_tab(ren, ut)
    if nt not in after or after[nt]["ids"] != before[ut]["ids"]:
      cells.append((ut, None, "table/rows missing after rename"))
      continue
    for uc, vals in before[ut]["cols"].items():
      if uc.startswith("gristHelper_"):
        continue
      got = after[nt]["cols"].get(ren_col(ren, ut, uc))
      if got is None:
        cells.append((ut, uc, "column missing after rename"))
        continue
      for i, (a, b) in enumerate(zip(vals, got)):
        if norm_token(map_token(a, ren)) != norm_token(b):
          cells.append((ut, uc, "row %s: %r -> %r" % (before[ut]["ids"][i], a, b)))
          break
  return cells


def judge(ren, newid, ua, formulas, meta_after, before, after, tables, refcols=()):
  """The direct oracle for one applied rename.  -> (None | (signature, detail), number of rewritten texts)."""
  cells = diff_cells(before, after, tables, ren)
  texts, nchanged = [], 0
  # columns that get a new column object in this rename
  rebuilt = set((t, c) for (t, c, u) in refcols if ren[0] == "tab" and u == ren[1])
  for f in formulas:
    pieces, _ = pieces_of(f["e"])
    text = render(pieces, f["triv"])
    oc = occs_of(pieces, f["triv"])
    tags = tags_of(pieces, f["triv"])
    new = meta_after.get((ren_tab(ren, f["table"]), ren_col(ren, f["table"], f["col"])))
    if new is None:
      texts.append((f["table"], f["col"], "other", "formula column missing after rename", []))
      continue
    if new != text:
      nchanged += 1
      rebuilt.add((f["table"], f["col"]))
    v = text_oracle(text, new, oc, ren, newid)
    if v:
      if v[0] == "harness":
        raise RuntimeError(v[1])
      texts.append((f["table"], f["col"], v[0], v[1], [tags[q] for q in (v[2] if len(v) > 2 else [])]))
  if not cells and not texts:
    return None, nchanged
  kind = ren[0]
  only_missed = bool(texts) and all(x[2] == "missed" for x in texts)
  tagset = set(tg for x in texts for tg in x[4])
  all_explained = only_missed and tagset and all(explained(tg, tables) for tg in tagset)
  if all_explained and "indirect_loopvar" in tagset:
    sig = KNOWN_COMPR
  elif all_explained and "shadowed_table" in tagset:
    sig = KNOWN_SHADOW
  elif all_explained:
    sig = KNOWN_FUNC
  elif kind == "tab" and is_function_name(ren[1]) and texts and not only_missed:
    sig = KNOWN_FUNC2
  elif only_missed:
    sig = "a listed reference form is not rewritten (%s rename; %s)" % (kind, ",".join(sorted(tagset)))
  elif texts:
    sig = "formula text changed elsewhere than at the renamed name tokens (%s rename)" % kind
  elif kind == "col" and newid in ("order_by", "sort_by"):
    sig = KNOWN_RESERVED
  elif kind == "tab" and not texts and is_function_name(newid):
    sig = KNOWN_FUNC2
  elif all(x[1] is not None for x in cells) and \
      set((x[0], x[1]) for x in cells) <= order_sensitive_columns(formulas, rebuilt):
    sig = KNOWN_ORDER
  else:
    sig = "formula values changed although every text was rewritten as expected (%s rename)" % kind
  detail = "rename %r -> new id %r; texts: %r; cells: %r" % (ua, newid, [x[:2] + (x[3],) for x in texts[:2]], cells[:3])
  return (sig, detail), nchanged


class Case(object):
  """One document + a sequence of renames on a live engine, with all oracles."""
  def __init__(self, seed, tier, nsteps):
    self.seed, self.tier, self.nsteps = seed, tier, nsteps
    self.rng = random.Random("c16-case/%s" % (seed,))
    self.ops = []            # driver ops
    self.expect = []         # what the engine did, aligned with ops
    self.viol = []           # (signature, detail, replay)
    self.counts = collections.Counter()
    self.samples = []
    self.nontrivial = []
    self.history = []

  def apply(self, doc, bundle):
    r = doc.apply(bundle)
    if r.ok:
      self.history.append(bundle)
    return r

  def formulas(self):
    for t in self.st.tables:
      for c, info in self.st.cols[t].items():
        if info["formula"] is not None:
          yield t, c, info

  def run(self):
    from gx import engine_driver as ed
    rng = self.rng
    actions, st, known = build_case(rng, self.tier)
    self.st = st
    doc = ed.Doc()
    for b in actions:
      r = self.apply(doc, b)
      if not r.ok:
        raise RuntimeError("generator: engine rejected %r: %r" % (b, r.error))
    self.read_refs(doc)
    for t, c, info in self.formulas():
      if (t, c) not in st.colref:
        raise RuntimeError("generator: column %s.%s not created under that id" % (t, c))
    if known:
      self.counts["docs_with_indirect_comprehension"] += 1
    for step in range(self.nsteps):
      r = self.step(doc, step)
      if r == "rejected":
        # a rejected bundle is no rename; what the engine's rollback leaves behind is not this property's
        # business (formula cells were seen reset to None): continue on a document rebuilt from the history
        doc = ed.Doc()
        for b in self.history:
          if not doc.apply(b).ok:
            raise RuntimeError("rebuild: %r rejected" % (b,))
      elif not r:
        break
    return self

  def read_refs(self, doc):
    st = self.st
    st.tabref = {r["tableId"]: r["id"] for r in doc.meta("_grist_Tables")}
    byid = {v: k for k, v in st.tabref.items()}
    st.colref = {}
    self.meta_formula = {}
    for r in doc.meta("_grist_Tables_column"):
      t = byid.get(r["parentId"])
      if t in st.cols:
        st.colref[(t, r["colId"])] = r["id"]
        self.meta_formula[(t, r["colId"])] = r["formula"]

  def discovered(self, doc):
    res = collections.defaultdict(list)
    for (info, pos, t, c) in doc.engine.gencode.grist_names():
      res[tuple(info)].append((pos, t, c))
    return res

  def choose_rename(self, disc_diff):
    """-> (kind, table, col|None, requested, path)"""
    rng, st = self.rng, self.st
    if disc_diff:
      t, c = rng.choice(sorted(disc_diff, key=str))
      if c is None and t in st.tables:
        return ("tab", t, None)
      if c is not None and t in st.cols and c in st.cols[t]:
        return ("col", t, c)
    mentioned = set()
    for t, c, info in self.formulas():
      pieces, _ = pieces_of(info["formula"]["e"])
      for pc in pieces:
        if pc[1] is not None:
          mentioned.add(pc[1])
    cols_m = sorted((t, c) for (t, c) in mentioned if c not in (None, "id") and t in st.cols and c in st.cols[t])
    tabs_m = sorted(t for (t, c) in mentioned if c is None)
    if rng.random() < 0.3:
      t = rng.choice(tabs_m) if tabs_m and rng.random() < 0.8 else rng.choice(st.tables)
      return ("tab", t, None)
    if cols_m and rng.random() < 0.8:
      t, c = rng.choice(cols_m)
    else:
      t = rng.choice(st.tables)
      c = rng.choice(list(st.cols[t]))
    return ("col", t, c)

  def requested_name(self, kind, t, c):
    rng, st = self.rng, self.st
    old = c if kind == "col" else t
    others = [x for x in (st.cols[t] if kind == "col" else st.tables) if x != old]
    alltabs = list(st.tables)
    pool = ["zz", "Col9", "x_y", "a b", "1x", "class", "if", "  lead", "é t", "", "Id", "id", "N", "n", "nn",
            old + "n", old + "2", old + "_", old[:-1] if len(old) > 1 else "q9", old.upper(), old.lower(),
            old.swapcase(), "rec", "table", "lookupRecords", "order_by", "sort_by", "all", "DOLLAR" + old, "x", "value",
            "MAX", "iF"]
    if others:
      o = rng.choice(others)
      pool += [o, o, o.upper(), o.swapcase(), o + "2"]
    pool += alltabs + [x.lower() for x in alltabs]
    return rng.choice(pool)

  def step(self, doc, stepno):
    from gx import engine_driver as ed
    rng, st = self.rng, self.st
    user_tables = list(st.tables)
    before = doc.snapshot(tables=user_tables)
    self.read_refs(doc)
    disc = self.discovered(doc)
    # ground truth + discovery diff (iii)
    gt = {}
    disc_diff, disc_known = set(), set()
    for t, c, info in self.formulas():
      f = info["formula"]
      pieces, _ = pieces_of(f["e"])
      text = render(pieces, f["triv"])
      if self.meta_formula.get((t, c)) != text:
        raise RuntimeError("harness out of step: formula of %s.%s is %r, expected %r" % (
          t, c, self.meta_formula.get((t, c)), text))
      oc = occs_of(pieces, f["triv"])
      gt[(t, c)] = (text, oc)
      got = collections.Counter(o for o in disc.get((t, c), []) if o[2] != "id")
      want = collections.Counter(o for o in oc if o[2] != "id")
      if got != want:
        tags = tags_of(pieces, f["triv"])
        for o in (want - got):
          if explained(tags[o[0]], st.tables):
            self.counts["undiscovered_occurrences_covered_by_a_recorded_finding"] += 1
            disc_known.add((o[1], o[2]))
          else:
            self.counts["undiscovered_occurrences_unexplained"] += 1
            disc_diff.add((o[1], o[2]))
        for o in (got - want):
          self.counts["discovered_occurrences_not_in_ground_truth"] += 1
          disc_diff.add((o[1], o[2]))
    kind, t, c = self.choose_rename(disc_diff or (disc_known if rng.random() < 0.25 else set()))
    req = self.requested_name(kind, t, c)
    if kind == "col":
      path = rng.choice(["RenameColumn", "RenameColumn", "colId", "colId", "label", "bulk"])
      ref = st.colref[(t, c)]
      ua = {"RenameColumn": ["RenameColumn", t, c, req],
            "colId": ["UpdateRecord", "_grist_Tables_column", ref, {"colId": req}],
            "label": ["UpdateRecord", "_grist_Tables_column", ref, {"label": req}],
            "bulk": ["BulkUpdateRecord", "_grist_Tables_column", [ref], {"colId": [req]}]}[path]
    else:
      path = rng.choice(["RenameTable", "RenameTable", "tableId"])
      ref = st.tabref[t]
      ua = {"RenameTable": ["RenameTable", t, req],
            "tableId": ["UpdateRecord", "_grist_Tables", ref, {"tableId": req}]}[path]
    self.counts["path:" + path] += 1
    hist_before = [copy.deepcopy(b) for b in self.history]
    res = self.apply(doc, [ua])
    if not res.ok:
      self.counts["rename_rejected"] += 1
      self.counts["rejected:" + res.error[0]] += 1
      return "rejected"
    # the id the engine picked
    if kind == "col":
      newid = [r["colId"] for r in doc.meta("_grist_Tables_column") if r["id"] == ref][0]
      ren = ["col", t, c, newid]
    else:
      newid = [r["tableId"] for r in doc.meta("_grist_Tables") if r["id"] == ref][0]
      ren = ["tab", t, newid]
    old = c if kind == "col" else t
    if newid != req:
      self.counts["requested_name_adjusted"] += 1
    if newid == old:
      self.counts["rename_to_same_id"] += 1
    new_tables = [ren_tab(ren, x) for x in user_tables]
    after = doc.snapshot(tables=new_tables)
    meta_after = {}
    byid = {r["id"]: r["tableId"] for r in doc.meta("_grist_Tables")}
    for r in doc.meta("_grist_Tables_column"):
      meta_after[(byid.get(r["parentId"]), r["colId"])] = r["formula"]
    replay = {"build": hist_before, "rename": ua, "ren": ren, "seed": self.seed, "step": stepno,
              "formulas": [{"table": ft, "col": fc, "e": info["formula"]["e"], "triv": info["formula"]["triv"]}
                           for ft, fc, info in self.formulas()],
              "tables": user_tables,
              "refcols": [[tt, cc, info["ty"][1]] for tt in user_tables for cc, info in st.cols[tt].items()
                          if info["ty"] is not None and info["ty"][0] in ("ref", "reflist")]}
    verdict, n_changed_text = judge(ren, newid, ua, replay["formulas"], meta_after, before, after, user_tables,
                                    replay["refcols"])
    bad = verdict is not None
    if bad:
      self.viol.append((verdict[0], verdict[1], replay))
    # ---- driver op (ties)
    try:
      ldoc = lean_doc(st, before)
    except ValueError:
      self.counts["doc_not_modellable"] += 1
      ldoc = None
    if ldoc is not None and newid != old:
      forms = []
      exp = []
      for ft, fc, info in self.formulas():
        f = info["formula"]
        ids = before[ft]["ids"]
        forms.append({"cur": ft, "e": f["e"], "triv": f["triv"], "rows": ids,
                      "occs": [[p, a, b] for (p, a, b) in disc.get((ft, fc), [])]})
        nt, nc = ren_tab(ren, ft), ren_col(ren, ft, fc)
        ty = info["ty"]
        ty2 = None if ty is None else ((ty[0], ren_tab(ren, ty[1])) if ty[0] == "ref" else ty)
        exp.append({"table": ft, "col": fc, "text": gt[(ft, fc)][0], "occs": [list(o) for o in gt[(ft, fc)][1]],
                    "tags": tags_of(pieces_of(f["e"])[0], f["triv"]), "tables": list(user_tables),
                    "disc": sorted([list(o) for o in disc.get((ft, fc), [])], key=str),
                    "new_text": meta_after.get((nt, nc)),
                    "vals": [canon_engine(x, ty) for x in before[ft]["cols"][fc]],
                    "vals2": [canon_engine(x, ty2) for x in after.get(nt, {"cols": {}})["cols"].get(nc, [])]})
      self.ops.append({"m": "formularename", "doc": ldoc, "ren": ren, "forms": forms})
      self.expect.append({"forms": exp, "bad": bad, "replay": replay, "ua": ua})
    self.counts["renames_applied"] += 1
    self.counts["kind:" + kind] += 1
    if n_changed_text:
      self.counts["renames_changing_some_formula"] += 1
      self.nontrivial.append([self.seed, stepno, ua])
      if len(self.samples) < 2:
        ex = [(gt[k][0], meta_after.get((ren_tab(ren, k[0]), ren_col(ren, k[0], k[1])))) for k in sorted(gt)]
        ex = [x for x in ex if x[0] != x[1]][:2]
        self.samples.append({"rename": ua, "new_id": newid, "rewritten": ex})
    self.counts["formula_texts_rewritten"] += n_changed_text
    if bad:
      return False
    if kind == "col" and newid in ("order_by", "sort_by"):
      # recorded finding; whether a value changes right now depends on the data (a falsy `sort_by=0` is ignored)
      self.counts["case_ended_column_now_named_like_a_lookup_parameter"] += 1
      return False
    if kind == "tab" and is_function_name(newid) and newid != "N":
      # the table class now shadows a spreadsheet function formulas may call (recorded finding); the damage only
      # shows when a formula is recomputed, so nothing later in this document says anything about renames
      self.counts["case_ended_table_now_named_like_a_function"] += 1
      return False
    # ---- keep the harness state in step
    if kind == "tab":
      st.tables = [ren_tab(ren, x) for x in st.tables]
      st.cols = {ren_tab(ren, k): v for k, v in st.cols.items()}
      for tt in st.cols:
        for cc, info in st.cols[tt].items():
          if info["ty"] is not None and info["ty"][0] in ("ref", "reflist"):
            info["ty"] = (info["ty"][0], ren_tab(ren, info["ty"][1]))
    else:
      st.cols[t] = collections.OrderedDict((ren_col(ren, t, k), v) for k, v in st.cols[t].items())
    for tt in st.cols:
      for cc, info in st.cols[tt].items():
        if info["formula"] is not None:
          info["formula"]["e"] = rename(ren, info["formula"]["e"])
    return True


def run_case(args):
  seed, tier, nsteps = args
  from gx import common
  common.setup_repo_path()
  c = Case(seed, tier, nsteps)
  try:
    c.run()
    err = None
  except RuntimeError as e:
    err = str(e)
  return {"seed": seed, "ops": c.ops, "expect": c.expect, "viol": c.viol, "counts": dict(c.counts),
          "samples": c.samples, "nontrivial": c.nontrivial, "err": err}


# --------------------------------------------------------------------------- comparing with the model

def compare(ck, op, ex, ans, state):
  """Model answers vs the engine for one rename step.  Records mismatches in `state`."""
  if "error" in ans:
    raise RuntimeError("driver: %s" % ans["error"])
  if not ans["fresh"]:
    state["mism"].append(("new id not fresh in the model document", ex["ua"], None, ex["replay"]))
  for f, e, a in zip(op["forms"], ex["forms"], ans["forms"]):
    where = "%s.%s %r under %r" % (e["table"], e["col"], e["text"], ex["ua"])
    ck.evaluated()
    if a["ty"] is None:
      raise RuntimeError("generator produced an ill-typed formula: %s" % where)
    if a["text"] != e["text"] or [list(o) for o in a["occs"]] != e["occs"]:
      raise RuntimeError("python printer and Lean printer differ: %s vs %r / %r vs %r" % (where, a["text"], a["occs"], e["occs"]))
    m_occ = collections.Counter(tuple(o) for o in a["occs"] if o[2] != "id")
    e_occ = collections.Counter(tuple(o) for o in e["disc"] if o[2] != "id")
    if m_occ != e_occ:
      state["disc"] += 1
      unexplained = [o for o in (m_occ - e_occ) if not explained(e["tags"][o[0]], e["tables"])] + list(e_occ - m_occ)
      if unexplained:
        state["mism_disc"].append((where, sorted(m_occ), sorted(e_occ), ex["replay"]))
      else:
        state["disc_known"] += 1
    if not ex["bad"]:
      if a["text2"] != e["new_text"]:
        state["mism"].append(("print(rename e) differs from the stored formula", where, [a["text2"], e["new_text"]], ex["replay"]))
      pat = a["patched"] if a["patched"] is not None else a["text"]
      if pat != e["new_text"]:
        state["mism"].append(("model _prepare_formula_renames differs from the stored formula", where, [pat, e["new_text"]], ex["replay"]))
      if not ans["safe"]:
        state["unsafe"] += 1        # outside the hypotheses of rename_preserves_eval (negation witnesses)
      elif a["vals2"] != a["vals1r"]:
        state["mism"].append(("model: eval of renamed formula differs (theorem instance)", where, [a["vals2"], a["vals1r"]], ex["replay"]))
      elif a["vals2"] != e["vals2"]:
        state["mism"].append(("eval after the rename differs from the engine", where, [a["vals2"], e["vals2"]], ex["replay"]))
    if a["vals"] != e["vals"]:
      state["mism"].append(("eval differs from the engine", where, [a["vals"], e["vals"]], ex["replay"]))
    state["forms"] += 1


def run(ck):
  ck.rule = ("one case = a generated document (2-3 tables, Int/Text/Ref/RefList columns, typed and Any formula columns with "
             "FExpr formulas printed with random trivia) and a sequence of renames by random paths/targets; "
             "non-trivial = a rename step after which at least one stored formula text differs; distinct by (case seed, step, action)")
  ck.assumptions = ["manualSort order = row id order (rows are only appended)",
                    "formulas mention data columns, `id` and typed (Int/Text/Ref) formula columns only; no floats",
                    "astroid's discovery of occurrences is not proved, it is compared with the generator's ground truth"]
  ck.lean(["GristProps.C16"])
  ncases = 10 if ck.tier == "quick" else 300
  ncases = int(os.environ.get("VERIF_C16_CASES", ncases))      # development knob only
  nsteps = 4 if ck.tier == "quick" else 6
  seeds = [ck.rng.getrandbits(40) for _ in range(ncases)]
  args = [(s, ck.tier, nsteps) for s in seeds]
  import multiprocessing
  nproc = max(1, min(4 if ck.tier == "quick" else 16, os.cpu_count() or 2))
  with multiprocessing.Pool(nproc) as pool:
    results = pool.map(run_case, args, chunksize=1 if ck.tier == "quick" else 4)
  report(ck, results)
  summary_family(ck)
  witness(ck)


def report(ck, results):
  state = {"mism": [], "mism_disc": [], "disc": 0, "disc_known": 0, "forms": 0, "unsafe": 0}
  all_ops, all_ex = [], []
  for r in results:
    if r["err"]:
      raise RuntimeError("case %s: %s" % (r["seed"], r["err"]))
    for k, v in r["counts"].items():
      ck.count(k, v)
    for s in r["samples"]:
      ck.sample(s)
    for n in r["nontrivial"]:
      ck.nontrivial_case(n)
    for (sig, detail, replay) in r["viol"]:
      ck.violation(sig, detail, replay)
    all_ops += r["ops"]
    all_ex += r["expect"]
  ck.count("cases", len(results))
  answers = []
  for i in range(0, len(all_ops), 200):
    answers += ck.driver(all_ops[i:i + 200])
  for op, ex, ans in zip(all_ops, all_ex, answers):
    compare(ck, op, ex, ans, state)
  ck.count("formulas_compared_with_model", state["forms"])
  ck.count("formulas_under_unsafe_rename_not_compared_after", state["unsafe"])
  ck.count("discovery_mismatching_formulas", state["disc"])
  ck.count("discovery_mismatching_formulas_covered_by_recorded_findings", state["disc_known"])
  if not ck.has_impl_violation():
    if state["mism"]:
      m = state["mism"][0]
      ck.count("model_impl_disagreements", len(state["mism"]))
      ck.broken("correspondence " + m[0], "%s: %r" % (m[1], m[2]),
                dict(m[3] or {}, what=m[0], where=m[1], values=m[2]))
    elif state["mism_disc"]:
      m = state["mism_disc"][0]
      ck.broken("correspondence grist_names() vs ground-truth occurrences",
                "%s: model %r engine %r (no rename of that entity changed a value or text)" % m[:3],
                dict(m[3] or {}, where=m[0], model=m[1], engine=m[2]))


# --------------------------------------------------------------------------- summary tables ("sister" columns)

# (a comprehension over $group, `SUM(r.x for r in $group)`, is the recorded finding "comprehension over a
#  RefList column" with its own witness below; it is not repeated here)
SIS_FORMULAS = ["MAX($group.%s)", "MIN($group.%s)", "SUM($group.%s) + 1", "SUM($group.%s) - MIN($group.%s)",
                "len($group) + SUM($group.%s)", "SUM($group.%s) * 2 if $count else 0"]
SIG_SUM_VALUE = "summary tables: a formula value changes under a rename of a source column"
SIG_SUM_TEXT = "summary tables: formula of a same-named summary column is not the old text with exactly the renamed name replaced"


def _by_ref(doc):
  """{(tableRef, colRef): (tableId, colId, formula, [tokens])} for every user-table column."""
  tabs = dict((t["id"], t["tableId"]) for t in doc.meta("_grist_Tables"))
  out = {}
  snap = doc.snapshot(tables=doc.user_tables())
  for c in doc.meta("_grist_Tables_column"):
    tid = tabs.get(c["parentId"])
    if tid in snap and c["colId"] in snap[tid]["cols"]:
      out[(c["parentId"], c["id"])] = (tid, c["colId"], c["formula"], (snap[tid]["ids"], snap[tid]["cols"][c["colId"]]))
  return out


def _judge_summary_rename(ck, doc, before, key, old, ua, replay):
  import re
  key = tuple(key)
  after = _by_ref(doc)
  newid = after[key][1]
  if newid == old:
    return False
  changed = False
  for kk, (t0, c0, f0, v0) in before.items():
    if kk not in after:
      ck.violation("summary tables: a column disappears under a rename", "%s.%s under %r" % (t0, c0, ua), replay)
      continue
    (t1, c1, f1, v1) = after[kk]
    if v0 != v1:
      ck.violation(SIG_SUM_VALUE, "%s.%s (now %s.%s, formula %r -> %r) under %r: %r -> %r" % (
        t0, c0, t1, c1, f0, f1, ua, v0[1][:6], v1[1][:6]), replay)
    if f0:
      want = re.sub(r"(?<=[.$])%s\b" % re.escape(old), newid, f0)
      if f1 != want:
        ck.violation(SIG_SUM_TEXT, "%s.%s: %r -> %r, expected %r under %r" % (t0, c0, f0, f1, want, ua), replay)
      if f1 != f0:
        changed = True
  return changed


def summary_family(ck):
  """Renames of source columns that have same-named formula columns in several summary tables, some of
  them replaced by hand with a different formula (useractions._adjust_one_column_update and
  summary.py keep such columns in step); rename paths: RenameColumn, colId update, label update."""
  import re
  from gx import engine_driver as ed
  rng = ck.rng
  n = 10 if ck.tier == "quick" else 250
  for case in range(n):
    doc = ed.Doc()
    hist = []
    def do(b):
      hist.append(b)
      return doc.apply(b)
    cols = [{"id": "g1", "type": "Text", "isFormula": False, "formula": ""},
            {"id": "g2", "type": "Int", "isFormula": False, "formula": ""},
            {"id": "x", "type": "Numeric", "isFormula": False, "formula": ""},
            {"id": "y", "type": "Int", "isFormula": False, "formula": ""},
            {"id": "z", "type": "Any", "isFormula": True, "formula": "$x * 2 + $y"}]
    assert do([["AddTable", "S", cols]]).ok
    k = rng.randint(3, 7)
    assert do([["BulkAddRecord", "S", [None] * k, {"g1": [rng.choice("ab") for _ in range(k)],
                                                   "g2": [rng.choice([1, 2]) for _ in range(k)],
                                                   "x": [rng.choice([1, 10, 100, 1000, 2.5]) for _ in range(k)],
                                                   "y": [rng.randint(0, 9) for _ in range(k)]}]]).ok
    colref = dict((c["colId"], c["id"]) for c in doc.meta("_grist_Tables_column") if c["parentId"] == 1)
    groupings = rng.sample([["g1"], ["g2"], ["g1", "g2"], []], rng.choice([1, 2, 2, 3]))
    for gb in groupings:
      assert do([["CreateViewSection", 1, 0, "record", [colref[g] for g in gb], None]]).ok
    sums = [t for t in doc.user_tables() if t.startswith("S_summary")]
    replaced = 0
    for st in sums:
      for c in ("x", "y"):
        if rng.random() < 0.5:
          tmpl = rng.choice(SIS_FORMULAS)
          f = tmpl % ((c,) * tmpl.count("%s"))
          r = do([["RemoveColumn", st, c], ["AddColumn", st, c, {"type": "Any", "isFormula": True, "formula": f}]])
          replaced += 1 if r.ok else 0
      if rng.random() < 0.4:
        do([["AddColumn", st, "extra", {"type": "Any", "isFormula": True, "formula": "SUM($group.x) + SUM($group.y) + $count"}]])
    for step in range(rng.randint(2, 4)):
      before = _by_ref(doc)
      src = [(k_, v) for k_, v in before.items() if v[0] == "S" and v[1] not in ("manualSort", "z")]
      (key, (tid, old, _f, _v)) = rng.choice(src)
      new = rng.choice(["amount", "Net Amount", "x", "y", "g1", "total", "count", "group", "x2", "A"])
      path = rng.choice(["RenameColumn", "colId", "label"])
      if path == "RenameColumn":
        ua = ["RenameColumn", "S", old, new]
      elif path == "colId":
        ua = ["UpdateRecord", "_grist_Tables_column", key[1], {"colId": new}]
      else:
        ua = ["UpdateRecord", "_grist_Tables_column", key[1], {"label": new}]
      res = do([ua])
      ck.evaluated()
      if not res.ok:
        ck.count("summary_family_rejected")
        hist.pop()
        continue
      replay = {"summary_family": True, "history": [list(b) for b in hist], "key": list(key), "old": old}
      changed = _judge_summary_rename(ck, doc, before, key, old, ua, replay)
      if changed and replaced:
        ck.nontrivial_case(["summary_family", case, step, ua])
      ck.count("summary_family_renames")


# --------------------------------------------------------------------------- fixed witness of the known finding

def spaced(e):
  pieces, _ = pieces_of(e)
  triv = [""] * (len(pieces) + 1)
  for i, pc in enumerate(pieces):
    if pc[0] in ("for", "in"):
      triv[i] = " "; triv[i + 1] = " "
  return triv


WITNESSES = [
  # the smallest instances of the recorded findings, replayed on the real code every run
  (KNOWN_COMPR,
   {"build": [[["AddTable", "Bb", [{"id": "n", "type": "Int"}]]],
              [["AddTable", "Aa", [{"id": "rl", "type": "RefList:Bb"}]]],
              [["BulkAddRecord", "Bb", [None, None], {"n": [5, 6]}]],
              [["BulkAddRecord", "Aa", [None], {"rl": [["L", 1, 2]]}]],
              [["AddColumn", "Aa", "f", {"isFormula": True, "formula": "[x.n for x in $rl]", "type": "Any"}]]],
    "rename": ["RenameColumn", "Bb", "n", "m"], "ren": ["col", "Bb", "n", "m"], "tables": ["Bb", "Aa"],
    "formulas": [{"table": "Aa", "col": "f",
                  "e": ["compr", ["attr", ["var", "x"], "Bb", "n"], "x", ["dollar", "Aa", "rl"]]}]}),
  (KNOWN_FUNC,
   {"build": [[["AddTable", "N", [{"id": "val", "type": "Int"}]]],
              [["AddColumn", "N", "q", {"type": "Ref:N"}]],
              [["BulkAddRecord", "N", [None, None], {"val": [5, 6], "q": [2, 1]}]],
              [["AddColumn", "N", "f", {"isFormula": True, "formula": "$q.val", "type": "Any"}]]],
    "rename": ["RenameColumn", "N", "val", "v2"], "ren": ["col", "N", "val", "v2"], "tables": ["N"],
    "formulas": [{"table": "N", "col": "f", "e": ["attr", ["dollar", "N", "q"], "N", "val"]}]}),
  (KNOWN_SHADOW,
   {"build": [[["AddTable", "Bb", [{"id": "n", "type": "Int"}]]],
              [["BulkAddRecord", "Bb", [None, None], {"n": [5, 6]}]],
              [["AddColumn", "Bb", "f", {"isFormula": True, "formula": "[$n for Bb in Bb.all]", "type": "Any"}]]],
    "rename": ["RenameTable", "Bb", "Cc"], "ren": ["tab", "Bb", "Cc"], "tables": ["Bb"],
    "formulas": [{"table": "Bb", "col": "f", "e": ["compr", ["dollar", "Bb", "n"], "Bb", ["all", "Bb"]]}]}),
  (KNOWN_RESERVED,
   {"build": [[["AddTable", "Bb", [{"id": "n", "type": "Int"}]]],
              [["BulkAddRecord", "Bb", [None, None], {"n": [5, 6]}]],
              [["AddColumn", "Bb", "f", {"isFormula": True, "formula": "Bb.lookupOne(n=6).n", "type": "Any"}]]],
    "rename": ["RenameColumn", "Bb", "n", "order_by"], "ren": ["col", "Bb", "n", "order_by"], "tables": ["Bb"],
    "formulas": [{"table": "Bb", "col": "f",
                  "e": ["attr", ["lookup", True, "Bb", ["kw", "Bb", "n", ["lit", 6], ["kwEnd", "Bb", None]]], "Bb", "n"]}]}),
  (KNOWN_FUNC2,
   {"build": [[["AddTable", "Bb", [{"id": "n", "type": "Int"}]]],
              [["BulkAddRecord", "Bb", [None, None], {"n": [5, 6]}]],
              [["AddColumn", "Bb", "f", {"isFormula": True, "formula": "IF(($n<6),1,2)", "type": "Any"}]]],
    "rename": ["RenameTable", "Bb", "iF"], "ren": ["tab", "Bb", "IF"], "tables": ["Bb"],
    "formulas": [{"table": "Bb", "col": "f",
                  "e": ["if", ["binop", "<", ["dollar", "Bb", "n"], ["lit", 6]], ["lit", 1], ["lit", 2]]}]}),
  (KNOWN_ORDER,
   {"build": [[["AddTable", "Cc", [{"id": "val", "type": "Int"}]]],
              [["AddTable", "Aab", [{"id": "s", "type": "Text"}, {"id": "rr", "type": "Ref:Cc"}]]],
              [["BulkAddRecord", "Cc", [None] * 4, {"val": [0, 0, 1, 0]}]],
              [["BulkAddRecord", "Aab", [None, None], {"rr": [4, 3], "s": ["", "n"]}]],
              [["AddColumn", "Cc", "f", {"isFormula": True, "formula": "Aab.lookupOne(order_by=\"rr\").s", "type": "Any"}]]],
    "rename": ["RenameTable", "Cc", "C"], "ren": ["tab", "Cc", "C"], "tables": ["Cc", "Aab"],
    "refcols": [["Aab", "rr", "Cc"]],
    "formulas": [{"table": "Cc", "col": "f",
                  "e": ["attr", ["lookup", True, "Aab", ["kwEnd", "Aab", {"items": [[False, "rr"]], "tuple": False, "sq": False}]],
                        "Aab", "s"]}]}),
]


def witness(ck):
  for sig, rp in WITNESSES:
    rp = copy.deepcopy(rp)
    for f in rp["formulas"]:
      f["triv"] = spaced(f["e"])
    rp.update({"seed": "witness", "step": 0})
    bad = replay_one(rp, verbose=False)
    ck.evaluated()
    ck.count("finding_witness_reproduced" if bad and bad[0] == sig else "finding_witness_not_reproduced")
    if bad:
      ck.violation(bad[0], bad[1], rp)


def replay_one(r, verbose=True):
  """Re-run a recorded rename on the real engine and evaluate clauses (i) and (ii)."""
  from gx import engine_driver as ed
  doc = ed.Doc()
  for b in r["build"]:
    if b == [["InitNewDoc"]]:
      continue
    res = doc.apply(b)
    if not res.ok:
      raise RuntimeError("replay: %r rejected: %r" % (b, res.error))
  tables = r["tables"]
  before = doc.snapshot(tables=tables)
  meta_b = {}
  byid = {x["id"]: x["tableId"] for x in doc.meta("_grist_Tables")}
  for x in doc.meta("_grist_Tables_column"):
    meta_b[(byid.get(x["parentId"]), x["colId"])] = x["formula"]
  ua = r["rename"]
  res = doc.apply([ua])
  if not res.ok:
    print("replay: rename rejected %r" % (res.error,))
    return None
  ren = r["ren"]
  # the new id the engine picks now
  byid = {x["id"]: x["tableId"] for x in doc.meta("_grist_Tables")}
  if ren[0] == "col":
    cands = [s[3] for s in res.raw_stored if s[0] == "RenameColumn" and s[1] == ren[1] and s[2] == ren[2]]
    newid = cands[0] if cands else ren[2]
    ren = ["col", ren[1], ren[2], newid]
  else:
    cands = [s[2] for s in res.raw_stored if s[0] == "RenameTable" and s[1] == ren[1]]
    newid = cands[0] if cands else ren[1]
    ren = ["tab", ren[1], newid]
  after = doc.snapshot(tables=[ren_tab(ren, t) for t in tables])
  meta_a = {}
  for x in doc.meta("_grist_Tables_column"):
    meta_a[(byid.get(x["parentId"]), x["colId"])] = x["formula"]
  for f in r["formulas"]:
    pieces, _ = pieces_of(f["e"])
    text = render(pieces, f["triv"])
    if meta_b.get((f["table"], f["col"])) != text:
      raise RuntimeError("replay: stored formula %r differs from recorded %r" % (meta_b.get((f["table"], f["col"])), text))
  verdict, _ = judge(ren, newid, ua, r["formulas"], meta_a, before, after, tables, r.get("refcols", ()))
  if verbose:
    print("replay: %r -> new id %r: %s" % (ua, newid, "property holds" if verdict is None else "%s: %s" % verdict))
  return verdict


def replay(ck, rp):
  r = rp["replay"]
  ck.evaluated()
  if r.get("summary_family"):
    from gx import common, engine_driver as ed
    doc = ed.Doc()
    for b in r["history"][:-1]:
      doc.apply(b)
    before = _by_ref(doc)
    res = doc.apply(r["history"][-1])
    print("replay: rename %r ok=%s" % (r["history"][-1], res.ok))
    if res.ok:
      _judge_summary_rename(ck, doc, before, r["key"], r["old"], r["history"][-1][0], r)
  elif "build" in r:
    bad = replay_one(r)
    if bad:
      ck.violation(bad[0], bad[1], r)
    else:
      print("replay: property holds on this input")
  else:
    print("replay: correspondence record (no failing input): %s" % json.dumps(r)[:600])
  ck.nontrivial_case(r); ck.nontrivial_case("replay")
  ck.lean(["GristProps.C16"])
