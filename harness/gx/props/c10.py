"""
C10  Removing rows leaves no references to them.

Theorems: lean/GristProps/C10.lean about GristModel/Refs.lean
  inverse_map_exact(_from)  the reverse index equals {(t, r) | t in refs(cell r)} after ANY sequence of column
                            operations (set / unset / copy_from_column / clear-when-empty), and none of them raises
  remove_clears_refs        on an exact index the computed updates leave no reference to a removed row; RefList =
                            old list filtered (order kept) / None when empty; Ref = 0
  remove_frame              every other cell (wrong-typed ones included) is unchanged, the index stays exact
Tie (model vs real code, harness/gx/refs_oracle.py):
  * every live reference column's logged operations (real BaseReferenceColumn.set / copy_from_column / clear calls)
    are replayed through the model; data and inverse_map (keys in insertion order, empty sets included) must agree;
  * every real call of get_updates_for_removed_target_rows during the histories is re-computed by the model.
  * exhaustive small scope (3-row columns x removal sets): the real get_updates_for_removed_target_rows driven
    directly (real ReferenceRelation, real column methods on a stand-in object) vs the model vs the clauses
    (no reference left, RefList order/None, frame).
Search (direct oracle on the real engine, after every successful bundle):
  * rows present before and absent after, per table, by ANY means (record removal, table removal, auto-removal of
    summary rows, cascades in metadata, ReplaceTableData); every data Ref/RefList cell of every table, metadata
    tables included (column types from the engine's schema), must not refer to them;
  * RefList cells that held removed ids equal the old list without them, in order, None when empty (checked where
    the bundle does not itself write that column);
  * each real col._relation.inverse_map equals the index recomputed from the cells.

Interpretation.  "Still points at a removed row" = the reference was in the cell before the bundle, or was
written by an action of the bundle that precedes the removal.  A request that stores the id of an already removed
(or never existing) row is a supported dangling reference, not a left-over (counted, not flagged).  Rows whose id
is present again at the end of the bundle were not removed.  ApplyUndoActions/ApplyDocActions bundles are raw doc
actions: only references already present before are demanded to vanish.
ReplaceTableData dropping referenced rows is reported as a finding of its own signature (the statement says "by
any means", its list of means does not name it).
"""
from gx.props import _hist

PROP = "C10"
PROFILE = {
  # raw doc actions replayed against a document that has moved on are outside this property's histories
  "stale_undo": 0,
  "add_record": 6, "bulk_add": 3, "update_record": 7, "bulk_update": 4, "remove_record": 10, "bulk_remove": 7,
  "replace_data": 0.4, "add_column": 1, "add_formula_column": 1.5, "remove_column": 2, "rename_column": 1,
  "modify_type": 2.5, "modify_formula": 0.5, "to_formula": 0.3, "to_data": 0.3, "label_change": 0.3,
  "add_table": 1, "remove_table": 2, "rename_table": 1, "duplicate_table": 0.4,
  "summary": 2.5, "update_summary": 1, "detach_summary": 0.3, "add_ref_column": 3, "reverse_column": 2,
  "rename_choices": 0, "display_formula": 1, "add_rule": 0.3, "remove_view_stuff": 3, "upsert": 1,
  "undo_earlier": 2, "malformed": 1, "temp_ids": 3,
  "ref_bulk_update": 6, "ref_pair_update": 3, "remove_referenced": 10, "remove_ref_side": 0.7, "unlink": 0.3,
  "add_dangling_id": 0.5,
}
CFG = {"oracles": ("failed",), "n_bundles": 16, "tie": False, "hook": "gx.refs_oracle.install",
       "refs_oracles": ("c10",), "profile": PROFILE}
SCENARIOS = ("c10-clean", "c10-replace-table-data")


def run(ck):
  from gx import refs_oracle as ro
  ck.rule = ("seeded removal-heavy histories (16 generated bundles after a set-up that creates reference columns "
             "between and within tables and linked pairs; summary tables, type changes, table removal come from the "
             "history) + scripted scenarios + exhaustive 3-row columns x removal sets for the clean-up function; every "
             "successful bundle is checked; non-trivial = a bundle that removed at least one row which some data "
             "Ref/RefList cell referred to before (distinct by the bundle's user actions), or a small-scope case whose "
             "column refers to a removed row")
  ck.assumptions = [
    "row ids and stored reference ids are non-negative (negative = unresolved temporary ids are rejected by the "
    "engine before reaching a column); columns holding a negative id are skipped by the model tie and counted",
    "BaseColumn.clear is only called when no cell of the column refers to anything (load_table after unsetting "
    "the old rows): hypothesis RunOk of inverse_map_exact; the per-bundle index oracle checks its consequence",
    "the clean-up itself is proved per column; the engine-level cascade (which columns are visited, user-action "
    "path for metadata tables) is covered by the direct oracle only",
  ]
  ck.lean(["GristProps.C10"])
  for name in SCENARIOS:
    h = ro.run_scenario(name, ("c10",))
    ck.evaluated(len(h.bundles))
    ck.count("scripted_scenarios")
    ro.report_scripted(ck, PROP, name, h)
    for rec in h.bundles:
      if rec.get("nontrivial"):
        ck.nontrivial_case(rec["actions"])
        ck.sample({"scenario": name, "actions": rec["actions"], "stored": (rec["res"].stored or [])[:5]})
  ro.c10_scope(ck)
  merged = _hist.run_histories(ck, CFG, n_quick=48, n_thorough=1600)
  _hist.report(ck, merged, PROP, ())
  ro.report_ties(ck, merged, PROP)
  st = merged["stats"]
  for k in sorted(st):
    if k.startswith("c10_") or k.startswith("tie_"):
      ck.cov["counters"][k] = st[k]
  ck.extra["traces_validated_against_impl"] = sum(v for k, v in st.items() if k.startswith("tie_") and "skipped" not in k)


def replay(ck, rp):
  from gx import refs_oracle as ro
  ck.lean(["GristProps.C10"])
  if "component" in rp.get("replay", {}):
    ro.replay_component_c10(ck, rp["replay"])
  else:
    ro.replay_history(ck, rp, PROP, ("c10",))
