"""
C01  Undo restores the exact prior document

Theorems: GristProps/C01.lean (single-action undo for every doc action, list lifting, rollback algebra)
about GristModel/Doc.lean + Engine.lean.  Tie: step word of every bundle replayed through the model;
model stored/undo/direct and document == engine's.  Search: ApplyUndoActions(undo) on the real engine,
all tables (metadata included) compared with the snapshot taken before the bundle.
"""
from gx.props import _hist

PROP = "C01"
CFG = {"oracles": ('undo', 'replica', 'schema', 'redo'), "n_bundles": 12}
TIE_KINDS = ('undo', 'doc-M', 'model-note', 'calc-before', 'driver')


def run(ck):
  ck.rule = 'seeded histories (12 generated bundles each, every successful bundle also undone and redone on the real engine); non-trivial = bundle with >=2 stored actions of >=2 kinds and >=2 undo entries; distinct by user actions'
  ck.assumptions = ['user formulas are deterministic programs over the cells they read (generator emits only such formulas)', 'private / virtual columns (#lookup, #summary helpers) are not communicated and not modelled', 'documents compare by canonical encodings (equal_encoding): 1 and 1.0 are the same stored value, True and 1 are not']
  ck.lean(['GristProps.C01'])
  merged = _hist.run_histories(ck, CFG, n_quick=20, n_thorough=1600)
  post(ck, merged)
  _hist.report(ck, merged, PROP, TIE_KINDS)


def post(ck, merged):
  pass


def replay(ck, rp):
  ck.lean(['GristProps.C01'])
  _hist.replay_history(ck, rp, PROP, CFG["oracles"])
