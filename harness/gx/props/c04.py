"""
C04  Failed bundles leave no trace.

Theorems: GristProps/C04.lean (rollback_restores: replaying undo[cp:] reversed returns the document
and truncates stored/direct/undo/ret to the checkpoint, for every accepted word) about
GristModel/Engine.lean.
Tie: every bundle, including every faulted run, is replayed through the model: the rollback must
replay exactly undo[cp:] reversed, and afterwards model lists are empty and model document ==
engine document.
Fault model (fault enumeration on the real engine): for each generated bundle, re-run it with an
exception injected at site k = 0,1,2,... where sites are (a) entry of every doc action performed
through UserActions._do_doc_action, (b) exit of every such doc action (= a failure in the code
that follows a completed doc action), (c) entry of every Engine.rebuild_usercode during the
bundle; plus (e) natural failures from the malformed stream (validation errors, a later action
failing after earlier ones succeeded).  All sites of the first 10, then every third.  Not a site:
between two cell writes inside one record action.
Search: after the exception all tables equal the pre-call snapshot, Engine.schema equals the
metadata, and a following Calculate emits nothing.
"""
from gx.props import _hist

PROP = "C04"
CFG = {"oracles": ("faults", "failed", "schema", "replica"), "n_bundles": 8,
       "profile": {"malformed": 10, "summary": 3, "replace_data": 2, "undo_earlier": 1}}
TIE_KINDS = ("rollback-lists", "model-note", "doc-M", "driver")
LEVEL = "proof"


def run(ck):
  ck.rule = ("seeded histories (8 generated bundles each); every bundle is re-run once per fault site before its real "
             "application; non-trivial = a faulted or naturally failing run whose step word contains at least one "
             "completed doc action before the failure (so the rollback had something to revert); distinct by "
             "(user actions, site)")
  ck.assumptions = [
    "fault sites: entry/exit of doc actions and entry of rebuild_usercode; no site between two cell writes of one record action",
    "faults swallowed by the engine (inside formula evaluation) do not make the bundle raise and are outside the premise",
  ]
  ck.lean(["GristProps.C04"])
  merged = _hist.run_histories(ck, CFG, n_quick=12, n_thorough=800)
  st = merged["stats"]
  ck.extra["fault_enumeration"] = {"faulted_runs": st.get("faulted_runs", 0),
                                   "faults_swallowed": st.get("faults_swallowed", 0),
                                   "natural_rejections": st.get("rejected", 0)}
  _hist.report(ck, merged, PROP, TIE_KINDS)
  ck.evaluated(st.get("faulted_runs", 0))


def replay(ck, rp):
  from gx import engine_driver as ed
  from gx import common
  import random
  ck.lean(["GristProps.C04"])
  common.setup_repo_path()
  from gx.hist_run import HistoryRun
  r = rp["replay"]
  hist, idx, fault = r["history"], r.get("bundle_index", len(r["history"]) - 1), r.get("fault")
  h = HistoryRun(random.Random(0), n_bundles=0, oracles=CFG["oracles"])
  faults = r.get("faults", {})
  for i, b in enumerate(hist[:idx]):
    if str(i) in faults:
      ed.REC.fault = ed.FaultAt(faults[str(i)])
    try:
      h._raw(b)
    finally:
      ed.REC.fault = None
  before, sb = h.doc.snapshot(), h.doc.engine_schema()
  if fault:
    ed.REC.fault = ed.FaultAt(fault[0])
  try:
    res = h._raw(hist[idx])
  finally:
    ed.REC.fault = None
  rec = {"actions": hist[idx], "kinds": ["replay"], "res": res, "before": before, "log_index": len(h.log) - 1}
  if not res.ok:
    h._o_failed(rec, before, sb, fault=fault)
  for f in h.findings:
    print("replay finding:", f[0], f[1], f[2][:300])
    if f[0] == PROP:
      ck.violation(f[1], f[2], {"history": hist, "bundle_index": idx, "fault": fault})
  if not h.findings:
    print("replay: bundle %s; property holds" % ("rejected" if not res.ok else "succeeded"))
  ck.evaluated(); ck.nontrivial_case("replay"); ck.nontrivial_case("replay2")
