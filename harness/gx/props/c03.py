"""
C03  Redo after undo reproduces the post-bundle state

Theorems: GristProps/C03.lean (redo_after_undo from C01 + C02).  Tie: as C01/C02 (undo and redo bundles are
themselves step words replayed through the model).  Search: undo then ApplyDocActions(stored) on the real engine.
"""
from gx.props import _hist

PROP = "C03"
CFG = {"oracles": ('undo', 'redo', 'replica'), "n_bundles": 12}
TIE_KINDS = ('stored', 'undo', 'doc-M', 'driver')


def run(ck):
  ck.rule = 'seeded histories; for every successful bundle: undo, then ApplyDocActions(stored), compare with the post-bundle snapshot; non-trivial as C01'
  ck.assumptions = ['user formulas are deterministic programs over the cells they read (generator emits only such formulas)', 'private / virtual columns (#lookup, #summary helpers) are not communicated and not modelled', 'documents compare by canonical encodings (equal_encoding): 1 and 1.0 are the same stored value, True and 1 are not']
  ck.lean(['GristProps.C03'])
  merged = _hist.run_histories(ck, CFG, n_quick=20, n_thorough=1600)
  post(ck, merged)
  _hist.report(ck, merged, PROP, TIE_KINDS)


def post(ck, merged):
  pass


def replay(ck, rp):
  ck.lean(['GristProps.C03'])
  _hist.replay_history(ck, rp, PROP, CFG["oracles"])
