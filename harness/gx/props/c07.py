"""
C07  Reopening a saved document changes nothing.

The procedure the property prescribes, as implemented here (`save_cell` / `load_table_data`):
  * every table is fetched from the running engine with formulas=True (stored formula values
    included); each cell is encoded as in the engine's replies: `objtypes.encode_object(cell)`;
  * a SCALAR encoding (None, bool, int, float, str) is stored as itself; a COMPOUND encoding (a list
    such as ['d', ts], ['L', ...], ['E', ...]) is stored as a marshalled blob
    `marshal.dumps(encoding, 2)` (bytes), the way DocStorage keeps non-primitive values; the whole
    value additionally passes through marshal.dumps/loads (the transport);
  * it is decoded the way `main.load_table` decodes database values: `main._decode_db_value`
    (bytes -> `objtypes.decode_object(marshal.loads(blob))`, anything else as is);
  * a NEW engine gets `load_meta_tables(_grist_Tables, _grist_Tables_column)` first, then
    `load_table` for every other table, then the `Calculate` user action.
Oracle: `Calculate` stores no action and the reloaded engine's `snapshot()` equals the original's
(cells that differ only in int-vs-float are the known C01/C03 drift finding and are counted, not
re-filed).  Node-side number typing is excluded as the property says: ints stay ints, floats floats.
Volatile formulas and trigger columns are not generated.

Which comparison decides whether Calculate emits an action: `_recompute_step` records a change when
`not strict_equal(new, previous)`; `_changes_to_actions` then drops changes with
`equal_encoding(before, after)`.  An action needs both to say "different", so `equal_encoding` of
(reloaded cell, recomputed value) decides; the theorems (lean/GristProps/C07.lean) are about it.

Value level: for every column type (real column objects of a live engine) and every value of the C22
tables: c = column.convert(v); column.set; save; load; column.set; equal_encoding(loaded, c) must
hold; the same pipeline in the model (driver op "reload") must agree on every intermediate value.
Document level: formula-heavy seeded histories; after every successful bundle the document is
saved and reloaded as above.
"""
import json
import re
import marshal
import os

from gx import pyval
from gx.pyval import Ctx, Ser, build, strip, NotInUniverse
from gx.props import _hist

PROP = "C07"
SIG_NEGREF = ("reload: a reference holding a NEGATIVE row id (left behind by a type change of a column that held negative "
              "numbers) is followed as row -k by the running engine and as the empty reference by the reopened one")
SIG_NAN = "reload: a NaN nested inside a list/dict cell makes equal_encoding fail, Calculate re-emits the cell on every reopening"
def sig_reparse(t):
  return "reload: %s cell text that the column's set() parses again differs from the recomputed text" % t.split(":")[0]
SIG_STALE = "reopened document differs because the running engine held a stale formula value (its data recalculated from scratch differs too: a C05 defect, not a reload defect)"
SIG_DOC_NAN = "reopened document: Calculate stores an action for a formula cell holding a NaN inside a list"

PROFILE = {"add_formula_column": 10, "modify_formula": 6, "summary": 4, "update_summary": 1.5, "add_ref_column": 4,
           "reverse_column": 1, "update_record": 18, "bulk_update": 8, "remove_record": 8, "bulk_remove": 4,
           "replace_data": 2, "rename_column": 4, "modify_type": 5, "to_formula": 2, "to_data": 1,
           "undo_earlier": 3, "malformed": 2, "trigger_column": 0, "trigger_config": 0, "unhashable_key": 5,
           "retype_empty": 6, "add_empty_column": 3, "ref_reach_retype": 8,
           # an OLD undo list replayed on a document that has moved on is a raw application of doc actions: it can
           # remove a table under its summary table or a column under its references (a document violating C09);
           # such documents are outside this property's histories, as for C09 / C10 / C11 / C12
           "stale_undo": 0}
CFG = {"oracles": (), "n_bundles": 14, "profile": PROFILE, "hook": "gx.props.c07.install", "tie": False}


# ------------------------------------------------------------------------------ the serialiser
def save_cell(v):
  """cell value -> what the database holds (see the module docstring)"""
  import objtypes
  e = objtypes.encode_object(v)
  if isinstance(e, (list, tuple, dict)):
    stored = marshal.dumps(e, 2)          # compound: a blob
  else:
    stored = e                            # scalar: itself
  return marshal.loads(marshal.dumps(stored, 2))     # the transport

def load_cell(stored):
  import main
  return main._decode_db_value(stored)

def load_table_data(td):
  import actions
  cols = {c: [load_cell(save_cell(v)) for v in vals] for c, vals in td.columns.items()}
  return actions.TableData(td.table_id, list(td.row_ids), cols)

def reopen(doc):
  """A new engine loaded from what `doc` reports.  Returns (Doc-like, result of Calculate)."""
  from gx import engine_driver as ed
  import engine as engine_mod
  src = doc.engine
  d2 = ed.Doc.__new__(ed.Doc)
  ed.install_wrappers()
  d2.engine = engine_mod.Engine()
  d2.history = []
  mt = load_table_data(src.fetch_table('_grist_Tables', formulas=True))
  mc = load_table_data(src.fetch_table('_grist_Tables_column', formulas=True))
  d2.engine.load_meta_tables(mt, mc)
  for tid in sorted(src.tables):
    if tid in ('_grist_Tables', '_grist_Tables_column'):
      continue
    d2.engine.load_table(load_table_data(src.fetch_table(tid, formulas=True)))
  res = d2.apply([["Calculate"]], record=False)
  return d2, res


# ------------------------------------------------------------------------------ value level
def tau_json(t):
  t0 = t.split(":")[0]
  if t0 == "RefList": return {"refList": "T1"}
  return t0

def has_nested_nan(e, top=True):
  if type(e) is float:
    return (not top) and e != e
  if type(e) in (list, tuple):
    return any(has_nested_nan(x, False) for x in e)
  if type(e) is dict:
    return any(has_nested_nan(x, False) for x in e.values())
  return False

def _short(v):
  try:
    return repr(v)[:70]
  except Exception:
    return "<%s>" % type(v).__name__

def eval_value(case):
  """(type, spec, hostile) -> outcome dict"""
  import objtypes
  t, spec, hostile = case
  ctx = Ctx(pyval.ZONES[0])
  col = ctx.engine.tables['V'].get_column('c_' + t.split(":")[0])
  v = build(spec, ctx)
  out = {"case": [t, spec], "bad": [], "op": None}
  ser = Ser(ctx)
  jv = None
  if not hostile:
    try:
      jv = ser.val(v)
    except NotInUniverse as e:
      out["skip"] = str(e)
  try:
    c = col.convert(v)
    col.set(1, c)
    s = col.raw_get(1)
  except BaseException as e:
    out["skip"] = "column.convert/set raises %s" % type(e).__name__
    return out
  try:
    stored = save_cell(s)
  except Exception as e:
    out["unsavable"] = type(e).__name__      # C24's marshal finding (str-subclass key)
    return out
  try:
    dv = load_cell(stored)
    col.set(2, dv)
    x = col.raw_get(2)
    eq = bool(objtypes.equal_encoding(x, c))
  except BaseException as e:
    out["bad"].append(("reload: loading a saved %s cell raises %s" % (t.split(":")[0], type(e).__name__),
                       "%s value %s" % (t, _short(v)), {"type": t, "spec": spec}))
    return out
  finally:
    col.set(1, col.getdefault()); col.set(2, col.getdefault())
  out["stored_changed"] = s is not v
  out["compound"] = isinstance(stored, bytes)
  if not eq:
    e = objtypes.encode_object(c)
    if has_nested_nan(e) or has_nested_nan(objtypes.encode_object(x)):
      sig = SIG_NAN
    elif t.split(":")[0] in ("RefList", "Attachments", "ChoiceList") and isinstance(c, str) and not isinstance(s, str):
      sig = sig_reparse(t)
    else:
      sig = "reload: %s cell differs from the recomputed value (%s)" % (t.split(":")[0], type(c).__name__)
    out["bad"].append((sig, "%s column, formula result %s: kept as %s, reloaded as %s, recomputed %s: equal_encoding is False"
                       % (t, _short(v), _short(s), _short(x), _short(c)), {"type": t, "spec": spec}))
  import records
  if isinstance(v, records.Record) and v._row_id and v.id != v._row_id:
    out["skip"] = "Record of a missing row (its .id is 0; the model assumes records exist)"
    jv = None
  if jv is not None:
    try:
      real = {"c": strip(ser.val(c)), "s": strip(ser.val(s)), "e": ser.enc(objtypes.encode_object(s)),
              "x": strip(ser.val(x)), "eq": eq}
    except NotInUniverse as e:
      out["skip"] = "result: %s" % e
      return out
    out["op"] = {"m": "pyval", "op": "reload", "tau": tau_json(t), "v": jv,
                 "prim": pyval.prim_tables(ser, encs=[objtypes.encode_object(s)])}
    out["real"] = real
  return out

def compare(mo, real):
  if "error" in mo:
    return "model error: %s" % mo["error"]
  from gx.props.c24 import mask_addr
  for k in ("c", "s", "x"):
    a = strip(mo[k])
    if a != real[k] and mask_addr(a) != mask_addr(real[k]):
      return "%s differs: model %s real %s" % (k, json.dumps(a)[:260], json.dumps(real[k])[:260])
  if mo["e"] != real["e"] and mask_addr(mo["e"]) != mask_addr(real["e"]):
    return "e differs: model %s real %s" % (json.dumps(mo["e"])[:260], json.dumps(real["e"])[:260])
  if mo["eq"] != real["eq"]:
    return "equal_encoding differs: model %r real %r" % (mo["eq"], real["eq"])
  return None

def value_cases(ck):
  rng = ck.rng
  atoms = pyval.atom_table()
  conts = pyval.container_table()
  quick = ck.tier == "quick"
  out = []
  for t in pyval.V_TYPES:
    for spec in atoms + conts:
      if quick and rng.random() < 0.65:
        continue
      out.append((t, spec, False))
  n = 800 if quick else 40000
  pool = atoms + conts
  for _ in range(n):
    spec = pyval.random_spec(rng, pool)
    out.append((rng.choice(pyval.V_TYPES), spec, pyval.is_hostile(spec)))
  return out

def value_level(ck):
  allc = value_cases(ck)
  mism = None
  pool = None
  if ck.tier != "quick":
    import multiprocessing
    pool = multiprocessing.get_context("fork").Pool(min(6, os.cpu_count() or 1))
  try:
    B = 4000
    for b0 in range(0, len(allc), B):
      batch = allc[b0:b0 + B]
      results = pool.map(eval_value, batch, chunksize=50) if pool else [eval_value(c) for c in batch]
      ops, idx = [], []
      for i, r in enumerate(results):
        ck.evaluated()
        ck.count("values")
        if r.get("skip"): ck.count("values_outside_model")
        if r.get("unsavable"): ck.count("values_unsavable_(C24_finding)")
        if r.get("compound"):
          ck.nontrivial_case(r["case"])
          ck.sample({"type": r["case"][0], "value": r["case"][1]})
        for sig, detail, rp in r["bad"]:
          ck.violation(sig, detail, rp)
        if r["op"] is not None:
          ops.append(r["op"]); idx.append(i)
      model = ck.driver(ops)
      for i, mo in zip(idx, model):
        ck.count("values_tied_to_model")
        d = compare(mo, results[i]["real"])
        if d:
          ck.count("model_impl_disagreements")
          if mism is None:
            mism = {"type": results[i]["case"][0], "spec": results[i]["case"][1], "diff": d}
  finally:
    if pool:
      pool.close(); pool.join()
  return mism


# ------------------------------------------------------------------------------ document level
def install(h, cfg):
  h.extra_oracles.append(reopen_oracle)

def stale_in_original(doc, snap):
  """C05's comparison: does a fresh engine loaded from the DATA columns only (everything
  recalculated from scratch) differ from the running engine?  Returns (stale, known): `known` is true
  when the difference is one of C05's RECORDED classes (lookup on a removed key column, order
  dependence inside a lookup cycle); only those are attributed to the recorded finding."""
  from gx import engine_driver as ed
  from gx.hist_run import circ_order_only, stale_lookup_only
  try:
    fresh, res = ed.fresh_engine_from(doc)
    if not res.ok:
      return True, False
    d = ed.diff_snapshots(snap, fresh.snapshot())
    return bool(d), bool(d) and (circ_order_only(doc, d) or stale_lookup_only(doc, d))
  except Exception:
    return False, False


def reopen_oracle(h, rec):
  from gx import engine_driver as ed
  doc = h.doc
  try:
    fresh, res = reopen(doc)
  except Exception as e:
    sig = "reopened document cannot be loaded: " + type(e).__name__
    if type(e).__name__ == "ValueError" and "unmarshallable" in str(e):
      h.stats["unsavable_docs"] = h.stats.get("unsavable_docs", 0) + 1
      return
    h._find(PROP, sig, str(e)[:200], rec)
    return
  h.stats["reopens"] = h.stats.get("reopens", 0) + 1
  if not res.ok:
    h._find(PROP, "Calculate fails on the reopened document: " + res.error[0], res.error[1], rec)
    return
  acts = "+".join(sorted(set(a[0] for a in rec["actions"])))
  a, b = doc.snapshot(), fresh.snapshot()
  d = ed.diff_snapshots(a, b)
  stale, known = stale_in_original(doc, a) if (res.stored or d) else (False, False)
  if stale and known:
    # not a reload problem: the running engine itself holds a value that a from-scratch
    # recalculation of the same data does not produce, in one of the ways recorded for C05
    h._find(PROP, SIG_STALE, "%s; Calculate stored %s" % ("; ".join(d[:2]), json.dumps(res.stored)[:200]), rec)
    return
  # a formula result whose encoding embeds a memory address (["U", "<built-in method count of tuple object at
  # 0x7f...>"], e.g. `$choices.count` without the call) differs on every evaluation: a volatile formula, which the
  # property excludes
  if res.stored and all(" at 0x" in json.dumps(a_) for a_ in res.stored) and all(" at 0x" in x for x in d):
    h.stats["volatile_repr_results_skipped"] = h.stats.get("volatile_repr_results_skipped", 0) + 1
    return
  negref = re.compile(r'\[\\?"R\\?", \\?"\w+\\?", -\d+\]')
  from gx.hist_run import decoded_error_only, DECODED_ERROR_SIG
  if d and decoded_error_only(d):
    h._find(PROP, DECODED_ERROR_SIG % "reload", "%s; Calculate stored %s" % ("; ".join(d[:2]), json.dumps(res.stored)[:200]), rec)
    return
  if d and all(negref.search(x) for x in d):
    h._find(PROP, SIG_NEGREF, "%s; Calculate stored %s" % ("; ".join(d[:2]), json.dumps(res.stored)[:200]), rec)
    return
  if res.stored:
    nan = any("nan" in json.dumps(a) for a in res.stored)
    h._find(PROP, SIG_DOC_NAN if nan else "reopened document: Calculate stores actions (after %s)" % acts,
            json.dumps(res.stored)[:400], rec)
  if d:
    h._find(PROP, "reopened document reports different data (after %s)" % acts,
            "; ".join(d[:3]) + " (first=original, second=reopened)", rec)
  elif a != b:
    h.stats["numeric_drift_only"] = h.stats.get("numeric_drift_only", 0) + len(ed.numeric_drift(a, b))
  st = rec["res"].steps or []
  if any(s[0] == "calc" for s in st):
    rec["nontrivial"] = True


def run(ck):
  ck.rule = ("value level: 12 column types (real column objects) x the C22 adversarial value tables + random compositions through "
             "convert / set / encode / marshal / _decode_db_value / set / equal_encoding, tied to the model step by step; non-trivial = "
             "cell saved as a marshalled blob. document level: formula-heavy seeded histories (references, lookups, summaries, type "
             "changes, renames, undo), the document is saved and reopened after EVERY successful bundle; non-trivial = bundle "
             "that produced calc deltas; distinct by user actions")
  ck.assumptions = [
    "the save/load procedure is the one in this file's docstring (scalars as themselves, compound encodings as marshalled blobs, "
    "main._decode_db_value on load); Node-side number typing is excluded by the property",
    "the generator emits deterministic formulas only; no NOW/TODAY/random/REQUEST; no trigger-formula columns",
    "model parameters (float(), repr, json.loads, iso8601, str()/repr() of compound values, ts_to_dt on decode) computed with the real primitives",
    "documents whose cells cannot be marshalled at all (C24's str-subclass-key finding) cannot be saved and are skipped",
    "int-vs-float drift between original and reopened document is the recorded C01/C03 finding (counted as numeric_drift_only)",
  ]
  ck.lean(["GristProps.C07"])
  mism = value_level(ck)
  if mism and not ck.has_impl_violation():
    ck.broken("correspondence column convert/set/encode/decode vs Grist.PyVal.reloadCell",
              "model and implementation differ and the property's clauses hold (up to known findings) on all explored inputs: %s"
              % mism["diff"], mism)
  replay_witnesses(ck)
  merged = _hist.run_histories(ck, CFG, n_quick=16, n_thorough=400)
  ck.extra["reopens"] = merged["stats"].get("reopens", 0)
  ck.extra["numeric_drift_only_cells"] = merged["stats"].get("numeric_drift_only", 0)
  _hist.report(ck, merged, PROP, ())


WITNESSES = [
  ("Any", ["list", [["float", "nan"]]], SIG_NAN),
  ("RefList:T1", ["str", "[2147483648]"], sig_reparse("RefList")),
]

def replay_witnesses(ck):
  for t, spec, sig in WITNESSES:
    r = eval_value((t, spec, False))
    ok = any(b[0] == sig for b in r["bad"])
    ck.obligations.append(("witness replays on real code: %s %s" % (t, json.dumps(spec)), ok,
                           "" if ok else "the Lean negation witness no longer fails on the real code; remove the known "
                           "finding and prove the full statement"))
    for s, detail, rp in r["bad"]:
      ck.violation(s, detail, rp)


def replay(ck, rp):
  r = rp["replay"] or {}
  ck.lean(["GristProps.C07"])
  if "spec" in r:
    res = eval_value((r["type"], r["spec"], False))
    ck.evaluated()
    print("replay: %s column, value %s -> %s" % (r["type"], json.dumps(r["spec"])[:120], [b[1][:200] for b in res["bad"]] or "property holds"))
    for sig, detail, rp2 in res["bad"]:
      ck.violation(sig, detail, rp2)
    if "diff" in r and res["op"] is not None:
      mo = ck.driver([res["op"]])[0]
      d = compare(mo, res["real"])
      print("replay: model vs implementation: %s" % (d or "agree"))
      if d and not res["bad"]:
        ck.broken("correspondence column convert/set/encode/decode vs Grist.PyVal.reloadCell", d, r)
    ck.nontrivial_case("replay"); ck.nontrivial_case("replay2")
    return
  if "history" in r:
    import random
    from gx import common
    common.setup_repo_path()
    from gx.hist_run import HistoryRun
    hist, idx = r["history"], r.get("bundle_index", len(r["history"]) - 1)
    h = HistoryRun(random.Random(0), n_bundles=0, oracles=())
    install(h, CFG)
    for b in hist[:idx]:
      h._raw(b)
    h.apply(hist[idx], ["replay"])
    for f in h.findings:
      print("replay finding:", f[0], f[1], f[2][:300])
      if f[0] == PROP:
        ck.violation(f[1], f[2], {"history": hist, "bundle_index": idx})
    if not h.findings:
      print("replay: property holds on this history")
    ck.evaluated(); ck.nontrivial_case("replay"); ck.nontrivial_case("replay2")
    return
  print("replay: nothing to replay (%s)" % (rp.get("broken") or rp.get("signature")))
