"""
C34  Time zone conversions round-trip.

Theorems: lean/GristProps/C34.lean about lean/GristModel/Zone.lean
  ts_roundtrip / ts_roundtrip_seconds   ZoneWF z -> dt_to_ts(ts_to_dt(ts)) = ts, every integer-ms instant
  local_offset_adjacent (+ wall_roundtrip, local_offset_in_use)   every local wall clock value and every
                                        favor_offset gets the offset of the period containing the assigned
                                        instant, or (skipped time) of the period right after it
  date_roundtrip_utc, civil_days_bijection   date -> ts -> date on CPython's _ymd2ord/_ord2ymd, all years
  date_roundtrip_zone_partial, date_roundtrip_zone_fails   zone-aware date clause: proved when no transition
                                        lies between UTC midnight and the result; REFUTED in general
  all_bundled_zones_wf, bundled_names_wf, bundled_zones_roundtrip   one `decide +kernel` obligation per distinct
                                        record of the CURRENT tzdata.data (lean/Generated/Zones*.lean, regenerated here)

Interpretation (fixed here, the check demands exactly this):
 * "timestamp in the supported range": a number of seconds such that the UTC datetime and the local datetime
   are representable by `datetime` (years 2..9998 used).  Integer seconds everywhere in that range; millisecond
   resolution only for |ts| < 2**32 s, where float seconds still carry exact microseconds.  Float rounding at
   microsecond resolution is out of scope.
 * clause 1: `moment.dt_to_ts(moment.ts_to_dt(ts, zone)) == ts` (exact float equality) for every bundled zone name.
 * clause 2: `moment.ts_to_date(moment.date_to_ts(d)) == d` for every `datetime.date` (this is the pair the
   engine uses for Date cells), and also with a time of day added.  With a zone (`date_to_ts(d, zone)`, used by
   DateTime columns) "back" is `ts_to_dt(ts, zone).date()`; the code looks the offset up at the UTC midnight
   instead of the local midnight, so this FAILS when a transition lies in between (e.g. Asia/Beirut 1920-03-28 ->
   1920-03-27 23:00).  That is a genuine defect of the unchanged tree, reported as a known finding with the
   specific signature SIG_DATE_ZONE; any other failure of the zone-aware date round trip is a violation.
 * clause 3: for a local datetime (naive + zone, or aware with a TzInfo favouring any offset) the offset returned
   by `utcoffset()` must be the offset of a period whose local range contains that wall clock value (1 candidate:
   normal, >=2: ambiguous), or, when no period contains it (skipped), the offset of the period just before or
   just after the gap.  The reference is computed from the raw tz records, independently of `moment.Zone`.

Tie: every probe is also answered by the Lean model (driver "zone") and compared (wall clock, favor_offset,
utcoffset, index, result, IndexError on malformed synthetic records injected into `moment.get_tz_data()`).
"""
import bisect
import datetime as D
import os

SIG_DATE_ZONE = "date_to_ts(date, zone): a zone transition lies between the UTC midnight and the returned instant"
SIG_DATE_ZONE_OTHER = "date_to_ts(date, zone) -> ts_to_dt(...).date() differs from the date with no transition in between"
SIG_TS = "ts -> ts_to_dt -> dt_to_ts does not return the timestamp"
SIG_WALL = "local datetime assigned an offset of no period adjacent to it"
SIG_DATE_UTC = "ts_to_date(date_to_ts(date)) differs from the date"
SIG_WF = "bundled zone record is not well formed (untils/offset_untils not increasing or overlapping jumps)"
SIG_DATA = "bundled tz data not expressible in the integer model (non-integral until/offset)"

EPOCH = D.datetime(1970, 1, 1)
DATE_EPOCH = D.date(1970, 1, 1)
MS_EXACT = (2 ** 32) * 1000          # |ts_ms| below which float seconds carry exact microseconds
MIN_MS = int((D.datetime(2, 1, 1) - EPOCH).total_seconds()) * 1000
MAX_MS = int((D.datetime(9998, 12, 31) - EPOCH).total_seconds()) * 1000

INTERESTING = ["UTC", "America/New_York", "Europe/London", "Europe/Dublin", "Asia/Beirut", "America/Santiago",
               "Pacific/Apia", "Australia/Lord_Howe", "Africa/Casablanca", "Antarctica/Troll", "America/St_Johns",
               "Asia/Kathmandu", "Pacific/Kiritimati", "America/Sao_Paulo", "Asia/Tehran", "Africa/Monrovia",
               "Europe/Amsterdam", "Asia/Gaza", "America/Havana", "Pacific/Chatham", "Africa/El_Aaiun"]


# ------------------------------------------------------------------------------------------- real code
def td_ms(td):
  if td is None:
    return None
  v = (td.days * 86400 + td.seconds) * 1000000 + td.microseconds
  if v % 1000:
    return ("frac", v)
  return v // 1000


def sec_arg(ts_ms, as_float):
  if ts_ms % 1000 == 0:
    s = ts_ms // 1000
    return float(s) if as_float else s
  return ts_ms / 1000.0


def real_ts(moment, zone, ts_ms, as_float=True):
  """ts -> dt -> ts on the real code.  Returns dict(wall, favor, off, back) (ms) or dict(error=..)."""
  ts = sec_arg(ts_ms, as_float)
  try:
    dt = moment.ts_to_dt(ts, zone)
    back = moment.dt_to_ts(dt)
  except IndexError:
    return {"error": "IndexError"}
  except OverflowError:
    return {"error": "OverflowError"}
  wall = td_ms(dt.replace(tzinfo=None) - EPOCH)
  fav = getattr(dt.tzinfo, "_favor_offset", None)
  return {"wall": wall, "favor": td_ms(fav), "off": td_ms(dt.utcoffset()), "back": back, "ts": ts}


def real_wall(moment, zone, wall_ms, favor_ms):
  """local wall clock (+ favor_offset) -> offset, ts on the real code."""
  try:
    naive = EPOCH + D.timedelta(milliseconds=wall_ms)
    if favor_ms is None:
      off = zone.dt_offset(naive)
      ts = moment.dt_to_ts(naive, zone)
    else:
      aware = naive.replace(tzinfo=zone.get_tzinfo(D.timedelta(milliseconds=favor_ms)))
      off = aware.utcoffset()
      ts = moment.dt_to_ts(aware)
  except IndexError:
    return {"error": "IndexError"}
  except OverflowError:
    return {"error": "OverflowError"}
  return {"off": td_ms(off), "ts": ts}


def real_date_zone(moment, zone, day):
  date = DATE_EPOCH + D.timedelta(days=day)
  try:
    ts = moment.date_to_ts(date, zone)
  except IndexError:
    return {"error": "IndexError"}
  except OverflowError:
    return {"error": "OverflowError"}
  try:
    dt = moment.ts_to_dt(ts, zone)
    off_mid = td_ms(zone.offset(day * 86400000))
    off_res = td_ms(zone.offset(ts * 1000))
  except (IndexError, OverflowError) as e:       # only possible on malformed synthetic records
    return {"ts": ts, "back": None, "wall": None, "off_mid": None, "off_res": None, "later_error": type(e).__name__}
  back = (dt.date() - DATE_EPOCH).days
  return {"ts": ts, "back": back, "wall": td_ms(dt.replace(tzinfo=None) - EPOCH), "off_mid": off_mid, "off_res": off_res}


# ------------------------------------------------------------------------------------------- reference (oracle)
class Ref(object):
  """Periods of a zone from the RAW record: period j has east offset e[j] and lasts [u[j-1], u[j])."""
  def __init__(self, us, os_):
    self.u = list(us)
    self.e = [-o * 1000 for o in os_]
    n = len(self.u)
    self.n = n
    self.ok = len(self.e) == n + 1
    if not self.ok:
      return
    self.lo = [None] + [self.u[j - 1] + self.e[j] for j in range(1, n + 1)]   # local start of period j
    self.hi = [self.u[j] + self.e[j] for j in range(n)] + [None]            # local end of period j
    self.sorted = all(self.hi[j] <= self.hi[j + 1] for j in range(n - 1)) and \
                  all(self.lo[j] <= self.lo[j + 1] for j in range(1, n))

  def covers(self, j, wall):
    return (self.lo[j] is None or self.lo[j] <= wall) and (self.hi[j] is None or wall < self.hi[j])

  def allowed(self, wall, window=True):
    """(kind, set of allowed east offsets) for a local wall clock value."""
    n = self.n
    if window and self.sorted:
      k = bisect.bisect_right(self.hi[:n], wall)
      js = range(max(0, k - 3), min(n, k + 3) + 1)
    else:
      js = range(0, n + 1)
    cands = [j for j in js if self.covers(j, wall)]
    if cands:
      return ("ambiguous" if len(cands) > 1 else "normal"), set(self.e[j] for j in cands)
    gaps = [j for j in js if j < n and self.hi[j] <= wall < self.lo[j + 1]]
    al = set()
    for j in gaps:
      al.add(self.e[j]); al.add(self.e[j + 1])
    return "skipped", al

  def offset_at(self, ts_ms):
    return self.e[bisect.bisect_right(self.u, ts_ms)]


# ------------------------------------------------------------------------------------------- probes
def zone_probes(rng, us, os_, tier, max_tr=None):
  e = [-o * 1000 for o in os_]
  n = len(us)
  tss, walls, days = set(), set(), set()
  idx = list(range(n))
  if max_tr is not None and n > max_tr:
    idx = sorted(set(rng.sample(idx, max_tr - 2)) | {0, n - 1})     # first and last transition always
  for j in idx:
    u = us[j]
    jump = e[j + 1] - e[j]
    aj = abs(jump)
    for d in (0, -1000, 1000, -1, 1, -3600000, 3600000, -7200000, 7200000, jump, -jump, jump - 1000,
              -jump - 1000, -jump + 1000, aj // 2, -(aj // 2), rng.randrange(-7200000, 7200001, 1000)):
      tss.add(u + d)
    for base in (u + e[j], u + e[j + 1]):
      wd = (0, -1000, 1000, -1, rng.choice([-3600000, 3600000]), rng.choice([7200000, -7200000]), aj // 2, -(aj // 2),
            rng.randrange(-7200000, 7200001, 1000))
      if tier == "quick":
        wd = (0, -1000, 1000, rng.choice([-3600000, 3600000, 7200000, -7200000, -1]), aj // 2, -(aj // 2),
              rng.randrange(-7200000, 7200001, 1000))
      for d in wd:
        walls.add(base + d)
    dd = u // 86400000
    for k in (-1, 0, 1, 2):
      days.add(dd + k)
  lo = (us[0] if n else 0) - 400 * 86400000
  hi = (us[-1] if n else 0) + 400 * 86400000
  nr = 30 if tier == "quick" else 120
  for _ in range(nr):
    t = rng.randrange(lo, hi)
    tss.add(t - t % 1000); tss.add(t)
    walls.add(rng.randrange(lo, hi))
    days.add(rng.randrange(lo, hi) // 86400000)
  for _ in range(nr // 3):
    t = rng.randrange(MIN_MS, MAX_MS)
    tss.add(t - t % 1000)
    walls.add(t - t % 1000)
    days.add(t // 86400000)
  tss = sorted(t for t in tss if MIN_MS <= t <= MAX_MS and (t % 1000 == 0 or abs(t) < MS_EXACT))
  walls = sorted(w for w in walls if MIN_MS <= w <= MAX_MS)
  days = sorted(d for d in days if MIN_MS + 2 * 86400000 <= d * 86400000 <= MAX_MS - 2 * 86400000)
  # favors for every wall: None, the offsets of the neighbouring periods, one offset the zone never uses
  wq = []
  for w in walls:
    k = bisect.bisect_right(us, w)
    fs = {None}
    if rng.random() < 0.3:
      fs.add(12345000)
    for j in (k - 1, k, k + 1):
      if 0 <= j < len(e):
        fs.add(e[j])
    for f in sorted(fs, key=lambda x: (x is None, x)):
      wq.append((w, f))
  return tss, wq, days


def eval_real(args):
  """Worker: evaluate all probes of one zone name on the real code (importable in a pool)."""
  name, tss, wq, days, fresh = args
  import moment
  zone = moment.Zone(name) if fresh else moment.get_zone(name)
  r_ts = [real_ts(moment, zone, t, as_float=(i % 2 == 0)) for i, t in enumerate(tss)]
  r_w = [real_wall(moment, zone, w, f) for (w, f) in wq]
  r_d = [real_date_zone(moment, zone, d) for d in days]
  return name, r_ts, r_w, r_d


def model_ops(us, os_, tss, wq, days):
  q = []
  for t in tss:
    q.append(["tsq", t])
  for (w, f) in wq:
    q.append(["wq", w, f])
  for d in days:
    q.append(["day2ts", d])
  q.append(["wf"])
  return {"m": "zone", "untils": list(us), "offsets": list(os_), "q": q}


def select_model(r, full, job):
  """Model answers for a sub-sample (alias name) picked out of the answers for the full probe list."""
  tss, wq, days = full
  pos = {}
  p = 0
  for t in tss:
    pos[("t", t)] = p; p += 1
  for x in wq:
    pos[("w", x)] = p; p += 1
  for d in days:
    pos[("d", d)] = p; p += 1
  out = [r[pos[("t", t)]] for t in job[1]] + [r[pos[("w", x)]] for x in job[2]] + [r[pos[("d", d)]] for d in job[3]]
  out.append(r[p])
  return out


def merr(x):
  return isinstance(x, dict) and "error" in x


# ------------------------------------------------------------------------------------------- checking one zone
def check_zone(ck, name, rec, tss, wq, days, real, model, st, bundled=True):
  us, os_ = rec
  _, r_ts, r_w, r_d = real
  mr = model["r"] if "r" in model else None
  if mr is None:
    st["mism"] = st["mism"] or {"zone": name, "model": model}
    ck.count("model_impl_disagreements")
    return
  ref = Ref(us, os_)
  p = 0

  def mismatch(what, inp, impl, mod):
    ck.count("model_impl_disagreements")
    if st["mism"] is None:
      st["mism"] = {"zone": name, "what": what, "input": inp, "impl": impl, "model": mod}

  # clause 1
  for t, r in zip(tss, r_ts):
    m_dt = mr[p]; p += 1
    m_rt = m_dt if merr(m_dt) else m_dt[2]
    ck.evaluated()
    if "error" in r:
      ck.count("real_" + r["error"])
      if r["error"] == "IndexError":
        if not (merr(m_dt) or merr(m_rt)):
          mismatch("ts2dt error", t, r, [m_dt, m_rt])
      continue
    if merr(m_dt):
      mismatch("ts2dt", t, r, m_dt)
    else:
      fav_ok = (r["favor"] is None and not us) or r["favor"] == m_dt[1]
      if m_dt[0] != r["wall"] or not fav_ok:
        mismatch("ts2dt", t, r, m_dt)
    want = r["ts"]
    if bundled:
      if not (r["back"] == want):
        ck.violation(SIG_TS, "zone %s ts=%r -> wall %r ms favor %r -> %r" % (name, want, r["wall"], r["favor"], r["back"]),
                     {"kind": "ts", "zone": name, "ts_ms": t, "as_float": isinstance(want, float)})
    if merr(m_rt) or m_rt != round(r["back"] * 1000):
      mismatch("dt_to_ts(ts_to_dt)", t, r, m_rt)
    if ref.ok and us:
      k = bisect.bisect_right(us, t)
      near = min(abs(t - u) for u in us[max(0, k - 1):k + 1])
      if near <= 7200000:
        ck.count("ts_within_2h_of_transition")
        if k >= 1 and t >= us[k - 1] and ref.e[k] < ref.e[k - 1] and t < us[k - 1] + (ref.e[k - 1] - ref.e[k]):
          ck.count("ts_in_repeated_hour")
          if bundled and len(ck.nontrivial) < 200000:
            ck.nontrivial_case([name, t])
  # clause 3
  for (w, f), r in zip(wq, r_w):
    m_off, m_ts = (mr[p], mr[p]) if merr(mr[p]) else (mr[p][0], mr[p][1]); p += 1
    ck.evaluated()
    if "error" in r:
      ck.count("real_" + r["error"])
      if r["error"] == "IndexError" and not (merr(m_off) or merr(m_ts)):
        mismatch("dt_offset error", [w, f], r, [m_off, m_ts])
      continue
    if merr(m_off) or merr(m_ts) or m_off != r["off"] or m_ts != round(r["ts"] * 1000):
      mismatch("dt_offset/dt_to_ts", [w, f], r, [m_off, m_ts])
    if bundled and ref.ok:
      kind, allowed = ref.allowed(w)
      ck.count("wall_" + kind)
      if st["rng"].random() < 0.01:
        k2, a2 = ref.allowed(w, window=False)
        if (k2, a2) != (kind, allowed):
          raise AssertionError("harness: windowed reference differs from linear reference %r %r" % (name, w))
      if r["off"] not in allowed:
        ck.violation(SIG_WALL, "zone %s wall %d ms favor %r (%s): offset %r ms not in %r" % (
          name, w, f, kind, r["off"], sorted(allowed)), {"kind": "wall", "zone": name, "wall_ms": w, "favor_ms": f})
      if kind != "normal":
        ck.nontrivial_case([name, w, f])
        if f is not None and f in allowed and kind == "ambiguous":
          ck.count("wall_ambiguous_favor_matches")
      # the assigned instant really has that local time unless the time is skipped
      if kind != "skipped" and ref.offset_at(w - r["off"]) != r["off"]:
        ck.violation(SIG_WALL, "zone %s wall %d favor %r: assigned instant %d has offset %r, not %r" % (
          name, w, f, w - r["off"], ref.offset_at(w - r["off"]), r["off"]),
          {"kind": "wall", "zone": name, "wall_ms": w, "favor_ms": f})
  # clause 2 with a zone
  for d, r in zip(days, r_d):
    m_ts = mr[p]; p += 1
    ck.evaluated()
    if "error" in r:
      ck.count("real_" + r["error"])
      if r["error"] == "IndexError" and not merr(m_ts):
        mismatch("date_to_ts error", d, r, m_ts)
      continue
    if merr(m_ts) or m_ts != r["ts"]:
      mismatch("date_to_ts(date, zone)", d, r, m_ts)
    if bundled and "later_error" in r:
      ck.violation(SIG_TS, "zone %s: ts_to_dt(date_to_ts(%d)) raised %s" % (name, d, r["later_error"]),
                   {"kind": "date_zone", "zone": name, "day": d})
    elif bundled:
      if r["back"] != d:
        between = r["off_mid"] != r["off_res"]
        ck.count("zone_date_roundtrip_failures")
        ck.violation(SIG_DATE_ZONE if between else SIG_DATE_ZONE_OTHER,
                     "zone %s date %s -> ts %r -> local %s" % (name, DATE_EPOCH + D.timedelta(days=d), r["ts"],
                                                                  EPOCH + D.timedelta(milliseconds=r["wall"])),
                     {"kind": "date_zone", "zone": name, "day": d})
      elif r["wall"] != d * 86400000:
        ck.count("zone_date_not_midnight_but_same_date")
      else:
        ck.count("zone_date_exact_midnight")
  wf = mr[p]
  if bundled and wf is not True:
    ck.count("records_not_wf")


# ------------------------------------------------------------------------------------------- dates (UTC) / calendar
def check_dates(ck, moment, st):
  rng = ck.rng
  lo, hi = D.date.min.toordinal() - 719163, D.date.max.toordinal() - 719163
  ns = set([lo, lo + 1, hi - 1, hi, 0, -1, 1, 11016, -719162])
  if ck.tier == "quick":
    for _ in range(3000):
      ns.add(rng.randint(lo, hi))
    y0 = rng.randint(1, 9990)
    for y in list(range(y0, y0 + 8)) + [1900, 2000, 2100, 1600, 400, 4, 100]:
      for m in range(1, 13):
        first = D.date(y, m, 1).toordinal() - 719163
        ns.update([first - 1, first, first + 27, first + 28])
  else:
    era0 = D.date(rng.choice([1, 401, 1601, 2001, 9201]), 1, 1).toordinal() - 719163
    ns.update(range(era0, era0 + 146097 + 2))
    for y in range(1, 10000):
      for m in range(1, 13):
        first = D.date(y, m, 1).toordinal() - 719163
        ns.add(first)
        if first > lo:
          ns.add(first - 1)
    for _ in range(40000):
      ns.add(rng.randint(lo, hi))
  ns = sorted(ns)
  q = []
  impl = []
  for n in ns:
    date = DATE_EPOCH + D.timedelta(days=n)
    ts = moment.date_to_ts(date)
    back = moment.ts_to_date(ts)
    tod = rng.choice([0, 1, 43200, 86399, 0.5, 86399.999])
    back2 = moment.ts_to_date(ts + tod)
    ck.evaluated()
    if back != date or back2 != date:
      ck.violation(SIG_DATE_UTC, "date %s -> ts %r -> %s ; +%r s -> %s" % (date, ts, back, tod, back2),
                   {"kind": "date_utc", "day": n, "tod": tod})
    impl.append((ts, (date.year, date.month, date.day)))
    q.append(["fromdays", n]); q.append(["todays", date.year, date.month, date.day])
    q.append(["day2tsutc", n]); q.append(["ts2day", int(ts) + int(tod)])
  ck.count("dates_utc", len(ns))
  out = ck.driver([{"m": "zone", "q": q}])[0]
  if "r" not in out:
    st["mism"] = st["mism"] or {"what": "calendar", "model": out}
    ck.count("model_impl_disagreements")
    return
  r = out["r"]
  for i, n in enumerate(ns):
    ts, ymd = impl[i]
    got = (tuple(r[4 * i]), r[4 * i + 1], r[4 * i + 2], r[4 * i + 3])
    if got != (ymd, n, ts, n):
      ck.count("model_impl_disagreements")
      if st["mism"] is None:
        st["mism"] = {"what": "calendar", "day": n, "impl": [ymd, n, ts, n], "model": list(got)}
  # invalid civil dates are rejected by the model's Valid exactly as by datetime.date
  q, exp = [], []
  for _ in range(400 if ck.tier == "quick" else 5000):
    y, m, d = rng.randint(1, 9999), rng.randint(0, 13), rng.randint(0, 32)
    try:
      D.date(y, m, d); ok = True
    except ValueError:
      ok = False
    q.append(["valid", y, m, d]); exp.append(ok)
  r = ck.driver([{"m": "zone", "q": q}])[0].get("r")
  if r != exp:
    ck.count("model_impl_disagreements")
    st["mism"] = st["mism"] or {"what": "Civil.Valid vs datetime.date"}


# ------------------------------------------------------------------------------------------- synthetic / malformed
def synth_records(ck):
  rng = ck.rng
  recs = []
  n_syn = 100 if ck.tier == "quick" else 1500
  for i in range(n_syn):
    n = rng.choice([0, 1, 1, 2, 2, 3, 4, 6, 9])
    style = rng.random()
    us, t = [], rng.randrange(-50, 50) * 3600000
    for _ in range(n):
      t += rng.choice([1800000, 3600000, 7200000, 86400000, 30 * 86400000, 1000, 5400000])
      us.append(t)
    if style < 0.25 and n >= 2:       # malformed: not sorted / duplicates
      j = rng.randrange(n - 1)
      if rng.random() < 0.5:
        us[j], us[j + 1] = us[j + 1], us[j]
      else:
        us[j + 1] = us[j]
    os_ = [rng.choice([0, 3600, -3600, 7200, -7200, 1800, -12600, 30, -45, 43200, -50400, 5400]) for _ in range(n + 1)]
    if style > 0.85:                  # malformed: wrong number of offsets
      if rng.random() < 0.5 and len(os_) > 1:      # (Zone.__init__ itself needs offsets[0])
        os_ = os_[:-1] if rng.random() < 0.7 or len(os_) < 3 else os_[:-2]
      else:
        os_ = os_ + [rng.choice([0, 3600])]
    recs.append((tuple(us), tuple(os_)))
  # the Lean counter-example of date_roundtrip_zone_fails
  recs.append(((-7200000,), (-7200, -10800)))
  return recs


def inject(moment, key, rec):
  us, os_ = rec
  data = moment.get_tz_data()
  data[key] = moment.ZoneRecord(key, ["X"] * len(os_), [o / 60.0 for o in os_], [float(u) for u in us] + [float("inf")])


def check_synth(ck, moment, st):
  recs = synth_records(ck)
  ops, meta = [], []
  for i, rec in enumerate(recs):
    us, os_ = rec
    key = "__gx_synth_%d" % i
    inject(moment, key, rec)
    n = len(us)
    lo = (min(us) if us else 0) - 3 * 86400000
    hi = (max(us) if us else 0) + 3 * 86400000
    tss = set(); walls = set()
    for u in us:
      for d in (0, -1000, 1000, -1800000, 1800000, -3600000, 3600000, 7200000, -7200000):
        tss.add(u + d)
        for o in set(os_):
          walls.add(u - o * 1000 + d)
    for _ in range(12):
      tss.add(ck.rng.randrange(lo, hi, 1000)); walls.add(ck.rng.randrange(lo, hi, 1000))
    tss = sorted(tss); walls = sorted(walls)
    favs = sorted(set(-o * 1000 for o in os_))[:4]
    wq = [(w, f) for w in walls for f in [None] + favs]
    days = sorted(set(u // 86400000 + k for u in us for k in (-1, 0, 1))) or [0]
    try:
      real = eval_real((key, tss, wq, days, True))
    finally:
      del moment.get_tz_data()[key]
    ops.append(model_ops(us, os_, tss, wq, days))
    meta.append((key, rec, tss, wq, days, real))
  outs = ck.driver(ops)
  for (key, rec, tss, wq, days, real), mo in zip(meta, outs):
    ck.count("synthetic_zones")
    if len(rec[1]) != len(rec[0]) + 1:
      ck.count("synthetic_malformed_lengths")
    check_zone(ck, key, rec, tss, wq, days, real, mo, st, bundled=False)
  # replay of the Lean witness on the real code (finding)
  key, rec, tss, wq, days, real = meta[-1]
  rd = dict(zip(days, real[3]))
  if 0 in rd and "error" not in rd[0] and rd[0]["back"] != 0:
    ck.count("lean_witness_reproduced_on_real_code")
    ck.violation(SIG_DATE_ZONE, "synthetic zone UTC+2 -> UTC+3 at 1969-12-31T22:00Z (Lean witness): date 1970-01-01 -> ts %r -> "
                 "local day %d" % (rd[0]["ts"], rd[0]["back"]),
                 {"kind": "date_zone_synth", "untils": list(rec[0]), "offsets": list(rec[1]), "day": 0})
  else:
    ck.count("lean_witness_NOT_reproduced")
    st["witness_lost"] = True


# ------------------------------------------------------------------------------------------- main
def run(ck):
  import moment
  from gx import translate_zones as translate
  ck.rule = ("per bundled zone name: every transition (quick: a seeded sample of names, all their transitions up to a cap) "
             "x {0, +-1 s, +-1 ms, +-1 h, +-2 h, +-jump, half jump, random} for instants and for local wall clock values "
             "on both sides, each wall with favor_offset in {None, offsets of the 3 nearest periods, an unused offset}; "
             "random instants over the zone's span and over years 2..9998; dates around every transition; "
             "non-trivial = instant inside a repeated hour, or ambiguous/skipped local time; distinct by (zone, value, favor)")
  ck.assumptions = [
    "timestamps are integer milliseconds (integer seconds outside |ts| < 2**32 s); float rounding below 1 ms / at "
    "microsecond resolution is out of scope",
    "datetime range: years 2..9998 (OverflowError outside is not a round-trip failure)",
    "the proof covers every record of the CURRENT tzdata.data through generated per-record obligations (ZoneWF); "
    "Python's datetime/timedelta/bisect are trusted and tied to the model only differentially",
    "zone-aware date clause: proved only when no transition lies between UTC midnight and the result; otherwise a known "
    "defect (see known_findings.json)",
  ]
  ck.explanation = ("Lean: round trip / offset adjacency / calendar bijection proved for every ZoneWF record and every integer "
                    "instant; ZoneWF decided by the kernel for every record of the current tzdata.data (all records in both "
                    "tiers; generated modules rebuild only when the data changes). Python: the same probes run on the real "
                    "moment.py and on the compiled model and are compared; the property clauses are evaluated on the real "
                    "outputs against a reference built from the raw tz records.")
  st = {"mism": None, "rng": ck.rng}
  gen = translate.gen_zones()
  ck.extra["zone_table"] = {"names": len(gen["names"]), "distinct_records": len(gen["records"]),
                            "transitions": gen["transitions"], "generated_modules": gen["modules"],
                            "files_changed": gen["changed"]}
  ck.obligations.append(("tzdata:integral ms untils / whole-second offsets / exact float expressions",
                         not gen["problems"], "; ".join(gen["problems"][:5])))
  lean_ok = ck.lean(["GristProps.C34"])
  records, names = gen["records"], gen["names"]
  recmap = dict(names)
  # Python twin of zoneWFb: which records would fail (only to name the zone in the report)
  for name, k in names:
    why = translate.zone_wf_py(*records[k])
    if why:
      ck.count("records_not_wf_py")
      st.setdefault("not_wf", []).append((name, why))

  # ---- which names / how many transitions
  all_names = [n for n, _ in names]
  if ck.tier == "quick":
    chosen = [n for n in INTERESTING if n in recmap]
    rest = [n for n in all_names if n not in chosen]
    ck.rng.shuffle(rest)
    chosen += rest[:15]
    max_tr = 16
  else:
    chosen, max_tr = all_names, None
  # zones reported not well formed are always probed in full
  for name, _why in st.get("not_wf", []):
    if name not in chosen:
      chosen.append(name)
  # probes are drawn once per distinct RECORD (aliases share them): the model answers once per record, the real
  # code is run for every chosen NAME
  import time as _time
  t_start = _time.time()
  probes = {}
  jobs = []
  for name in chosen:
    k = recmap[name]
    if k not in probes:
      us, os_ = records[k]
      probes[k] = zone_probes(ck.rng, us, os_, ck.tier, max_tr)
      jobs.append((name,) + tuple(probes[k]) + (False,))
    else:
      # an alias of a record already probed in full: identical data, so a seeded 1/4 sub-sample of the same probes
      tss, wq, days = probes[k]
      sub = lambda xs: [x for x in xs if ck.rng.random() < 0.25]
      jobs.append((name, sub(tss), sub(wq), sub(days), False))
      ck.count("alias_names_subsampled")
  rec_ids = sorted(probes)
  ops = [model_ops(records[k][0], records[k][1], *probes[k]) for k in rec_ids]
  CH = 12
  chunks = [ops[i:i + CH] for i in range(0, len(ops), CH)]
  if ck.tier == "thorough":
    import multiprocessing
    from concurrent.futures import ThreadPoolExecutor
    nproc = min(8, os.cpu_count() or 2)
    with ThreadPoolExecutor(max_workers=nproc) as ex:
      fut = [ex.submit(ck.driver, c) for c in chunks]          # driver processes run beside the pool
      with multiprocessing.Pool(nproc) as pool:
        reals = pool.map(eval_real, jobs, chunksize=4)
      outs_l = [f.result() for f in fut]
  else:
    from concurrent.futures import ThreadPoolExecutor
    with ThreadPoolExecutor(max_workers=4) as ex:
      fut = [ex.submit(ck.driver, c) for c in chunks]
      reals = [eval_real(j) for j in jobs]
      outs_l = [f.result() for f in fut]
  mout = {}
  for k, mo in zip(rec_ids, [o for c in outs_l for o in c]):
    mout[k] = mo
  t_eval = _time.time()
  for job, real in zip(jobs, reals):
    name = job[0]
    k = recmap[name]
    ck.count("zones_probed")
    ck.count("transitions_probed", min(len(records[k][0]), max_tr or 10 ** 9))
    mo = mout[k]
    if job[1] is not probes[k][0] and "r" in mo:
      mo = {"r": select_model(mo["r"], probes[k], job)}
    check_zone(ck, name, records[k], job[1], job[2], job[3], real, mo, st, bundled=True)
  ck.extra["timing_s"] = {"real_code_and_driver": round(t_eval - t_start, 1), "oracle_and_diff": round(_time.time() - t_eval, 1)}
  ck.count("distinct_records_probed", len(rec_ids))
  ck.sample({"zone": jobs[0][0], "instants": len(jobs[0][1]), "walls_x_favors": len(jobs[0][2]), "dates": len(jobs[0][3])})
  if len(jobs) > 1:
    j = jobs[1]
    ck.sample({"zone": j[0], "first_instants_ms": j[1][:5], "first_walls": j[2][:5]})

  check_dates(ck, moment, st)
  check_synth(ck, moment, st)

  # ---- not-well-formed bundled records: the generated obligation fails; the oracle above must have found the input
  for name, why in st.get("not_wf", [])[:3]:
    if not ck.has_impl_violation():
      ck.violation(SIG_WF, "zone %s: %s (no failing conversion found among the probes)" % (name, why),
                   {"kind": "wf", "zone": name}, kind="no-failing-input-found")
  if gen["problems"] and not ck.has_impl_violation():
    ck.broken(SIG_DATA, "; ".join(gen["problems"][:5]), {"problems": gen["problems"][:20]})
  if st.get("witness_lost") and not ck.has_impl_violation():
    ck.broken("finding witness", "the Lean counter-example of date_roundtrip_zone_fails no longer fails on the real code: "
              "the known finding is fixed or the model is stale; update GristProps/C34.lean and known_findings.json", None)
  if st["mism"] and not ck.has_impl_violation():
    ck.broken("correspondence moment.py vs Grist.Zone model",
              "model and implementation differ and the property's clauses hold on all explored inputs", st["mism"])
  ck.extra["lean_ok"] = bool(lean_ok)


def replay(ck, rp):
  import moment
  r = rp["replay"]
  kind = r.get("kind")
  ck.evaluated()
  ck.nontrivial_case(r); ck.nontrivial_case("replay")
  if kind == "ts":
    zone = moment.get_zone(r["zone"])
    out = real_ts(moment, zone, r["ts_ms"], r.get("as_float", True))
    bad = "error" not in out and not (out["back"] == out["ts"])
    print("replay: zone=%s ts=%r -> %r -> %s" % (r["zone"], out.get("ts"), out, "ROUND TRIP FAILS" if bad else "property holds"))
    if bad:
      ck.violation(SIG_TS, "zone %s ts=%r -> %r" % (r["zone"], out["ts"], out["back"]), r)
  elif kind == "wall":
    zone = moment.get_zone(r["zone"])
    rec = moment.get_tz_data()[r["zone"]]
    from gx import translate_zones as translate
    records, names, _ = translate.load_zone_records([tuple(rec)])
    ref = Ref(*records[0])
    out = real_wall(moment, zone, r["wall_ms"], r["favor_ms"])
    kind2, allowed = ref.allowed(r["wall_ms"], window=False)
    bad = "error" not in out and (out["off"] not in allowed or
                                   (kind2 != "skipped" and ref.offset_at(r["wall_ms"] - out["off"]) != out["off"]))
    print("replay: zone=%s wall=%d favor=%r (%s) -> offset %r allowed %r -> %s" % (
      r["zone"], r["wall_ms"], r["favor_ms"], kind2, out.get("off"), sorted(allowed), "VIOLATED" if bad else "property holds"))
    if bad:
      ck.violation(SIG_WALL, "zone %s wall %d favor %r: offset %r not in %r" % (r["zone"], r["wall_ms"], r["favor_ms"],
                                                                                 out["off"], sorted(allowed)), r)
  elif kind in ("date_zone", "date_zone_synth"):
    if kind == "date_zone_synth":
      inject(moment, "__gx_replay", (tuple(r["untils"]), tuple(r["offsets"])))
      zone = moment.Zone("__gx_replay")
      zname = "synthetic %r/%r" % (r["untils"], r["offsets"])
    else:
      zone = moment.get_zone(r["zone"]); zname = r["zone"]
    out = real_date_zone(moment, zone, r["day"])
    bad = "error" not in out and out["back"] != r["day"]
    print("replay: zone=%s date=%s -> ts %r -> local %s -> %s" % (
      zname, DATE_EPOCH + D.timedelta(days=r["day"]), out.get("ts"),
      EPOCH + D.timedelta(milliseconds=out["wall"]) if out.get("wall") is not None else out,
      "DATE DIFFERS" if bad else "property holds"))
    if bad:
      ck.violation(SIG_DATE_ZONE if out["off_mid"] != out["off_res"] and out["back"] is not None else SIG_DATE_ZONE_OTHER,
                   "zone %s day %d -> %r" % (zname, r["day"], out), r)
  elif kind == "date_utc":
    date = DATE_EPOCH + D.timedelta(days=r["day"])
    ts = moment.date_to_ts(date)
    b1, b2 = moment.ts_to_date(ts), moment.ts_to_date(ts + r.get("tod", 0))
    bad = b1 != date or b2 != date
    print("replay: date=%s -> ts %r -> %s / %s -> %s" % (date, ts, b1, b2, "DATE DIFFERS" if bad else "property holds"))
    if bad:
      ck.violation(SIG_DATE_UTC, "date %s -> %r -> %s/%s" % (date, ts, b1, b2), r)
  else:
    print("replay: nothing to run for kind %r (%s)" % (kind, rp.get("detail", "")))
  from gx import translate_zones as translate
  translate.gen_zones()
  ck.lean(["GristProps.C34"])
