"""
C33  JSON import reconstructs the input  (imports/import_json.py: dumps / Tables.add_row /
     _dump_table / _transpose / first_available_key).

Theorems: lean/GristProps/C33.lean about lean/GristModel/JsonImport.lean (all documents, all options):
          columns_equal_length / dumps_columns_equal_length / table_names_distinct, ids_consecutive,
          import_stores_input (+ nested_ref, array_member_elems, array_parent_ref), addElems_rows_self /
          main_table_rows, scalars_once, cells_are_kept_scalars / cells_are_input_scalars,
          dump_value_columns; the dump-level clauses that are false of the code are proved in the
          `_partial` form (backref_column_partial, dump_shows_rows_partial) with Lean counter-examples
          that are replayed on the real code below (WITNESSES) -- they are the two known findings.
Tie:      import_json.dumps (and parse_file on generated JSON text) vs Grist.JsonImport.dumps on
          identical inputs; the complete table list (names, order, column ids, order, types, every
          cell) is compared.  The driver also re-runs a literal "append the empty row first, fill it
          later" variant of the model and reports whether it agrees with the proved one.
Search:   direct oracle on the REAL output, written without the model (see `Oracle`).

Interpretation (the property text is short; this is what the check demands):
 * "place" of a value = (table, row, column): the table is `name` + '_' + key for every object key /
   array on the way ('' for a value that is not an object, as documented in the module docstring),
   the row is the row made for the enclosing object / array element, the column is the key.
 * top-level items become the rows of the main table IN ORDER (item i <-> row i).
 * a nested object is found by FOLLOWING the row id stored in its parent's cell into the sub-table
   (whatever the id is); array elements are the rows of the sub-table whose back-reference column
   holds the parent's row id, in order; that column must be the one the module documents (last
   column, id = first free of  <parent table>, <parent table>2, ...; type 'Ref:<parent table>').
 * "exactly once": after walking the whole input every row and every non-null cell of the output has
   been used exactly once, and every input scalar was found at its place with the same Python type.
 * documented / inherent losses that are NOT counted as violations: JSON null is a None cell (same as
   a missing key); an empty array leaves no trace; a column's type is that of the first row that has
   the key (so a column may mix scalars and row ids); key order inside objects is not kept (columns
   come out in `_transpose` order).  Column TYPES are only compared model-vs-code.
 * includes/excludes: a path is kept iff `Tables._is_included` says so (prefix match on the
   '_'-joined path; documented in SCHEMA as "list of tables"); a row exists iff its table path is
   kept, a scalar iff its row exists and table+'_'+key is kept, a link iff both ends exist.  Rows of
   kept tables under dropped parents have no incoming reference; they are matched in document order.
 * strings are sequences of Unicode scalar values (no lone surrogates); numbers are opaque.
"""
import collections
import json
import math
import os
import shutil
import tempfile

S_COLL = "array elements reach one sub-table name from parents in different tables (key path collision)"
S_EMPTY = "reference to a row of a table dumped with zero columns"

# ----------------------------------------------------------------------------- encoding

def cps(s):
  return [ord(c) for c in s]

def uncps(a):
  return "".join(chr(c) for c in a)

def numtok(v):
  return str(v) if isinstance(v, int) else repr(v)

def enc(v):
  """python JSON value -> driver JV"""
  if v is None: return ["z"]
  if isinstance(v, bool): return ["b", v]
  if isinstance(v, (int, float)): return ["n", numtok(v)]
  if isinstance(v, str): return ["s", cps(v)]
  if isinstance(v, list): return ["a", [enc(x) for x in v]]
  if isinstance(v, dict): return ["o", [[cps(k), enc(x)] for k, x in v.items()]]
  raise TypeError(v)

def canon_cell(v):
  if v is None: return None
  if isinstance(v, bool): return ["b", v]
  if isinstance(v, (int, float)): return ["n", numtok(v)]
  if isinstance(v, str): return ["s", v]
  return ["?", repr(v)]

def canon_real(out):
  res = []
  for t in out["tables"]:
    cols = []
    md, td = t["column_metadata"], t["table_data"]
    for i in range(max(len(md), len(td))):
      m = md[i] if i < len(md) else {"id": "<missing>", "type": "<missing>"}
      d = td[i] if i < len(td) else ["<missing>"]
      cols.append({"id": m["id"], "type": m["type"], "data": [canon_cell(x) for x in d]})
    res.append({"name": t["table_name"], "cols": cols})
  return res

def canon_model(ans):
  if "error" in ans:
    return {"error": ans["error"]}
  res = []
  for t in ans["tables"]:
    cols = []
    for c in t["cols"]:
      data = []
      for x in c["data"]:
        if x is None: data.append(None)
        elif x[0] == "i": data.append(["n", str(x[1])])      # a row id is a plain int in the dump
        elif x[0] == "s": data.append(["s", uncps(x[1])])
        else: data.append(x)
      cols.append({"id": uncps(c["id"]), "type": uncps(c["type"]), "data": data})
    res.append({"name": uncps(t["name"]), "cols": cols})
  return res

# ----------------------------------------------------------------------------- the oracle

def split_opt(s):
  return [x for x in s.split(";") if x]

class Oracle(object):
  """Evaluates the property's clauses on a real `dumps` result.  `problems` = [(signature, detail)]."""

  def __init__(self, data, name, inc, exc, out):
    self.data, self.name = data, name
    self.inc, self.exc = split_opt(inc), split_opt(exc)
    self.problems = []
    self.tabs = collections.OrderedDict()
    self.stats = collections.Counter()
    self._load(out)

  def bad(self, sig, detail):
    if len(self.problems) < 20:
      self.problems.append((sig, detail))

  def kept(self, path):
    a = any(path.startswith(i) for i in self.inc) if self.inc else True
    b = any(path.startswith(e) for e in self.exc) if self.exc else False
    return a and not b

  # -- clause 1: one value per row in every column
  def _load(self, out):
    for t in out["tables"]:
      name = t["table_name"]
      md, td = t["column_metadata"], t["table_data"]
      if name in self.tabs:
        self.bad("two tables with one name", repr(name)); continue
      if len(md) != len(td):
        self.bad("column_metadata and table_data differ in length", "%r: %d vs %d" % (name, len(md), len(td)))
      lens = set(len(c) for c in td)
      if len(lens) > 1:
        self.bad("columns of one table have different lengths", "%r: %r" % (name, sorted(lens)))
      ids = [m["id"] for m in md]
      if len(set(ids)) != len(ids):
        self.bad("duplicate column id", "%r: %r" % (name, ids))
      n = min(lens) if lens else None
      self.tabs[name] = {"ids": ids, "types": [m["type"] for m in md], "cols": td, "n": n,
                         "pcol": None, "claimed": set(), "used": set()}

  # -- which tables get array elements from which parent tables (from the INPUT alone)
  def _parents(self, T, v, present, acc):
    d = v if isinstance(v, dict) else {"": v}
    for k in sorted(d):
      x, Tk = d[k], T + "_" + k
      if isinstance(x, dict):
        self._parents(Tk, x, self.kept(Tk), acc)
      elif isinstance(x, list):
        for e in x:
          if present and self.kept(Tk):
            acc.setdefault(Tk, set()).add(T)
          self._parents(Tk, e, self.kept(Tk), acc)

  def _find_pcols(self):
    """The documented back-reference column of each table that should have one."""
    for Tk, ps in self.parents.items():
      t = self.tabs.get(Tk)
      if t is None or not t["ids"]:
        continue
      first = None   # any of the parent tables may be 'the first parent'
      for P in sorted(ps):
        others = t["ids"][:-1]
        want = P
        i = 2
        while want in others:
          want = "%s%d" % (P, i); i += 1
        if t["ids"][-1] == want and t["types"][-1] == "Ref:" + P:
          first = P
      if first is None:
        self.bad("array sub-table lacks the back-reference column", "%r: ids %r types %r parents %r" % (
          Tk, t["ids"], t["types"], sorted(ps)))
      else:
        t["pcol"] = len(t["ids"]) - 1
        t["ptable"] = first

  def cell(self, T, r, k):
    t = self.tabs[T]
    for i, cid in enumerate(t["ids"]):
      if cid == k and i != t["pcol"]:
        return i, t["cols"][i][r - 1]
    return None, None

  def claim_row(self, T, r, how):
    """Row r of table T is about to be used for one input node; False if it cannot be looked at."""
    t = self.tabs.get(T)
    if t is None:
      self.bad("reference to a table that was not produced", "%s -> %r row %r" % (how, T, r)); return False
    if t["n"] is None:
      if how != "top":
        self.bad(S_EMPTY, "%s -> %r row %r, but that table has no columns, hence no rows" % (how, T, r))
      self.stats["rows_in_columnless_tables"] += 1
      return False
    if not (isinstance(r, int) and not isinstance(r, bool) and 1 <= r <= t["n"]):
      self.bad("reference to a row that does not exist", "%s -> %r row %r of %d" % (how, T, r, t["n"])); return False
    if r in t["claimed"]:
      self.bad("one row stands for two input values", "%r row %r (%s)" % (T, r, how)); return False
    t["claimed"].add(r)
    return True

  def walk(self, T, v, r, visible, parent):
    """v was given row r of table T (r None: its table path is filtered out).  `visible` False when
    the row cannot be inspected (column-less table).  parent = (table, rowid, visible) or None."""
    present = r is not None
    if present and visible:
      t = self.tabs[T]
      if t["pcol"] is not None:
        pv = t["cols"][t["pcol"]][r - 1]
        want = parent[1] if parent else None
        if parent and t["ptable"] != parent[0]:
          sig = S_COLL if len(self.parents.get(T, ())) > 1 else "back-reference column names the wrong table"
          self.bad(sig, "%r row %r: parent is %r row %r but the column is typed Ref:%s" % (
            T, r, parent[0], parent[1], t["ptable"]))
        elif canon_cell(pv) != canon_cell(want):
          self.bad("array element does not point back to its parent", "%r row %r: %r, parent row %r" % (T, r, pv, want))
        if pv is not None:
          t["used"].add((r, t["pcol"]))
      elif parent:
        pass   # reported by _find_pcols
    d = v if isinstance(v, dict) else {"": v}
    for k in sorted(d):
      x, Tk = d[k], T + "_" + k
      kk = self.kept(Tk)
      if isinstance(x, dict):
        self.stats["objects"] += 1
        if kk:
          self.cursor[Tk] += 1
          if present:
            how = "%r row %r column %r" % (T, r, k)
            if visible:
              i, c = self.cell(T, r, k)
              if i is None or c is None:
                self.bad("nested object is not referenced from its parent's column", how)
                c = self.cursor[Tk]
              else:
                self.tabs[T]["used"].add((r, i))
            else:
              c = self.cursor[Tk]
              how = "(unseen) " + how
            vis = self.claim_row(Tk, c, how)
            self.walk(Tk, x, c if isinstance(c, int) else self.cursor[Tk], vis, None)
          else:
            c = self.cursor[Tk]
            vis = self.claim_row(Tk, c, "top")     # no incoming reference exists
            self.walk(Tk, x, c, vis, None)
        else:
          self.walk(Tk, x, None, False, None)
      elif isinstance(x, list):
        self.stats["arrays"] += 1
        if kk:
          kids = None
          if present and visible:
            t = self.tabs.get(Tk)
            if t is not None and t["n"] is not None and t["pcol"] is not None and t["ptable"] == T:
              pc = t["cols"][t["pcol"]]
              kids = [j + 1 for j in range(t["n"]) if canon_cell(pc[j]) == canon_cell(r)]
          if kids is not None and len(self.parents.get(Tk, ())) <= 1 and len(kids) != len(x):
            self.bad("array elements lost or duplicated", "%r row %r key %r: %d elements, %d rows point back" % (
              T, r, k, len(x), len(kids)))
          for j, e in enumerate(x):
            self.stats["elements"] += 1
            self.cursor[Tk] += 1
            c = self.cursor[Tk]
            if kids is not None and j < len(kids) and len(kids) == len(x):
              c = kids[j]
            how = "element %d of %r row %r key %r" % (j, T, r, k)
            if present:
              if not visible:
                self.bad(S_EMPTY, "%s points back to %r row %r, but that table has no columns, hence no rows" % (how, T, r))
              vis = self.claim_row(Tk, c, how)
              self.walk(Tk, e, c, vis, (T, r))
            else:
              vis = self.claim_row(Tk, c, "top")
              self.walk(Tk, e, c, vis, None)
        else:
          for e in x:
            self.walk(Tk, e, None, False, None)
      else:
        self.stats["scalars"] += 1
        if present and kk:
          self.stats["scalars_kept"] += 1
          if x is None:
            continue
          if not visible:
            self.bad("scalar lost", "%r row %r key %r: %r (table has no columns)" % (T, r, k, x)); continue
          i, c = self.cell(T, r, k)
          if i is None or canon_cell(c) != canon_cell(x):
            self.bad("scalar is not at its place", "%r row %r column %r: expected %r found %r" % (T, r, k, x, c))
          if i is not None and c is not None:
            self.tabs[T]["used"].add((r, i))

  def run(self):
    self.parents = {}
    items = self.data if isinstance(self.data, list) else [self.data]
    for it in items:
      self._parents(self.name, it, self.kept(self.name), self.parents)
    self._find_pcols()
    self.cursor = collections.Counter()
    for it in items:
      self.stats["top_items"] += 1
      if self.kept(self.name):
        self.cursor[self.name] += 1
        r = self.cursor[self.name]
        if self.name not in self.tabs:
          self.bad("main table missing", repr(self.name)); continue
        vis = self.claim_row(self.name, r, "top-level item %d" % r if self.tabs[self.name]["n"] is not None else "top")
        self.walk(self.name, it, r, vis, None)
      else:
        self.walk(self.name, it, None, False, None)
    # exactly once: nothing left over
    for T, t in self.tabs.items():
      if t["n"] is None:
        continue
      extra = [r for r in range(1, t["n"] + 1) if r not in t["claimed"]]
      if extra:
        self.bad("row that stands for no input value", "%r rows %r" % (T, extra[:5]))
      for i, col in enumerate(t["cols"]):
        for r, c in enumerate(col[:t["n"]]):
          if c is not None and (r + 1, i) not in t["used"] and (r + 1) in t["claimed"]:
            self.bad("cell value that is not in the input at that place",
                     "%r row %d column %r: %r" % (T, r + 1, t["ids"][i] if i < len(t["ids"]) else i, c))
    # a table for every kept path that got a row
    for T, n in self.cursor.items():
      if n and T not in self.tabs:
        self.bad("table missing", repr(T))
      elif n and self.tabs[T]["n"] is not None and self.tabs[T]["n"] != n:
        self.bad("number of rows differs from the number of input values for that table",
                 "%r: %d rows, %d values" % (T, self.tabs[T]["n"], n))
    return self.problems


# ----------------------------------------------------------------------------- generators

def key_pool(name):
  return ["a", "b", "c", "a_b", "b_c", "a_", "_a", "", "_", "id", "x", name, name + "2", name + "3",
          "é", "ключ", "\U0001F600k", "A", "a b", ";", "a;b", "0", "10", "9",
          "b_", "_c", "c_", "__"]

def gen_scalar(rng):
  k = rng.random()
  if k < 0.10: return None
  if k < 0.20: return rng.random() < 0.5
  if k < 0.50: return rng.choice([0, 1, 2, 3, -1, 7, 100])
  if k < 0.56: return rng.choice([2 ** 70, -10 ** 30, 2 ** 63, 9007199254740993])
  if k < 0.68: return rng.choice([1.5, -0.0, 1e300, 0.1, 1.0, 2.0, float("nan"), float("inf"), -2.5e-7])
  return rng.choice(["", "x", "1", "tree", "über", "日本", "\U0001F600", "Ref:t", "a_b", "None", "true"])

def gen_value(rng, depth, name, keys, style):
  k = rng.random()
  if depth <= 0 or k < (0.25 if depth < 4 else 0.05):
    return gen_scalar(rng)
  if k < 0.6:
    n = rng.choice([0, 1, 1, 1, 2, 2, 2, 3, 3, 4, 1, 2, 3, 2, 1, 3])
    ks = rng.sample(keys, min(n, len(keys)))
    return collections.OrderedDict((q, gen_value(rng, depth - 1, name, keys, style)) for q in ks)
  n = rng.choice([0, 1, 2, 2, 3, 4, 1, 2, 3, 2, 3, 1])
  sub = rng.random()
  if sub < 0.4:      # homogeneous records
    ks = rng.sample(keys, min(rng.randint(1, 3), len(keys)))
    res = []
    for _ in range(n):
      res.append(collections.OrderedDict((q, gen_value(rng, depth - 1, name, keys, style))
                                         for q in ks if rng.random() < 0.85))
    return res
  if sub < 0.75:     # scalars
    return [gen_scalar(rng) for _ in range(n)]
  return [gen_value(rng, depth - 1, name, keys, style) for _ in range(n)]     # mixed / nested arrays

def gen_doc(rng):
  name = rng.choice(["t", "t", "t", "t", "", "T_x", "données", "a", "my import"])
  pool = key_pool(name)
  style = rng.random()
  if style < 0.5:
    keys = rng.sample(pool, rng.randint(2, 5))       # few keys: collisions and repeated paths are likely
  else:
    keys = pool
  depth = rng.choice([1, 2, 3, 3, 4, 4, 5])
  top = rng.random()
  if top < 0.45:
    ks = rng.sample(keys, min(rng.randint(1, 4), len(keys)))
    data = [collections.OrderedDict((q, gen_value(rng, depth - 1, name, keys, style)) for q in ks if rng.random() < 0.9)
            for _ in range(rng.randint(0, 5))]
  elif top < 0.65:
    data = gen_value(rng, depth, name, keys, style)
    if not isinstance(data, dict):
      data = collections.OrderedDict([(rng.choice(keys), data)])
  elif top < 0.9:
    data = [gen_value(rng, depth - 1, name, keys, style) for _ in range(rng.randint(0, 5))]
  else:
    data = gen_value(rng, depth, name, keys, style)
  return name, data

def all_paths(name, data):
  """every table path and scalar path of the document (for building include/exclude options)"""
  res = []
  def go(T, v):
    res.append(T)
    d = v if isinstance(v, dict) else {"": v}
    for k, x in d.items():
      Tk = T + "_" + k
      if isinstance(x, dict): go(Tk, x)
      elif isinstance(x, list):
        for e in x: go(Tk, e)
      else: res.append(Tk)
  for it in (data if isinstance(data, list) else [data]):
    go(name, it)
  return sorted(set(res))

def gen_opts(rng, name, data):
  if rng.random() < 0.6:
    return "", ""
  paths = all_paths(name, data) or [name]
  def one():
    k = rng.random()
    p = rng.choice(paths)
    if k < 0.5: return p
    if k < 0.7: return p[:rng.randint(0, len(p))]
    if k < 0.8: return p + "_"
    if k < 0.9: return ""
    return rng.choice(["zzz", "_", name, name + "_", " "])
  def lst():
    n = rng.choice([0, 1, 1, 2, 3])
    s = ";".join(one() for _ in range(n))
    if rng.random() < 0.2: s = ";" + s + ";;"
    return s
  k = rng.random()
  if k < 0.35: return lst(), ""
  if k < 0.7: return "", lst()
  return lst(), lst()

def small_scope(limit_nodes):
  """all documents with at most `limit_nodes` nodes over scalars {1, None}, keys {'', 'a', 'a_'}"""
  keys = ["", "a", "a_"]
  memo = {}
  def vals(n):           # all values with exactly n nodes
    if n in memo: return memo[n]
    res = []
    if n == 1:
      res = [1, None, [], {}]
    else:
      for parts in seqs(n - 1):
        res.append(list(parts))
      for ks in ([k] for k in keys):
        for v in vals(n - 1):
          res.append({ks[0]: v})
      # two keys
      for i in range(len(keys)):
        for j in range(i + 1, len(keys)):
          for a in range(1, n - 1):
            for va in vals(a):
              for vb in vals(n - 1 - a):
                res.append({keys[i]: va, keys[j]: vb})
    memo[n] = res
    return res
  smemo = {}
  def seqs(n):           # all non-empty sequences of values with n nodes in total
    if n in smemo: return smemo[n]
    res = []
    for a in range(1, n + 1):
      for v in vals(a):
        if a == n:
          res.append((v,))
        else:
          for rest in seqs(n - a):
            res.append((v,) + rest)
    smemo[n] = res
    return res
  for n in range(1, limit_nodes + 1):
    for v in vals(n):
      yield v

ODD = [
  ("t", 5), ("t", None), ("t", []), ("t", {}), ("t", [[]]), ("t", [{}]), ("t", [[], {}]), ("", [1, 2]),
  ("", {"": {"": {"": 1}}}), ("t", "text"), ("t", True), ("t", [True, 1, 1.0, "1"]),
  ("t", [[1, [2, 3]], [4]]), ("t", {"a": [{"t": 1, "t2": 2}]}), ("t", {"a": [{"t": 1, "t2": 2, "t3": 3, "t10": 4}]}),
  ("t", [{"a": 1}, {"a": {"b": 2}}, {"a": [5, 6]}]), ("t", [{"a": None}, {"a": 5}]),
  ("t", [{"a": {"x": 1}}, {"a": [{"x": 2}]}]), ("t", {"b": {"c": {"x": 1}}, "b_c": {"x": 2}}),
  ("t", {"b": {"c": [1]}, "b_c": [2]}), ("t", {"a": {}}), ("t", {"a": [[], []]}), ("t_", {"": [1], "_": [2]}),
  ("t", {"a": [{"b": [{"c": [{"d": [{"e": 1}]}]}]}]}), ("t", [{"a": [1, 2]}, {"a": [3]}, {"a": []}, {}]),
  ("a;b", {"x": 1, "y": [1]}), ("t", {"k": [[[[[1]]]]]}), ("t", [{"z": 1, "a": 2, "m": 3}, {"m": 4, "b": 5}]),
  ("t", {"a": {"t": 1}, "a_t": 2}), ("t", [{"n": 2 ** 100, "f": 1e-320, "g": float("inf")}]),
]


def cases(ck):
  rng = ck.rng
  quick = ck.tier == "quick"
  out = []
  for name, data in ODD:
    out.append((name, data, "", "", "odd"))
    out.append((name, data, "t_a", "", "odd"))
    out.append((name, data, "", "t_a;", "odd"))
  n_small = 0
  for v in small_scope(4 if quick else 5):
    if quick and n_small >= 4 and rng.random() > 0.35:
      continue
    n_small += 1
    out.append(("t", v, "", "", "small"))
    if rng.random() < 0.15:
      out.append(("t", v, rng.choice(["t_a", "t_", "t_a_", "t_a__"]), "", "small"))
    if rng.random() < 0.15:
      out.append(("t", v, "", rng.choice(["t_a", "t_", "t_a_", "t_a__", "t;"]), "small"))
  for _ in range(2500 if quick else 60000):
    name, data = gen_doc(rng)
    inc, exc = gen_opts(rng, name, data)
    out.append((name, data, inc, exc, "random"))
  return out


# ----------------------------------------------------------------------------- JSON text stream (parse_file)

def gen_text(rng, depth):
  """returns (json text, JV with duplicate keys kept in order)"""
  k = rng.random()
  if depth <= 0 or k < 0.3:
    s = gen_scalar(rng)
    if isinstance(s, float) and (math.isnan(s) or math.isinf(s)):
      txt = "NaN" if math.isnan(s) else ("Infinity" if s > 0 else "-Infinity")
      return txt, enc(s)
    return json.dumps(s), enc(s)
  if k < 0.7:
    n = rng.choice([0, 1, 2, 3, 4])
    keys = [rng.choice(["a", "b", "a", "é", "", "a_b", "\U0001F600"]) for _ in range(n)]   # repeats on purpose
    parts, pairs = [], []
    for q in keys:
      t, jv = gen_text(rng, depth - 1)
      parts.append(json.dumps(q, ensure_ascii=rng.random() < 0.5) + rng.choice([":", " : "]) + t)
      pairs.append([cps(q), jv])
    return "{" + rng.choice([",", ", ", " ,\n"]).join(parts) + "}", ["o", pairs]
  n = rng.choice([0, 1, 2, 3])
  parts, vs = [], []
  for _ in range(n):
    t, jv = gen_text(rng, depth - 1)
    parts.append(t); vs.append(jv)
  return "[" + ",".join(parts) + "]", ["a", vs]


# ----------------------------------------------------------------------------- run

def real_dumps(import_json, name, data, inc, exc):
  return import_json.dumps(data, name, {"includes": inc, "excludes": exc})

def is_nontrivial(st):
  return st["objects"] >= 1 and st["elements"] >= 2 and st["scalars_kept"] >= 3

def check_one(ck, import_json, case, model_ans, state):
  name, data, inc, exc, kind = case
  ck.evaluated()
  ck.count("cases_" + kind)
  if inc or exc:
    ck.count("cases_with_options")
  try:
    out = real_dumps(import_json, name, data, inc, exc)
  except RecursionError:
    raise
  except Exception as e:      # the importer must not reject a JSON document
    ck.violation("importer raises on a JSON document", "%s: %s" % (type(e).__name__, e),
                 {"name": name, "data": data, "inc": inc, "exc": exc})
    return
  orc = Oracle(data, name, inc, exc, out)
  probs = orc.run()
  for key in ("objects", "arrays", "elements", "scalars", "scalars_kept", "rows_in_columnless_tables"):
    ck.count("input_" + key, orc.stats[key])
  if is_nontrivial(orc.stats):
    ck.nontrivial_case([name, data, inc, exc])
    txt = json.dumps(data, default=str)
    if kind == "random" and len(txt) < 300 and "NaN" not in txt and "Infinity" not in txt:
      ck.sample({"name": name, "data": data, "includes": inc, "excludes": exc,
                 "tables": [t["table_name"] for t in out["tables"]]})
  seen = set()
  for sig, detail in probs:
    if sig in seen:
      continue
    seen.add(sig)
    ck.count("oracle_" + ("collision" if sig == S_COLL else "columnless" if sig == S_EMPTY else "other"))
    ck.violation(sig, detail, {"name": name, "data": data, "inc": inc, "exc": exc})
  if model_ans is not None:
    cm, cr = canon_model(model_ans), canon_real(out)
    if cm != cr:
      ck.count("model_impl_disagreements")
      if state.get("mism") is None:
        state["mism"] = {"name": name, "data": data, "inc": inc, "exc": exc, "impl": cr, "model": cm}
    if model_ans.get("literal_agrees") is False:
      ck.count("literal_variant_disagrees")
      if state.get("lit") is None:
        state["lit"] = {"name": name, "data": data, "inc": inc, "exc": exc}


def op_of(name, jv, inc, exc):
  return {"m": "jsonimport", "name": cps(name), "inc": cps(inc), "exc": cps(exc), "data": jv}


# witnesses of the `example : ¬ ...` statements in GristProps/C33.lean, replayed on the real code
WITNESSES = [
  ("t", {"b": {"c": [1]}, "b_c": [2]}, S_COLL),
  ("t", {"a": {}}, S_EMPTY),
  ("t", [[1]], S_EMPTY),
]


def run(ck):
  from imports import import_json
  ck.rule = ("random documents (depth <= 5; records, nested objects, arrays of scalars / objects / arrays, empty "
             "containers, unicode and '_'-laden keys chosen to collide, None, bools, big ints, floats incl. nan/inf) with "
             "include/exclude options derived from the document's own paths in 40% of the cases; all documents of <= 4 "
             "(quick, sub-sampled) / <= 5 (thorough) nodes over keys {'', 'a', 'a_'}; a fixed list of odd documents; JSON "
             "texts with repeated keys through parse_file.  non-trivial = at least one nested object, two array elements "
             "and three kept scalars; distinct by (name, data, options)")
  ck.assumptions = ["strings are sequences of Unicode scalar values (no lone surrogates)",
                    "numbers are opaque tokens (int/float both 'Numeric'); bool is distinguished from int by type",
                    "the JSON text parser (json.loads) is not modelled; its handling of repeated keys (last wins) is, "
                    "and is exercised through parse_file",
                    "object keys are str (JSON)"]
  ck.lean(["GristProps.C33"])
  allc = cases(ck)
  ops = [op_of(name, enc(data), inc, exc) for (name, data, inc, exc, _) in allc]
  model = ck.driver(ops)
  state = {}
  for case, mo in zip(allc, model):
    check_one(ck, import_json, case, mo, state)
  # the Lean counter-examples on the real code
  for name, data, sig in WITNESSES:
    try:
      out = real_dumps(import_json, name, data, "", "")
    except RecursionError:
      raise
    except Exception as e:      # the importer must not reject a JSON document
      ck.violation("importer raises on a JSON document", "%s: %s" % (type(e).__name__, e),
                   {"name": name, "data": data, "inc": "", "exc": ""})
      continue
    probs = Oracle(data, name, "", "", out).run()
    if sig not in [p[0] for p in probs]:
      ck.broken("Lean witness does not fail on the real code", "%r %r: %r" % (name, data, probs))
    for s, d in probs:
      ck.violation(s, d, {"name": name, "data": data, "inc": "", "exc": ""})
  text_stream(ck, import_json, state)
  if state.get("lit") and not ck.has_impl_violation():
    ck.broken("literal (append-then-fill) variant of the model differs from the proved model",
              "GristModel.JsonImport.buildPy != build", state["lit"])
  if state.get("mism") and not ck.has_impl_violation():
    ck.broken("correspondence import_json.dumps vs Grist.JsonImport.dumps",
              "model and implementation differ and the property's clauses hold (up to the known findings) on all explored inputs",
              state["mism"])


def text_stream(ck, import_json, state):
  rng = ck.rng
  n = 150 if ck.tier == "quick" else 3000
  d = tempfile.mkdtemp(prefix="c33_")
  old = os.environ.get("IMPORTDIR")
  os.environ["IMPORTDIR"] = d
  try:
    items = []
    for i in range(n):
      txt, jv = gen_text(rng, rng.choice([2, 3, 4]))
      items.append((txt, jv))
    model = ck.driver([op_of("f", jv, "", "") for _, jv in items])
    for (txt, jv), mo in zip(items, model):
      ck.evaluated(); ck.count("cases_text")
      with open(os.path.join(d, "f.json"), "w", encoding="utf8") as f:
        f.write(txt)
      data = json.loads(txt)
      try:
        out = import_json.parse_file({"path": "f.json", "origName": "f.json"}, {})
      except RecursionError:
        raise
      except Exception as e:      # the importer must not reject a JSON document
        ck.violation("importer raises on a JSON document", "%s: %s" % (type(e).__name__, e),
                     {"name": "f", "text": txt, "inc": "", "exc": ""})
        continue
      for sig, detail in Oracle(data, "f", "", "", out).run():
        ck.violation(sig, detail, {"name": "f", "text": txt, "inc": "", "exc": ""})
      cm, cr = canon_model(mo), canon_real(out)
      if cm != cr:
        ck.count("model_impl_disagreements")
        if state.get("mism") is None:
          state["mism"] = {"text": txt, "impl": cr, "model": cm}
  finally:
    if old is None: os.environ.pop("IMPORTDIR", None)
    else: os.environ["IMPORTDIR"] = old
    shutil.rmtree(d, ignore_errors=True)


def replay(ck, rp):
  from imports import import_json
  r = rp["replay"]
  if "text" in r:
    data = json.loads(r["text"])
  else:
    data = r["data"]
  name, inc, exc = r["name"], r.get("inc", ""), r.get("exc", "")
  ck.evaluated()
  try:
    out = real_dumps(import_json, name, data, inc, exc)
  except Exception as e:
    print("replay: raises %s: %s" % (type(e).__name__, e))
    ck.violation("importer raises on a JSON document", str(e), r)
    return
  probs = Oracle(data, name, inc, exc, out).run()
  print("replay: name=%r data=%s includes=%r excludes=%r" % (name, json.dumps(data), inc, exc))
  for t in out["tables"]:
    print("   ", json.dumps(t))
  print("  ->", probs or "property holds")
  for sig, detail in probs:
    ck.violation(sig, detail, r)
  ck.nontrivial_case([name, data, inc, exc]); ck.nontrivial_case("replay")
  ck.lean(["GristProps.C33"])
