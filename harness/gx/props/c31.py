"""
C31  Actions are marked direct only when the user asked for them

Theorems: GristProps/C31.lean (direct_parallel for every step incl. rollback and finish; flush marks non-direct).
Tie: model direct list == engine's.  Search: independent classification of every stored action.
"""
import json

from gx.props import _hist

PROP = "C31"
CFG = {"oracles": ('direct', 'replica'), "n_bundles": 14, "hook": 'gx.props.c31.install',
       "profile": {"add_empty_column": 6, "summary": 5, "add_formula_column": 7, "add_record": 16, "update_record": 16, "remove_record": 8,
                   "undo_earlier": 0, "malformed": 2, "remove_table": 0.3, "remove_column": 1}}
TIE_KINDS = ('direct', 'driver')


def run(ck):
  ck.rule = 'seeded histories of record edits on documents with formulas and summary tables; every stored action is classified independently (see classify()); non-trivial = bundle with both direct and non-direct actions'
  ck.assumptions = ['user formulas are deterministic programs over the cells they read (generator emits only such formulas)', 'private / virtual columns (#lookup, #summary helpers) are not communicated and not modelled', 'documents compare by canonical encodings (equal_encoding): 1 and 1.0 are the same stored value, True and 1 are not']
  ck.lean(['GristProps.C31'])
  merged = _hist.run_histories(ck, CFG, n_quick=20, n_thorough=1600)
  post(ck, merged)
  _hist.report(ck, merged, PROP, TIE_KINDS)


RECORD_KINDS = {"add_record", "bulk_add", "update_record", "bulk_update", "remove_record", "bulk_remove",
                "upsert", "temp_ids"}


def install(h, cfg):
  h.extra_oracles.append(classify)


def classify(h, rec):
  """Independent classification of every stored action of a record-edit bundle."""
  if not rec["kinds"] or not set(rec["kinds"]) <= RECORD_KINDS:
    return
  res = rec["res"]
  doc = h.doc
  sch = doc.engine_schema()
  summary_tables = set(t["tableId"] for t in doc.meta("_grist_Tables") if t.get("summarySourceTable"))
  tname = dict((t["id"], t["tableId"]) for t in doc.meta("_grist_Tables"))
  crecs = dict((c["id"], c) for c in doc.meta("_grist_Tables_column"))
  reverse_of = {}
  for c in crecs.values():
    r = crecs.get(c.get("reverseCol") or 0)
    if r:
      reverse_of[(tname.get(c["parentId"]), c["colId"])] = (tname.get(r["parentId"]), r["colId"])

  class _Rev(dict):
    def get(self, k, d=(None, None)):
      return dict.get(self, k, d)
  reverse_of = _Rev(reverse_of)
  doc_steps = set(json.dumps(st[1], sort_keys=True) for st in (res.steps or []) if st and st[0] == "doc" and st[-1] == "ok")
  requested = set()
  for ua in rec["actions"]:
    if ua[0] in ("AddRecord", "BulkAddRecord", "UpdateRecord", "BulkUpdateRecord", "RemoveRecord",
                 "BulkRemoveRecord", "AddOrUpdateRecord", "BulkAddOrUpdateRecord"):
      requested.add(ua[1])
  mixed = set()
  for a, flag in zip(res.stored, res.direct):
    name, tid = a[0], a[1]
    mixed.add(flag)
    # maintenance of summary-table ROWS = adding / removing them (an update of a summary table's
    # group-by cell can also be the reference clean-up of a user's removal, which the property
    # does not classify; updates of its formula columns fall under the next clause)
    if tid in summary_tables and name in ("AddRecord", "BulkAddRecord", "RemoveRecord", "BulkRemoveRecord"):
      if flag:
        h._find("C31", "summary-table row maintenance marked direct", "%s %s" % (name, tid), rec)
      continue
    if name in ("UpdateRecord", "BulkUpdateRecord") and tid in sch:
      cols = list(a[3].keys())
      # formula columns, and data columns carrying a (trigger / default) formula: their values are
      # formula results unless the user action itself supplied the column
      supplied = set()
      for ua in rec["actions"]:
        for part in ua[2:]:
          if isinstance(part, dict):
            if ua[1] == tid:
              supplied.update(part.keys())
            # the other side of a two-way reference: writing it makes the user-action layer write this
            # column too (reverse adjustment), which is the user's edit, not a formula result
            supplied.update(c for (t, c) in (reverse_of.get((ua[1], k)) for k in part.keys()) if t == tid)
      # a data column's cell is a formula result only when the CALCULATION wrote it: an update performed as
      # a doc action by the user-action layer (reverse adjustment of a two-way reference, reference clean-up
      # after a removal, ...) is a data write even if the column carries a trigger formula
      from_doc = json.dumps(a, sort_keys=True) in doc_steps
      if cols and all(c in sch[tid] and (sch[tid][c][1] or (sch[tid][c][2] and c not in supplied and not from_doc))
                      for c in cols):
        if flag:
          h._find("C31", "update of formula results marked direct", "%s %s %r" % (name, tid, cols), rec)
        continue
    if name in ("ModifyColumn",) or (tid == "_grist_Tables_column" and name.endswith("UpdateRecord")):
      if flag:
        h._find("C31", "column conversion while entering data marked direct", "%s %s" % (name, tid), rec)
      continue
  # the requested edits: for every user action that updates / adds / removes given rows of an ordinary
  # user table, the cells it names must be carried by a DIRECT stored action; it is a violation when
  # stored actions touch those cells but none of them is direct
  for ua, rv in zip(rec["actions"], res.ret):
    kind = ua[0]
    if kind not in ("UpdateRecord", "BulkUpdateRecord", "AddRecord", "BulkAddRecord", "RemoveRecord", "BulkRemoveRecord"):
      continue
    tid = ua[1]
    if tid in summary_tables or tid.startswith("_grist_") or tid not in sch:
      continue
    if kind == "AddRecord":
      rows, cols = ([rv] if isinstance(rv, int) else []), set(ua[3].keys())
    elif kind == "BulkAddRecord":
      rows, cols = (list(rv) if isinstance(rv, list) else []), set(ua[3].keys())
    elif kind == "UpdateRecord":
      rows, cols = [ua[2]], set(ua[3].keys())
    elif kind == "BulkUpdateRecord":
      rows, cols = list(ua[2]), set(ua[3].keys())
    elif kind == "RemoveRecord":
      rows, cols = [ua[2]], None
    else:
      rows, cols = list(ua[2]), None
    rows = [r for r in rows if isinstance(r, int) and r > 0]
    if not rows:
      continue
    fam = "Add" if "Add" in kind else ("Update" if "Update" in kind else "Remove")
    touching = []
    for a, flag in zip(res.stored, res.direct):
      if a[1] != tid or fam not in a[0] or not a[0].endswith("Record"):
        continue
      arows = a[2] if isinstance(a[2], list) else [a[2]]
      if not set(arows) & set(rows):
        continue
      if cols is not None and fam == "Update":
        acols = set(a[3].keys())
        datac = [c for c in acols & cols if c in sch[tid] and not sch[tid][c][1]]
        if not datac:
          continue
      touching.append(flag)
    if touching and not any(touching):
      h._find("C31", "requested record edit on a user table marked non-direct", "%s %s rows %r" % (kind, tid, rows), rec)
  if len(mixed) == 2:
    rec["nontrivial"] = True


def post(ck, merged):
  pass


def replay(ck, rp):
  ck.lean(['GristProps.C31'])
  _hist.replay_history(ck, rp, PROP, CFG["oracles"])
