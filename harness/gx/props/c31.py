"""
C31  Actions are marked direct only when the user asked for them

Theorems: GristProps/C31.lean (direct_parallel for every step incl. rollback and finish; flush marks non-direct).
Tie: model direct list == engine's.  Search: independent classification of every stored action.
"""
from gx.props import _hist

PROP = "C31"
CFG = {"oracles": ('direct', 'replica'), "n_bundles": 14, "hook": 'gx.props.c31.install',
       "profile": {"add_empty_column": 6, "summary": 5, "add_formula_column": 7, "add_record": 16, "update_record": 16, "remove_record": 8,
                   "undo_earlier": 0, "malformed": 2, "remove_table": 0.3, "remove_column": 1}}
TIE_KINDS = ('direct', 'driver')


def run(ck):
  ck.rule = 'seeded histories of record edits on documents with formulas and summary tables; every stored action is classified independently (see classify()); non-trivial = bundle with both direct and non-direct actions'
  ck.assumptions = ['user formulas are deterministic programs over the cells they read (generator emits only such formulas)', 'private / virtual columns (#lookup, #summary helpers) are not communicated and not modelled', 'documents compare by canonical encodings (equal_encoding): 1 and 1.0 are the same stored value, True and 1 are not']
  ck.lean(['GristProps.C31'])
  merged = _hist.run_histories(ck, CFG, n_quick=20, n_thorough=1600)
  post(ck, merged)
  _hist.report(ck, merged, PROP, TIE_KINDS)


RECORD_KINDS = {"add_record", "bulk_add", "update_record", "bulk_update", "remove_record", "bulk_remove",
                "upsert", "temp_ids"}


def install(h, cfg):
  h.extra_oracles.append(classify)


def classify(h, rec):
  """Independent classification of every stored action of a record-edit bundle."""
  if not rec["kinds"] or not set(rec["kinds"]) <= RECORD_KINDS:
    return
  res = rec["res"]
  doc = h.doc
  sch = doc.engine_schema()
  summary_tables = set(t["tableId"] for t in doc.meta("_grist_Tables") if t.get("summarySourceTable"))
  requested = set()
  for ua in rec["actions"]:
    if ua[0] in ("AddRecord", "BulkAddRecord", "UpdateRecord", "BulkUpdateRecord", "RemoveRecord",
                 "BulkRemoveRecord", "AddOrUpdateRecord", "BulkAddOrUpdateRecord"):
      requested.add(ua[1])
  mixed = set()
  for a, flag in zip(res.stored, res.direct):
    name, tid = a[0], a[1]
    mixed.add(flag)
    if tid in summary_tables and name in ("AddRecord", "BulkAddRecord", "RemoveRecord", "BulkRemoveRecord",
                                          "UpdateRecord", "BulkUpdateRecord"):
      if flag:
        h._find("C31", "summary-table row maintenance marked direct", "%s %s" % (name, tid), rec)
      continue
    if name in ("UpdateRecord", "BulkUpdateRecord") and tid in sch:
      cols = list(a[3].keys())
      # formula columns, and data columns carrying a (trigger / default) formula: their values are
      # formula results unless the user action itself supplied the column
      supplied = set()
      for ua in rec["actions"]:
        if ua[1] == tid:
          for part in ua[2:]:
            if isinstance(part, dict):
              supplied.update(part.keys())
      if cols and all(c in sch[tid] and (sch[tid][c][1] or (sch[tid][c][2] and c not in supplied)) for c in cols):
        if flag:
          h._find("C31", "update of formula results marked direct", "%s %s %r" % (name, tid, cols), rec)
        continue
    if name in ("ModifyColumn",) or (tid == "_grist_Tables_column" and name.endswith("UpdateRecord")):
      if flag:
        h._find("C31", "column conversion while entering data marked direct", "%s %s" % (name, tid), rec)
      continue
    if tid in requested and tid not in summary_tables and not tid.startswith("_grist_") \
        and name in ("AddRecord", "BulkAddRecord", "RemoveRecord", "BulkRemoveRecord", "UpdateRecord", "BulkUpdateRecord"):
      # the user's requested edit: its data columns must be carried by a direct action
      datacols = [c for c in (a[3].keys() if len(a) > 3 else [])
                  if c in sch.get(tid, {}) and not sch[tid][c][1] and not sch[tid][c][2]]
      if (name.endswith("RemoveRecord") or name.endswith("AddRecord") or datacols) and not flag:
        # reverse-reference / position adjustments of OTHER rows are not the user's request: only
        # flag when the rows are among the requested rows or newly returned ids
        rows = a[2] if isinstance(a[2], list) else [a[2]]
        req_rows = set()
        for ua, rv in zip(rec["actions"], res.ret):
          if ua[1] != tid:
            continue
          if ua[0] in ("UpdateRecord", "RemoveRecord"):
            req_rows.add(ua[2])
          elif ua[0] in ("BulkUpdateRecord", "BulkRemoveRecord"):
            req_rows.update(ua[2])
          elif ua[0] == "AddRecord" and isinstance(rv, int):
            req_rows.add(rv)
          elif ua[0] == "BulkAddRecord" and isinstance(rv, list):
            req_rows.update(rv)
        if set(rows) <= req_rows and req_rows:
          h._find("C31", "requested record edit on a user table marked non-direct", "%s %s rows %r" % (name, tid, rows), rec)
  if len(mixed) == 2:
    rec["nontrivial"] = True


def post(ck, merged):
  pass


def replay(ck, rp):
  ck.lean(['GristProps.C31'])
  _hist.replay_history(ck, rp, PROP, CFG["oracles"])
