"""
C31  Actions are marked direct only when the user asked for them

Theorems: GristProps/C31.lean (direct_parallel for every step incl. rollback and finish; flush marks non-direct).
Tie: model direct list == engine's.  Search: independent classification of every stored action.

Mid-bundle evaluation (added after a seeded change that `./check C31` missed).  Summary-table rows are added by
the per-table `#summary#` helper formulas (Table._add_update_summary_col: lookupOrAddDerived for plain group-by
columns, a BulkAddRecord for list-valued ones).  Normally these formulas run in the final recalculation of
Engine.apply_user_actions, but a user action that LOOKS RECORDS UP BY A FORMULA COLUMN ([Bulk]AddOrUpdateRecord
whose `require` names a formula column) evaluates that column in the middle of the bundle; if the column reads a
formula column of a summary table (count / group / an aggregate) the helper runs right there, between two of the
user's doc actions.  The property makes no difference: that summary row is maintenance and must be non-direct,
and the user's edits around it must be direct.  Two sources exercise this on every run:
  * witness histories (`_witness_run`): a fixed document (source table, second table, summary table grouped by
    Text / Int / ChoiceList / two columns incl. a list column, formula columns reading the summary table from the
    source table and from the other table) followed by bundles [edit that moves / adds source rows into groups
    without a summary row] + [upsert keyed on such a formula column] (+ a trailing edit);
  * two generator kinds in the random histories (`c31_mid_setup`, `c31_mid_upsert`) doing the same on whatever
    summary tables the random history has produced.
Interpretation for upserts: the rows an upsert reports as added / updated (its return value) are "the user's
requested record edits": the stored Add / data-cell Update actions of those rows on an ordinary user table must
include a direct one (same demand as for plain Add / Update / Remove).
These situations are judged by the DIRECT ORACLE only (classify()).  The Lean model observes the flag of each doc
step, it does not model which code runs inside `with indirect_actions()`, so it agrees with the engine whatever
the flag of a mid-bundle summary row is.
"""
import copy
import json
import random
import types

from gx.props import _hist

PROP = "C31"
CFG = {"oracles": ('direct', 'replica'), "n_bundles": 14, "hook": 'gx.props.c31.install',
       "profile": {"add_empty_column": 6, "summary": 5, "add_formula_column": 7, "add_record": 16, "update_record": 16, "remove_record": 8,
                   "undo_earlier": 0, "malformed": 2, "remove_table": 0.3, "remove_column": 1,
                   "c31_mid_setup": 2, "c31_mid_upsert": 8}}
TIE_KINDS = ('direct', 'driver')
# histories 0 .. N_RANDOM-1 of a run are random histories, the following N_WITNESS ones are witness histories
N_RANDOM = {"quick": 20, "thorough": 1600}
N_WITNESS = {"quick": 10, "thorough": 200}
MID_COUNTERS = ("mid_witness_bundles", "mid_generated_bundles", "mid_bundles_rejected",
                "upsert_keyed_on_formula_column", "upsert_keyed_on_formula_column_reading_summary_table",
                "summary_row_added_mid_bundle", "summary_row_added_mid_bundle_plain_helper",
                "summary_row_added_mid_bundle_list_helper", "summary_row_added_mid_bundle_upsert_on_other_table",
                "summary_row_added_mid_bundle_in_random_history", "upsert_requested_edits_judged")


def run(ck):
  ck.rule = 'seeded histories of record edits on documents with formulas and summary tables; every stored action is classified independently (see classify()); non-trivial = bundle with both direct and non-direct actions'
  ck.assumptions = ['user formulas are deterministic programs over the cells they read (generator emits only such formulas)', 'private / virtual columns (#lookup, #summary helpers) are not communicated and not modelled', 'documents compare by canonical encodings (equal_encoding): 1 and 1.0 are the same stored value, True and 1 are not',
                    'bundles in which a formula (hence a summary-table helper) is evaluated in the MIDDLE of the bundle (upsert keyed on a formula column that reads a summary table) are judged by the direct oracle only: the Lean model takes the flag of every doc step from the recorded step word, so it cannot tell a summary row that is wrongly flagged direct; the tie still checks stored/direct parallelism and the flag bookkeeping on them',
                    'an upsert\'s requested edits are the rows its return value reports as added / updated',
                    'on the unchanged tree such bundles also lose the calc deltas of the cells evaluated mid-bundle (a C02 matter: stored actions do not carry them); C02 findings raised by the replica oracle in this run are counted in other_property_findings_ignored, not judged here, and model/engine disagreements after them count as explained']
  ck.lean(['GristProps.C31'])
  nr, nw = N_RANDOM.get(ck.tier, N_RANDOM["thorough"]), N_WITNESS.get(ck.tier, N_WITNESS["thorough"])
  cfg = dict(CFG, c31_n_random=nr)
  merged = _hist.run_histories(ck, cfg, n_quick=nr + nw, n_thorough=nr + nw)
  post(ck, merged)
  _hist.report(ck, merged, PROP, TIE_KINDS)


RECORD_KINDS = {"add_record", "bulk_add", "update_record", "bulk_update", "remove_record", "bulk_remove",
                "upsert", "temp_ids", "c31_mid_upsert", "c31_mid_witness", "replay_record"}
RECORD_UAS = ("AddRecord", "BulkAddRecord", "UpdateRecord", "BulkUpdateRecord", "RemoveRecord",
              "BulkRemoveRecord", "AddOrUpdateRecord", "BulkAddOrUpdateRecord")
MID_SIG = "summary-table row added in the middle of the bundle (before a later user edit) marked direct"


def _history_index(h):
  """Index of this history within the run (the runner labels the tie with the history's seed)."""
  try:
    return int(h.tie.label) % 100000
  except Exception:
    return None


def install(h, cfg):
  h.extra_oracles.append(classify)
  for k in MID_COUNTERS:
    h.stats.setdefault("c31_" + k, 0)
  h.c31_names = 0
  h.c31_fresh = 0
  h.c31_witness = False
  h.gen.g_c31_mid_setup = lambda w: g_mid_setup(h, w)
  h.gen.g_c31_mid_upsert = lambda w: g_mid_upsert(h, w)
  nr = cfg.get("c31_n_random")
  idx = _history_index(h)
  if nr is not None and idx is not None and idx >= nr:
    h.c31_witness = True
    h.run = types.MethodType(lambda self, k=idx - nr: _witness_run(self, k), h)
  elif h.setup is None and h.rng.random() < 0.5:
    h.setup = _prelude


# ------------------------------------------------------------------------------------------------
# generators: bundles that make the engine evaluate a summary-table helper in the middle of a bundle

def _fresh(h, typ):
  """A group-by value no row has yet (so that the group has no summary row), by column type."""
  h.c31_fresh += 1
  k = h.c31_fresh
  base = typ.split(":")[0]
  if base in ("Text", "Choice", "Any"):
    return "m%d" % k
  if base == "Int":
    return 1000 + k
  if base == "Numeric":
    return 1000.5 + k
  if base == "ChoiceList":
    return ["L", "m%d" % k] if k % 3 else ["L", "m%d" % k, "n%d" % k]
  return None


def _crowded_rows(h, tid, cid, rows):
  """Rows of `tid` ordered so that rows sharing their `cid` value with most other rows come first (moving one of
  them leaves its old group alive, and the formulas of the rows left behind are recomputed)."""
  try:
    td = h.doc.engine.fetch_table(tid)
    vals = dict(zip(td.row_ids, [json.dumps(v, sort_keys=True, default=str) for v in td.columns[cid]]))
  except Exception:
    return list(rows)
  freq = {}
  for r in rows:
    freq[vals.get(r)] = freq.get(vals.get(r), 0) + 1
  return sorted(rows, key=lambda r: (-freq.get(vals.get(r), 0), r))


def _summaries(w):
  """[(source table, summary table, [group-by column entries of the SOURCE table])] for summary tables that
  still have their `count` formula column and at least one group-by column."""
  by_ref = dict((t["ref"], t) for t in w.tables.values())
  out = []
  for s in w.user_tables(summary=True):
    src = by_ref.get(s["summarySource"])
    if not src or src["summarySource"]:
      continue
    gb = []
    bad = False
    for c in s["cols"]:
      if c["summarySourceCol"]:
        sc = w.cols_by_ref.get(c["summarySourceCol"])
        if sc is None or sc["colId"] != c["colId"] or sc["table"] != src["tableId"]:
          bad = True
        else:
          gb.append(sc)
    if bad or not gb:
      continue
    if not any(c["colId"] == "count" and c["isFormula"] and c["formula"] for c in s["cols"]):
      continue
    out.append((src, s, gb))
  return out


def _mid_cols(w):
  """Formula columns created by g_mid_setup that still read an existing summary table:
  [(host table, column, source table, summary table, group-by columns)]."""
  out = []
  sums = _summaries(w)
  for t in w.user_tables():
    for c in w.formula_cols(t):
      if not c["colId"].startswith("c31m"):
        continue
      for (src, s, gb) in sums:
        if s["tableId"] + "." in c["formula"]:
          out.append((t, c, src, s, gb))
          break
  return out


def g_mid_setup(h, w):
  """Stage 1: a summary table with 1-2 group-by columns (when the document has none that qualifies);
  stage 2: AddColumn of a formula column that reads a formula column of a summary table (the key of later
  upserts).  None when every (host, summary table) pair picked already has such a column."""
  rng = h.gen.rng
  have = set((t["tableId"], s["tableId"]) for (t, c, src, s, gb) in _mid_cols(w))
  cands = _summaries(w)
  if not cands:
    ts = [t for t in w.user_tables() if any(c["type"] in ("Int", "Text", "Choice", "ChoiceList", "Numeric", "Bool")
                                            for c in w.data_cols(t))]
    if not ts:
      return None
    t = rng.choice(ts)
    cs = [c for c in w.data_cols(t) if c["type"] in ("Int", "Text", "Choice", "ChoiceList", "Numeric", "Bool")]
    gbs = rng.sample(cs, min(len(cs), rng.choice([1, 1, 2])))
    return ["CreateViewSection", t["ref"], 0, "record", [c["ref"] for c in gbs], None]
  src, s, gb = rng.choice(cands)
  hosts = [src] + [t for t in w.user_tables() if t is not src]
  host = src if rng.random() < 0.7 else rng.choice(hosts)
  if (host["tableId"], s["tableId"]) in have:
    return None
  S = s["tableId"]
  forms = ["SUM(r.count for r in %s.all)" % S, "MAX([len(r.group) for r in %s.all] + [0])" % S]
  if host is src and all(c["type"].split(":")[0] in ("Text", "Int", "Choice", "Bool", "Numeric") for c in gb):
    keys = ", ".join("%s=$%s" % (c["colId"], c["colId"]) for c in gb)
    forms += ["%s.lookupOne(%s).count" % (S, keys), "len(%s.lookupOne(%s).group)" % (S, keys)]
  h.c31_names += 1
  return ["AddColumn", host["tableId"], "c31m%d" % h.c31_names,
          {"type": "Any", "isFormula": True, "formula": rng.choice(forms)}]


def _prelude(h):
  """Set-up bundles of a random history (after its initial tables): summary table + formula column reading it,
  so that `c31_mid_upsert` can fire from the first bundle on."""
  from gx.gen_hist import World
  for _ in range(2):
    ua = g_mid_setup(h, World(h.doc))
    if ua:
      yield [ua]


def _mover(h, w, src, gb):
  """A record edit of the source table that puts rows into groups that have no summary row yet."""
  rng = h.gen.rng
  gen = h.gen
  col = rng.choice(gb)
  def val():
    v = _fresh(h, col["type"])
    return gen.value_for(w, col, allow_bad=False) if v is None else v
  rows = _crowded_rows(h, src["tableId"], col["colId"], src["rows"])
  kinds = ["add", "bulk_add", "upsert_add"] + (["update"] * 8 if rows else []) + \
          (["bulk_update"] * 3 if len(rows) >= 2 else [])
  k = rng.choice(kinds)
  T = src["tableId"]
  if k == "update":
    return ["UpdateRecord", T, rows[0] if rng.random() < 0.7 else rng.choice(rows), {col["colId"]: val()}]
  if k == "bulk_update":
    rs = [rows[0], rng.choice(rows[1:])]
    return ["BulkUpdateRecord", T, rs, {col["colId"]: [val() for _ in rs]}]
  others = [c for c in w.data_cols(src) if c["colId"] != col["colId"] and rng.random() < 0.5]
  if k == "add":
    vals = {c["colId"]: gen.value_for(w, c, allow_bad=False) for c in others}
    vals[col["colId"]] = val()
    return ["AddRecord", T, None, vals]
  if k == "bulk_add":
    vals = {c["colId"]: [gen.value_for(w, c, allow_bad=False) for _ in range(2)] for c in others}
    vals[col["colId"]] = [val(), val()]
    return ["BulkAddRecord", T, [None, None], vals]
  v = val()
  if isinstance(v, list):     # list values are not lookup keys of an upsert
    return ["AddRecord", T, None, {col["colId"]: v}]
  return ["AddOrUpdateRecord", T, {col["colId"]: v}, {}, {}]


def _key_values(h, tid, cid, n):
  """n distinct `require` values for a formula column holding small numbers: values some rows hold now, values
  they are likely to hold once the bundle's earlier edits are taken into account, and values nobody holds."""
  rng = h.gen.rng
  cur = []
  try:
    td = h.doc.engine.fetch_table(tid, formulas=True)
    cur = [v for v in td.columns.get(cid, []) if isinstance(v, int) and not isinstance(v, bool)]
  except Exception:
    pass
  pool = sorted(set(cur + [v + 1 for v in cur] + [v + 2 for v in cur] + [0, 1, 2, 99]))
  rng.shuffle(pool)
  return pool[:n]


def _forcer(h, w, host, fcol):
  """An upsert on `host` whose lookup key is the formula column `fcol`."""
  rng = h.gen.rng
  gen = h.gen
  T, f = host["tableId"], fcol["colId"]
  dcs = [c for c in w.data_cols(host)]
  vcols = rng.sample(dcs, rng.randint(0, min(2, len(dcs)))) if dcs else []
  opts = {}
  r = rng.random()
  if r < 0.3:
    opts["on_many"] = rng.choice(["first", "none", "all"])
  elif r < 0.4:
    opts["add"] = False
  elif r < 0.5:
    opts["update"] = False
  if rng.random() < 0.6:
    kv = _key_values(h, T, f, 1)
    return ["AddOrUpdateRecord", T, {f: kv[0]}, {c["colId"]: gen.value_for(w, c, allow_bad=False) for c in vcols}, opts]
  kv = _key_values(h, T, f, rng.choice([2, 2, 3]))
  return ["BulkAddOrUpdateRecord", T, {f: kv},
          {c["colId"]: [gen.value_for(w, c, allow_bad=False) for _ in kv] for c in vcols}, opts]


def g_mid_upsert(h, w):
  """[edit moving source rows into new groups, upsert keyed on a formula column reading the summary table
  (, trailing edit)] - one bundle."""
  rng = h.gen.rng
  cands = _mid_cols(w)
  if not cands:
    return g_mid_setup(h, w)      # a schema stage; classify() looks at record-edit bundles only
  host, fcol, src, s, gb = rng.choice(cands)
  src = w.tables.get(src["tableId"], src)
  if len(src["rows"]) < 3:
    # too few source rows for a group to survive a regrouping: add rows that share their group-by values
    vals = dict((c["colId"], [h.gen.value_for(w, c, allow_bad=False)] * 3) for c in gb)
    return ["BulkAddRecord", src["tableId"], [None] * 3, vals]
  uas = [_mover(h, w, src, gb), _forcer(h, w, host, fcol)]
  if rng.random() < 0.5:
    t = rng.choice([src, host])
    if t["rows"] and w.data_cols(t):
      c = rng.choice(w.data_cols(t))
      uas.append(["UpdateRecord", t["tableId"], rng.choice(t["rows"]), {c["colId"]: h.gen.value_for(w, c, allow_bad=False)}])
  h.stats["c31_mid_generated_bundles"] += 1
  return (uas,)


# ------------------------------------------------------------------------------------------------
# witness histories

WITNESS_GROUPBY = [("cat",), ("n",), ("tags",), ("cat", "n"), ("cat", "tags")]


def _witness_run(h, k):
  """A fixed document + bundles that force a summary helper mid-bundle.  `k` rotates the group-by variant so
  that every variant (plain helper, list helper, two columns) occurs in every quick run; everything else is
  drawn from the history's seeded rng."""
  from gx.gen_hist import World
  rng = h.rng
  gbv = WITNESS_GROUPBY[k % len(WITNESS_GROUPBY)]
  col = lambda i, t: {"id": i, "type": t, "isFormula": False, "formula": ""}
  h.apply([["AddTable", "Src", [col("cat", "Text"), col("n", "Int"), col("tags", "ChoiceList"),
                                col("amount", "Numeric"), col("note", "Text")]]], ["init_table"])
  h.apply([["AddTable", "Oth", [col("x", "Text"), col("y", "Int")]]], ["init_table"])
  h.apply([["BulkAddRecord", "Src", [None] * 6, {
    "cat": ["a", "a", "a", "b", "b", "c"], "n": [1, 1, 2, 2, 2, 3],
    "tags": [["L", "p", "q"], ["L", "p"], ["L", "q"], ["L", "p"], ["L"], ["L", "q", "r"]],
    "amount": [1, 2, 3, 4, 5, 6]}]], ["bulk_add"])
  h.apply([["BulkAddRecord", "Oth", [None] * 3, {"x": ["a", "b", "zz"], "y": [1, 2, 3]}]], ["bulk_add"])
  w = World(h.doc)
  if "Src" not in w.tables or "Oth" not in w.tables:
    raise RuntimeError("witness document could not be built")
  refs = dict((c["colId"], c["ref"]) for c in w.tables["Src"]["cols"])
  h.apply([["CreateViewSection", w.tables["Src"]["ref"], 0, "record", [refs[c] for c in gbv], None]], ["summary"])
  if rng.random() < 0.4:      # a second summary table of the same source: two helpers
    other = rng.choice([v for v in WITNESS_GROUPBY if v != gbv])
    h.apply([["CreateViewSection", w.tables["Src"]["ref"], 0, "record", [refs[c] for c in other], None]], ["summary"])
  w = World(h.doc)
  S = None
  for (src, s, gb) in _summaries(w):
    if src["tableId"] == "Src" and tuple(sorted(c["colId"] for c in gb)) == tuple(sorted(gbv)):
      S = s["tableId"]
  if S is None:
    raise RuntimeError("witness summary table not found")
  plain = [c for c in gbv if c != "tags"]
  keys = ", ".join("%s=$%s" % (c, c) for c in plain)
  forms = {"fall": "SUM(r.count for r in %s.all)" % S}
  if "tags" in gbv:
    forms["fkey"] = "SUM(len(r.group) for r in %s.all if r.count)" % S
    forms["fgrp"] = "MAX([r.count for r in %s.all] + [0])" % S
  else:
    forms["fkey"] = "%s.lookupOne(%s).count" % (S, keys)
    forms["fgrp"] = "len(%s.lookupOne(%s).group)" % (S, keys)
  for cid in sorted(forms):
    h.apply([["AddColumn", "Src", cid, {"type": "Any", "isFormula": True, "formula": forms[cid]}]], ["add_formula_column"])
  g = ("%s.lookupOne(cat=$x).count" % S) if gbv == ("cat",) else ("SUM(r.count for r in %s.all)" % S)
  h.apply([["AddColumn", "Oth", "g", {"type": "Any", "isFormula": True, "formula": g}]], ["add_formula_column"])
  types_ = {"cat": "Text", "n": "Int", "tags": "ChoiceList"}
  n_b = 8
  for b in range(n_b):
    w = World(h.doc)
    src, oth = w.tables.get("Src"), w.tables.get("Oth")
    if not src or not oth:
      break
    rows = src["rows"]
    gcol = rng.choice(gbv)
    fresh = lambda: _fresh(h, types_[gcol])
    crowd = _crowded_rows(h, "Src", gcol, rows)
    keep = {"cat": "a", "n": 1, "tags": ["L", "p"]}[gcol]      # a group-by value that has a summary row
    mk = ["update", "bulk_update", "add+remove", "bulk_add+update", "upsert_add+update", "update2", "add", "remove"][(b + k) % 8]
    if len(rows) < 3:
      mk = "add"
    if mk == "update":
      movers = [["UpdateRecord", "Src", crowd[0], {gcol: fresh()}]]
    elif mk == "update2":      # every group-by column gets a fresh value
      movers = [["UpdateRecord", "Src", crowd[0], dict((c, _fresh(h, types_[c])) for c in gbv)]]
    elif mk == "bulk_update":
      movers = [["BulkUpdateRecord", "Src", [crowd[0], crowd[-1]], {gcol: [fresh(), fresh()]}]]
    elif mk == "add+remove":
      movers = [["AddRecord", "Src", None, {gcol: fresh(), "amount": b}], ["RemoveRecord", "Src", crowd[0]]]
    elif mk == "bulk_add+update":
      movers = [["BulkAddRecord", "Src", [None, None], {gcol: [fresh(), fresh()], "amount": [b, b + 1]}],
                ["UpdateRecord", "Src", crowd[0], {gcol: keep}]]
    elif mk == "upsert_add+update":
      first = ["AddRecord", "Src", None, {gcol: fresh()}] if gcol == "tags" else \
              ["AddOrUpdateRecord", "Src", {gcol: fresh()}, {"amount": b}, {}]
      movers = [first, ["UpdateRecord", "Src", crowd[0], {gcol: fresh()}]]
    elif mk == "remove":       # control: no new group
      movers = [["RemoveRecord", "Src", crowd[0]]]
    else:                      # control: a new group, but nothing that is recomputed reads the summary table
      movers = [["AddRecord", "Src", None, {gcol: fresh(), "amount": b}]]
    on_oth = rng.random() < 0.3
    T, f = ("Oth", "g") if on_oth else ("Src", rng.choice(sorted(forms)))
    vals = rng.choice([{}, {"y": b}] if on_oth else [{}, {"note": "w%d" % b}, {"amount": 10 + b}, {"note": "w", "amount": b}])
    opts = rng.choice([{}, {}, {}, {"on_many": "all"}, {"on_many": "none"}, {"on_many": "first"}, {"add": False}, {"update": False}])
    if rng.random() < 0.6:
      forcer = ["AddOrUpdateRecord", T, {f: _key_values(h, T, f, 1)[0]}, vals, opts]
    else:
      kv = _key_values(h, T, f, rng.choice([2, 3]))
      forcer = ["BulkAddOrUpdateRecord", T, {f: kv}, dict((c, [v] * len(kv)) for c, v in vals.items()), opts]
    uas = movers + [forcer]
    left = [r for r in rows if not any(m[0] == "RemoveRecord" and m[2] == r for m in movers)]
    if rng.random() < 0.5 and left:
      uas.append(rng.choice([["UpdateRecord", "Src", rng.choice(left), {"note": "t%d" % b}],
                             ["AddRecord", "Oth", None, {"x": "a", "y": b}],
                             ["UpdateRecord", "Src", rng.choice(left), {"amount": 100 + b}]]))
    h.gen.kinds["c31_mid_witness"] = h.gen.kinds.get("c31_mid_witness", 0) + 1
    h.stats["c31_mid_witness_bundles"] += 1
    rec = h.apply(uas, ["c31_mid_witness"])
    if not rec["res"].ok:
      h.stats["c31_mid_bundles_rejected"] += 1
  h.end()
  return h


# ------------------------------------------------------------------------------------------------
# the direct oracle

def _upsert_edits(ua, rv):
  """(family, rows, cols) for what an upsert reports to have done (its return value)."""
  out = []
  if not isinstance(rv, dict):
    return out
  cols = set(ua[3].keys()) if len(ua) > 3 and isinstance(ua[3], dict) else set()
  if ua[0] == "AddOrUpdateRecord":
    ids = [r for r in (rv.get("recordIds") or []) if isinstance(r, int)]
    if rv.get("action") == "ADD":
      out.append(("Add", ids, None))
    elif rv.get("action") == "UPDATE":
      out.append(("Update", ids, cols))
  else:
    added = [r for r in (rv.get("addRecordIds") or []) if isinstance(r, int)]
    upd = []
    for x in (rv.get("updateRecordIds") or []):
      upd += [r for r in (x if isinstance(x, list) else [x]) if isinstance(r, int)]
    if added:
      out.append(("Add", added, None))
    if upd:
      out.append(("Update", upd, cols))
  return out


def classify(h, rec):
  """Independent classification of every stored action of a record-edit bundle."""
  if not rec["kinds"] or not set(rec["kinds"]) <= RECORD_KINDS:
    return
  if not all(ua and ua[0] in RECORD_UAS for ua in rec["actions"]) and \
     any(k.startswith("c31_mid") or k.startswith("replay") for k in rec["kinds"]):
    return      # a schema stage of the c31_mid kinds (or a replayed bundle that is not one of record edits)
  res = rec["res"]
  doc = h.doc
  st = h.stats
  find = lambda sig, detail: h._find("C31", sig, detail, rec, {"kinds": list(rec["kinds"])})
  sch = doc.engine_schema()
  summary_tables = set(t["tableId"] for t in doc.meta("_grist_Tables") if t.get("summarySourceTable"))
  tname = dict((t["id"], t["tableId"]) for t in doc.meta("_grist_Tables"))
  crecs = dict((c["id"], c) for c in doc.meta("_grist_Tables_column"))
  # summary tables with a list-valued group-by column: their rows come from the list variant of the helper
  # (the summary table's own column is Choice / Ref; the SOURCE column is the list-typed one)
  list_summaries = set(tname.get(c["parentId"]) for c in crecs.values()
                       if c.get("summarySourceCol") and
                       str(crecs.get(c["summarySourceCol"], {}).get("type", "")).split(":")[0] in ("ChoiceList", "RefList"))
  reverse_of = {}
  for c in crecs.values():
    r = crecs.get(c.get("reverseCol") or 0)
    if r:
      reverse_of[(tname.get(c["parentId"]), c["colId"])] = (tname.get(r["parentId"]), r["colId"])

  class _Rev(dict):
    def get(self, k, d=(None, None)):
      return dict.get(self, k, d)
  reverse_of = _Rev(reverse_of)
  doc_steps = set(json.dumps(st_[1], sort_keys=True) for st_ in (res.steps or []) if st_ and st_[0] == "doc" and st_[-1] == "ok")
  # data writes performed as doc actions on ordinary user tables (not by the calc flush), by stored position:
  # a summary row added BEFORE one of them was added in the middle of the bundle
  user_writes = [i for i, a in enumerate(res.stored)
                 if a[0].endswith("Record") and a[1] in sch and a[1] not in summary_tables and not a[1].startswith("_grist_")
                 and json.dumps(a, sort_keys=True) in doc_steps]
  last_user_write = max(user_writes) if user_writes else -1
  # upserts whose lookup key is a formula column (they make the engine evaluate it during the user action)
  fkey = fkey_sum = other_table = False
  for ua in rec["actions"]:
    if ua[0] in ("AddOrUpdateRecord", "BulkAddOrUpdateRecord") and len(ua) > 2 and isinstance(ua[2], dict) and ua[1] in sch:
      for c in ua[2]:
        e = sch[ua[1]].get(c)
        if e and e[1] and e[2]:
          fkey = True
          if any((s + ".") in e[2] for s in summary_tables):
            fkey_sum = True
            src_of = [tname.get(t.get("summarySourceTable")) for t in doc.meta("_grist_Tables") if (t["tableId"] + ".") in e[2]]
            if ua[1] not in src_of:
              other_table = True
  if fkey:
    st["c31_upsert_keyed_on_formula_column"] += 1
  if fkey_sum:
    st["c31_upsert_keyed_on_formula_column_reading_summary_table"] += 1
  mid_seen = set()
  mixed = set()
  for i, (a, flag) in enumerate(zip(res.stored, res.direct)):
    name, tid = a[0], a[1]
    mixed.add(flag)
    # maintenance of summary-table ROWS = adding / removing them (an update of a summary table's
    # group-by cell can also be the reference clean-up of a user's removal, which the property
    # does not classify; updates of its formula columns fall under the next clause)
    if tid in summary_tables and name in ("AddRecord", "BulkAddRecord", "RemoveRecord", "BulkRemoveRecord"):
      mid = "Add" in name and i < last_user_write and json.dumps(a, sort_keys=True) in doc_steps
      if mid:
        mid_seen.add("list" if tid in list_summaries else "plain")
      if flag:
        if mid:
          find(MID_SIG, "%s %s %r stored[%d] direct=True, followed by the user's %s %s at stored[%d]" % (
            name, tid, a[2], i, res.stored[last_user_write][0], res.stored[last_user_write][1], last_user_write))
        else:
          find("summary-table row maintenance marked direct", "%s %s" % (name, tid))
      continue
    if name in ("UpdateRecord", "BulkUpdateRecord") and tid in sch:
      cols = list(a[3].keys())
      # formula columns, and data columns carrying a (trigger / default) formula: their values are
      # formula results unless the user action itself supplied the column
      supplied = set()
      for ua in rec["actions"]:
        for part in ua[2:]:
          if isinstance(part, dict):
            if ua[1] == tid:
              supplied.update(part.keys())
            # the other side of a two-way reference: writing it makes the user-action layer write this
            # column too (reverse adjustment), which is the user's edit, not a formula result
            supplied.update(c for (t, c) in (reverse_of.get((ua[1], k)) for k in part.keys()) if t == tid)
      # a data column's cell is a formula result only when the CALCULATION wrote it: an update performed as
      # a doc action by the user-action layer (reverse adjustment of a two-way reference, reference clean-up
      # after a removal, ...) is a data write even if the column carries a trigger formula
      from_doc = json.dumps(a, sort_keys=True) in doc_steps
      if cols and all(c in sch[tid] and (sch[tid][c][1] or (sch[tid][c][2] and c not in supplied and not from_doc))
                      for c in cols):
        if flag:
          find("update of formula results marked direct", "%s %s %r" % (name, tid, cols))
        continue
    if name in ("ModifyColumn",) or (tid == "_grist_Tables_column" and name.endswith("UpdateRecord")):
      if flag:
        find("column conversion while entering data marked direct", "%s %s" % (name, tid))
      continue
  if mid_seen:
    st["c31_summary_row_added_mid_bundle"] += 1
    if "plain" in mid_seen:
      st["c31_summary_row_added_mid_bundle_plain_helper"] += 1
    if "list" in mid_seen:
      st["c31_summary_row_added_mid_bundle_list_helper"] += 1
    if other_table:
      st["c31_summary_row_added_mid_bundle_upsert_on_other_table"] += 1
    if not getattr(h, "c31_witness", False):
      st["c31_summary_row_added_mid_bundle_in_random_history"] += 1
  # the requested edits: for every user action that updates / adds / removes given rows of an ordinary
  # user table, the cells it names must be carried by a DIRECT stored action; it is a violation when
  # stored actions touch those cells but none of them is direct.  For an upsert the rows are the ones
  # its return value reports as added / updated.
  requests = []
  for ua, rv in zip(rec["actions"], res.ret):
    kind = ua[0]
    if kind not in RECORD_UAS:
      continue
    tid = ua[1]
    if tid in summary_tables or tid.startswith("_grist_") or tid not in sch:
      continue
    if kind in ("AddOrUpdateRecord", "BulkAddOrUpdateRecord"):
      for (fam, rows, cols) in _upsert_edits(ua, rv):
        requests.append((kind, tid, fam, rows, cols))
        st["c31_upsert_requested_edits_judged"] += 1
      continue
    if kind == "AddRecord":
      rows, cols = ([rv] if isinstance(rv, int) else []), set(ua[3].keys())
    elif kind == "BulkAddRecord":
      rows, cols = (list(rv) if isinstance(rv, list) else []), set(ua[3].keys())
    elif kind == "UpdateRecord":
      rows, cols = [ua[2]], set(ua[3].keys())
    elif kind == "BulkUpdateRecord":
      rows, cols = list(ua[2]), set(ua[3].keys())
    elif kind == "RemoveRecord":
      rows, cols = [ua[2]], None
    else:
      rows, cols = list(ua[2]), None
    fam = "Add" if "Add" in kind else ("Update" if "Update" in kind else "Remove")
    requests.append((kind, tid, fam, rows, cols))
  for (kind, tid, fam, rows, cols) in requests:
    rows = [r for r in rows if isinstance(r, int) and not isinstance(r, bool) and r > 0]
    if not rows:
      continue
    touching = []
    for a, flag in zip(res.stored, res.direct):
      if a[1] != tid or fam not in a[0] or not a[0].endswith("Record"):
        continue
      arows = a[2] if isinstance(a[2], list) else [a[2]]
      if not set(arows) & set(rows):
        continue
      if cols is not None and fam == "Update":
        acols = set(a[3].keys())
        datac = [c for c in acols & cols if c in sch[tid] and not sch[tid][c][1]]
        if not datac:
          continue
      touching.append(flag)
    if touching and not any(touching):
      find("requested record edit on a user table marked non-direct", "%s %s rows %r" % (kind, tid, rows))
  if len(mixed) == 2:
    rec["nontrivial"] = True


def post(ck, merged):
  stats = merged["stats"]
  for k in MID_COUNTERS:
    ck.count(k, stats.get("c31_" + k, 0))
  other = {}
  for (p, sig, detail, replay, seed) in merged["findings"]:
    if p != PROP:
      key = "%s: %s" % (p, sig)
      other[key] = other.get(key, 0) + 1
  ck.extra["other_property_findings_ignored"] = other


def replay(ck, rp):
  """Replay a recorded history: the prefix is applied plainly, the offending bundle with the oracles
  (incl. classify) on."""
  ck.lean(['GristProps.C31'])
  from gx import common
  common.setup_repo_path()
  from gx.hist_run import HistoryRun
  r = rp["replay"]
  hist = r["history"]
  idx = r.get("bundle_index", len(hist) - 1)
  h = HistoryRun(random.Random(0), n_bundles=0, oracles=CFG["oracles"])
  h.extra_oracles.append(classify)
  for k in MID_COUNTERS:
    h.stats.setdefault("c31_" + k, 0)
  for b in hist[:idx]:
    res = h._raw(b)
    if "replica" in h.oracles and getattr(res, "ok", False):
      for a in res.stored:
        h.replica.apply(a)
      del h.replica.problems[:]
    ck.evaluated()
  kinds = r.get("kinds")
  if not kinds:
    kinds = ["replay_record"] if all(ua and ua[0] in RECORD_UAS for ua in hist[idx]) else ["replay"]
  h.apply(copy.deepcopy(hist[idx]), list(kinds))
  ck.evaluated()
  n = 0
  for f in h.findings:
    print("replay finding:", f[0], f[1], f[2][:300])
    if f[0] == PROP:
      n += 1
      ck.violation(f[1], f[2], {"history": hist, "bundle_index": idx, "kinds": list(kinds)})
  if not n:
    print("replay: property holds on this history")
  ck.nontrivial_case("replay"); ck.nontrivial_case("replay2")
