"""
C26  Temporary row ids resolve consistently within a bundle.

Theorems: lean/GristProps/C26.lean about GristModel/RowIds.lean (translate_after_update,
translate_identity_on_positive, temp_id_is_allocated_row, update_by_temp_id, remove_by_temp_id,
ref_values_translated, unknown_temp_rejected, prepare_ref_ok_iff).
Tie: every bundle is run through a live engine and through Grist.RowIds.runStep (driver op "bundle"):
     the model's allocated ids must equal retValues, the error class must agree, and the final rows /
     cells predicted from the model's translated ids and reference values must equal fetch_table.
Search (direct oracle, independent of the model): a naive reference interpretation in Python that takes
     the ids the engine RETURNED for each add (so C27's allocation policy plays no role here), keeps a
     per-table dict temp id -> row (latest add wins), resolves Update / Remove row ids and Ref / RefList
     values through it, and compares the final tables with fetch_table; plus: no negative id in any
     reference cell or stored record action; a bundle using an unknown negative reference id must be
     rejected with doc.snapshot() unchanged.

Interpretation:
 * a temporary id used several times (twice in one request or by two adds of the bundle) stands for the
   row allocated at its LATEST use ("its mapping will be overridden", update_new_rows_map docstring);
 * temporary ids are per table: -1 of T and -1 of U are different things; a Ref:U value -1 is unknown if
   only T allocated -1;
 * a Ref / RefList value may name the row of the very request that carries it;
 * maps do not survive the bundle: a temp id of an earlier bundle is unknown;
 * "negative reference id ... is rejected" is about Ref / RefList VALUES.  For row ids of Update / Remove
   the text only speaks about ids that were allocated; the generator's main stream uses only those. The
   side stream also names unknown temp ids there and expects what every interpreter of such a bundle must
   do: Update of a row that does not exist is rejected; Remove of a row that does not exist removes
   nothing (DocActions.BulkRemoveRecord documents "ignore records that don't exist").
"""
import copy
import itertools
import json

from gx.props import c27

COLS = {
  "T": {"a": ("int", None), "r": ("ref", "T"), "rl": ("reflist", "T"), "o": ("ref", "U")},
  "U": {"b": ("int", None), "t": ("ref", "T"), "tl": ("reflist", "T")},
}
MARK = {"T": "a", "U": "b"}
DEFAULT = {"int": 0, "ref": 0, "reflist": None}

SIG_UNKNOWN_ACCEPTED = "reference value names a temporary id that no add in the bundle created, bundle accepted"
SIG_REJECT_DIRTY = "rejected bundle changed the document"
SIG_VALID_REJECTED = "bundle using only temporary ids it created is rejected"
SIG_ROWS = "rows after the bundle differ from the reference interpretation (add / remove by temporary id)"
SIG_MARK = "an update by temporary id did not reach the allocated row"
SIG_REF = "a Ref/RefList cell does not hold the allocated row id"
SIG_NEG_CELL = "negative id left in a reference cell"
SIG_NEG_STORED = "stored record action names a negative row id"
SIG_RET = "retValues of an add do not have the shape of the request"


# --------------------------------------------------------------------------- bundles

def enc(kind, v):
  if kind == "reflist":
    return None if v is None else ["L"] + list(v)
  return v


def to_actions(steps, rng=None):
  out = []
  for st in steps:
    t, k = st["t"], st["k"]
    vals = st.get("vals", {})
    if k in ("add", "replace"):
      cols = {c: [enc(COLS[t][c][0], v) for v in vs] for c, vs in vals.items()}
      if k == "replace":
        out.append(["ReplaceTableData", t, list(st["req"]), cols])
      elif len(st["req"]) == 1 and st.get("single"):
        out.append(["AddRecord", t, st["req"][0], {c: v[0] for c, v in cols.items()}])
      else:
        out.append(["BulkAddRecord", t, list(st["req"]), cols])
    elif k == "update":
      cols = {c: [enc(COLS[t][c][0], v) for v in vs] for c, vs in vals.items()}
      if len(st["rows"]) == 1 and st.get("single"):
        out.append(["UpdateRecord", t, st["rows"][0], {c: v[0] for c, v in cols.items()}])
      else:
        out.append(["BulkUpdateRecord", t, list(st["rows"]), cols])
    else:
      if len(st["rows"]) == 1 and st.get("single"):
        out.append(["RemoveRecord", t, st["rows"][0]])
      else:
        out.append(["BulkRemoveRecord", t, list(st["rows"])])
  return out


def to_model_op(state, steps):
  msteps = []
  for st in steps:
    t = st["t"]
    cols = []
    for c, vs in st.get("vals", {}).items():
      kind, target = COLS[t][c]
      if kind == "int":
        continue
      cols.append({"c": c, "to": target, "kind": kind, "v": [v for v in vs]})
    m = {"k": st["k"], "t": t, "cols": cols}
    if st["k"] in ("add", "replace"):
      m["req"] = list(st["req"])
    else:
      m["rows"] = list(st["rows"])
    msteps.append(m)
  return {"m": "rowids", "op": "bundle",
          "tables": [{"t": t, "rows": sorted(state[t])} for t in ("T", "U")], "steps": msteps}


# --------------------------------------------------------------------------- effects on a table state

def read_state(snap):
  """{table: {row: {col: python value}}} from a snapshot (user tables, manualSort dropped)."""
  out = {}
  for t in ("T", "U"):
    rows = {}
    for i, rid in enumerate(snap[t]["ids"]):
      rec = {}
      for c in COLS[t]:
        rec[c] = untok(snap[t]["cols"][c][i])
      rows[rid] = rec
    out[t] = rows
  return out


def untok(tok):
  if tok is None or isinstance(tok, bool):
    return tok
  if tok.startswith("i"):
    return int(tok[1:])
  if tok.startswith("o"):
    v = json.loads(tok[1:])
    if isinstance(v, list) and v and v[0] == "L":
      return list(v[1:])
    return ("obj", tok)
  return ("tok", tok)


def eff_add(state, t, ids, vals, replace=False):
  if replace:
    state[t] = {}
  for k, rid in enumerate(ids):
    rec = {c: DEFAULT[COLS[t][c][0]] for c in COLS[t]}
    for c, vs in vals.items():
      v = vs[k]
      if COLS[t][c][0] == "reflist" and v is not None and len(v) == 0:
        v = None
      rec[c] = v
    if rid > 0:
      state[t][rid] = rec


def eff_update(state, t, rows, vals):
  for k, rid in enumerate(rows):
    for c, vs in vals.items():
      v = vs[k]
      if COLS[t][c][0] == "reflist" and v is not None and len(v) == 0:
        v = None
      state[t][rid][c] = v


def eff_remove(state, t, rows):
  for r in set(rows):
    state[t].pop(r, None)
  # doBulkRemoveRecord: references to the NAMED rows (existing or not: `row_id_set = set(row_ids)`) are
  # cleaned in every column pointing at t
  gone = set(rows)
  for t2 in state:
    for c, (kind, target) in COLS[t2].items():
      if target != t:
        continue
      for rec in state[t2].values():
        v = rec[c]
        if kind == "ref" and isinstance(v, int) and v in gone:
          rec[c] = 0
        elif kind == "reflist" and isinstance(v, list) and any(x in gone for x in v):
          w = [x for x in v if x not in gone]
          rec[c] = w or None


# --------------------------------------------------------------------------- the reference interpretation

def reference(state0, steps, ret):
  """Naive reading of the property.  `ret` = the engine's retValues (None when it rejected): only the
  ids of the adds are taken from it.  Returns ("reject", why) | ("ok", state) | ("ret", why)."""
  state = copy.deepcopy(state0)
  temp = {"T": {}, "U": {}}
  for k, st in enumerate(steps):
    t = st["t"]
    vals = st.get("vals", {})

    def resolve_vals():
      out = {}
      for c, vs in vals.items():
        kind, target = COLS[t][c]
        if kind == "int":
          out[c] = list(vs); continue
        res = []
        for v in vs:
          if kind == "ref":
            if isinstance(v, int) and v < 0:
              if v not in temp[target]:
                return None
              v = temp[target][v]
          elif v is not None:
            w = []
            for x in v:
              if x < 0:
                if x not in temp[target]:
                  return None
                x = temp[target][x]
              w.append(x)
            v = w
          res.append(v)
        out[c] = res
      return out

    if st["k"] in ("add", "replace"):
      req = st["req"]
      if st["k"] == "replace":
        ids = list(range(1, len(req) + 1))      # generator: automatic ids only
      elif ret is None:
        ids = None
      else:
        rv = ret[k]
        ids = [rv] if (len(req) == 1 and st.get("single")) else rv
        if not isinstance(ids, list) or len(ids) != len(req) or not all(type(i) is int and i > 0 for i in ids):
          return ("ret", "step %d: request %r returned %r" % (k, req, rv))
      if ids is None:
        # engine rejected: allocation unknown; only the existence of mappings matters below
        ids = [10 ** 9 + i for i in range(len(req))]
      for a, b in zip(req, ids):
        if a is not None and a < 0:
          temp[t][a] = b
      rv = resolve_vals()
      if rv is None:
        return ("reject", "step %d: unknown temporary id in reference value" % k)
      eff_add(state, t, ids, rv, replace=st["k"] == "replace")
    elif st["k"] == "update":
      rows = [temp[t].get(r, r) for r in st["rows"]]
      rv = resolve_vals()
      if rv is None:
        return ("reject", "step %d: unknown temporary id in reference value" % k)
      if any(r not in state[t] for r in rows):
        return ("reject", "step %d: update of a row that does not exist" % k)
      eff_update(state, t, rows, rv)
    else:
      rows = [temp[t].get(r, r) for r in st["rows"]]
      eff_remove(state, t, rows)
  return ("ok", state)


def from_model(state0, steps, mo):
  """Final state predicted from the model's outputs (allocated ids, translated ids and values)."""
  state = copy.deepcopy(state0)
  rets = []
  for st, o in zip(steps, mo["steps"]):
    t = st["t"]
    vals = {c: list(vs) for c, vs in st.get("vals", {}).items()}
    for c, vs in o["cols"].items():
      vals[c] = vs
    if st["k"] in ("add", "replace"):
      eff_add(state, t, o["ids"], vals, replace=st["k"] == "replace")
      rets.append(None if st["k"] == "replace" else
                  (o["ids"][0] if (len(st["req"]) == 1 and st.get("single")) else o["ids"]))
    elif st["k"] == "update":
      eff_update(state, t, o["ids"], vals)
      rets.append(None)
    else:
      eff_remove(state, t, o["ids"])
      rets.append(None)
  return state, rets


def first_diff(exp, got):
  for t in ("T", "U"):
    if sorted(exp[t]) != sorted(got[t]):
      return (SIG_ROWS, "table %s rows: expected %r, engine %r" % (t, sorted(exp[t]), sorted(got[t])))
  for t in ("T", "U"):
    for rid in sorted(exp[t]):
      c = MARK[t]
      if exp[t][rid][c] != got[t][rid][c]:
        return (SIG_MARK, "%s[%d].%s: expected %r, engine %r" % (t, rid, c, exp[t][rid][c], got[t][rid][c]))
  for t in ("T", "U"):
    for rid in sorted(exp[t]):
      for c in COLS[t]:
        if exp[t][rid][c] != got[t][rid][c]:
          return (SIG_REF, "%s[%d].%s: expected %r, engine %r" % (t, rid, c, exp[t][rid][c], got[t][rid][c]))
  return None


def negatives(state, res):
  for t in state:
    for rid, rec in state[t].items():
      for c, (kind, _) in COLS[t].items():
        v = rec[c]
        if kind == "ref" and isinstance(v, int) and v < 0:
          return (SIG_NEG_CELL, "%s[%d].%s = %r" % (t, rid, c, v))
        if kind == "reflist" and isinstance(v, list) and any(isinstance(x, int) and x < 0 for x in v):
          return (SIG_NEG_CELL, "%s[%d].%s = %r" % (t, rid, c, v))
  for a in res.raw_stored:
    if a[0] in ("AddRecord", "UpdateRecord", "RemoveRecord", "BulkAddRecord", "BulkUpdateRecord",
                "BulkRemoveRecord", "ReplaceTableData") and a[1] in COLS:
      ids = a[2] if isinstance(a[2], list) else [a[2]]
      if any(isinstance(i, int) and i < 0 for i in ids):
        return (SIG_NEG_STORED, "%r" % (a[:3],))
  return None


def uses_unknown_row_ids(state0, steps):
  """Does an Update/Remove name a negative id that no earlier add of that table allocated?"""
  known = {"T": set(), "U": set()}
  for st in steps:
    if st["k"] in ("add", "replace"):
      known[st["t"]].update(a for a in st["req"] if a is not None and a < 0)
    elif any(r < 0 and r not in known[st["t"]] for r in st["rows"]):
      return True
  return False


# --------------------------------------------------------------------------- runner

class Runner(object):
  def __init__(self, ck):
    self.ck = ck
    self.doc = c27.new_doc()
    self.base = self.doc.snapshot()
    self.cases = []
    self.history = []      # accepted bundles that were NOT undone (evolving documents)
    self.marker = 1000

  def fresh(self):
    self.doc = c27.new_doc()
    self.base = self.doc.snapshot()
    self.history = []

  def clear(self):
    """Empty both tables (same document: creating an engine costs more than hundreds of bundles)."""
    state = read_state(self.base)
    b = [["BulkRemoveRecord", t, sorted(state[t])] for t in ("T", "U") if state[t]]
    if b:
      r = self.doc.apply(b)
      assert r.ok, r.error
      self.history.append(b)
      self.base = self.doc.snapshot()

  def mark(self):
    self.marker += 1
    return self.marker

  def bundle(self, steps, undo=True):
    ck, doc = self.ck, self.doc
    from gx import engine_driver as ed
    state0 = read_state(self.base)
    actions = to_actions(steps)
    res = doc.apply(actions)
    snap = doc.snapshot()
    ck.evaluated()
    replay = {"history": list(self.history), "steps": steps, "actions": actions}
    lenient = uses_unknown_row_ids(state0, steps)
    ref = reference(state0, steps, res.ret if res.ok else None)
    bad = None
    if not res.ok:
      if snap != self.base:
        bad = (SIG_REJECT_DIRTY, "%r: %s" % (res.error, ed.diff_snapshots(self.base, snap)))
      elif ref[0] != "reject":
        bad = (SIG_VALID_REJECTED, "%r rejected with %r" % (actions, res.error))
    else:
      got = read_state(snap)
      if ref[0] == "reject":
        sig = SIG_UNKNOWN_ACCEPTED if "reference value" in ref[1] else "update of a row that does not exist is accepted"
        bad = (sig, "%s; bundle %r accepted, stored %r" % (ref[1], actions, res.raw_stored[:6]))
      elif ref[0] == "ret":
        bad = (SIG_RET, ref[1])
      else:
        bad = first_diff(ref[1], got)
        if not bad:
          bad = negatives(got, res)
          if bad and bad[0] == SIG_NEG_STORED and lenient:
            bad = None       # Remove of an unknown temp id is passed on as given; removes nothing (see top)
            ck.count("remove_of_unknown_temp_id_passed_through")
    if bad:
      ck.violation(bad[0], bad[1], replay)
    # for the model tie
    real = {"ok": res.ok, "error": res.error[0] if not res.ok else None, "ret": res.ret if res.ok else None,
            "state": read_state(snap) if res.ok else None}
    self.cases.append((to_model_op(state0, steps), steps, state0, real, replay))
    # coverage
    ck.count("accepted" if res.ok else "rejected:" + res.error[0])
    ck.count("expected:" + ref[0])
    used = any(st["k"] in ("update", "remove") and any(r < 0 for r in st["rows"]) for st in steps) or \
           any(isinstance(v, int) and v < 0 or isinstance(v, list) and any(x < 0 for x in v)
               for st in steps for c, vs in st.get("vals", {}).items() if COLS[st["t"]][c][0] != "int" for v in vs)
    if used:
      ck.nontrivial_case(steps)
      if res.ok:
        ck.sample({"actions": actions, "ret": res.ret, "stored": res.raw_stored[:6]})
    # restore or keep
    if res.ok:
      if undo:
        if snap != self.base:
          r2 = doc.apply([["ApplyUndoActions", res.raw_undo]])
          if not r2.ok or doc.snapshot() != self.base:
            ck.count("restore_by_new_document")
            hist = list(self.history)
            self.fresh()
            for b in hist:
              r3 = self.doc.apply(b)
              assert r3.ok, r3.error
            self.history = hist
            self.base = self.doc.snapshot()
      else:
        self.history.append(actions)
        self.base = snap
    return res


# --------------------------------------------------------------------------- generators

def exhaustive(ck, run):
  """Small scope: add with temp ids (+ reference values naming them), then up to two follow-up steps."""
  rng = ck.rng
  keep = 0.15 if ck.tier == "quick" else 1.0
  refvals = [None, -1, -2, 1, 0]          # None = column not mentioned
  for st0 in ([], [1, 2]):
    if st0:
      r = run.doc.apply([["BulkAddRecord", "T", st0, {"a": [10, 20], "r": [2, 0], "rl": [["L", 1, 2], None]}],
                         ["BulkAddRecord", "U", [1], {"b": [5], "t": [2], "tl": [["L", 2, 1]]}]])
      assert r.ok, r.error
      run.history.append([["BulkAddRecord", "T", st0, {"a": [10, 20], "r": [2, 0], "rl": [["L", 1, 2], None]}],
                          ["BulkAddRecord", "U", [1], {"b": [5], "t": [2], "tl": [["L", 2, 1]]}]])
      run.base = run.doc.snapshot()
    firsts = []
    for req in ([-1], [-1, -2], [-1, -1], [None, -1], [-2, None]):
      for rv in refvals:
        for lv in (None, [-1], [-2, -1], [1, -1]):
          vals = {"a": [run.mark() for _ in req]}
          if rv is not None:
            vals["r"] = [rv] + [0] * (len(req) - 1)
          if lv is not None:
            vals["rl"] = [None] * (len(req) - 1) + [lv]
          firsts.append({"k": "add", "t": "T", "req": req, "vals": vals, "single": len(req) == 1 and rv in (None, -1)})
    seconds = [None]
    for x in (-1, -2, 1):
      seconds.append({"k": "update", "t": "T", "rows": [x], "vals": {"a": [0]}, "single": True})
      seconds.append({"k": "remove", "t": "T", "rows": [x], "single": x == -1})
    for x in (-1, -2, 1):
      seconds.append({"k": "update", "t": "T", "rows": [-1], "vals": {"a": [0], "r": [x]}})
      seconds.append({"k": "add", "t": "U", "req": [-1], "vals": {"b": [0], "t": [x], "tl": [[x, -1]]}})
      seconds.append({"k": "add", "t": "T", "req": [-1], "vals": {"a": [0], "r": [x]}, "single": True})
    seconds.append({"k": "update", "t": "T", "rows": [-1, -2], "vals": {"a": [0, 0], "o": [-1, 0]}})
    seconds.append({"k": "add", "t": "U", "req": [None, -1], "vals": {"b": [0, 0], "t": [-1, -2]}})
    thirds = [None,
              {"k": "update", "t": "T", "rows": [-1], "vals": {"a": [0], "o": [-1]}, "single": True},
              {"k": "remove", "t": "T", "rows": [-1]},
              {"k": "add", "t": "U", "req": [None], "vals": {"b": [0], "t": [-1], "tl": [[-2]]}},
              {"k": "update", "t": "T", "rows": [1], "vals": {"a": [0], "rl": [[-1, -2]]}}]
    state_now = read_state(run.base)
    for f in firsts:
      dead = reference(state_now, [f], None)[0] == "reject"
      for s in seconds:
        for th in thirds:
          if th is not None and s is None:
            continue
          if dead and s is not None:
            continue        # the first step alone is rejected: what follows cannot matter
          if rng.random() > keep:
            continue
          steps = [copy.deepcopy(x) for x in (f, s, th) if x is not None]
          if st0 == [] and any(st["k"] != "add" and 1 in st.get("rows", []) for st in steps):
            continue
          for st in steps[1:]:
            st["vals"] = dict(st.get("vals", {}))
            m = MARK[st["t"]]
            if m in st["vals"]:
              st["vals"][m] = [run.mark() for _ in st["vals"][m]]
          run.bundle(steps)


def reuse_freed_ids(ck, run):
  """Fixed family, run in full on every tier: the bundle first REMOVES the row(s) holding the highest row id of T
  (so that the allocator hands that id out again), then adds by temporary id and USES the temporary id (as the
  target of an update / removal, as a Ref / RefList value in T and in U).  The id a temporary id resolves to is
  then one that existed before the bundle."""
  run.clear()
  setup = [["BulkAddRecord", "T", [1, 2, 3], {"a": [10, 20, 30], "r": [2, 0, 1], "rl": [["L", 1, 2], None, ["L", 3]]}],
           ["BulkAddRecord", "U", [1], {"b": [5], "t": [2], "tl": [["L", 2, 1]]}]]
  r = run.doc.apply(setup)
  assert r.ok, r.error
  run.history.append(setup)
  run.base = run.doc.snapshot()
  frees = [{"k": "remove", "t": "T", "rows": [3], "single": True}, {"k": "remove", "t": "T", "rows": [3]},
           {"k": "remove", "t": "T", "rows": [2, 3]}]
  adds = [([-1], True), ([-1], False), ([-1, -2], False), ([None, -1], False)]
  uses = [{"k": "update", "t": "T", "rows": [-1], "vals": {"a": [0]}, "single": True},
          {"k": "update", "t": "T", "rows": [-1], "vals": {"a": [0], "r": [-1]}},
          {"k": "remove", "t": "T", "rows": [-1], "single": True},
          {"k": "add", "t": "U", "req": [None], "vals": {"b": [0], "t": [-1], "tl": [[-1]]}},
          {"k": "update", "t": "T", "rows": [1], "vals": {"a": [0], "rl": [[-1, 1]]}},
          {"k": "add", "t": "T", "req": [-3], "vals": {"a": [0], "r": [-1]}, "single": True}]
  for f in frees:
    for (req, single) in adds:
      for u in uses:
        steps = [copy.deepcopy(f),
                 {"k": "add", "t": "T", "req": list(req), "vals": {"a": [run.mark() for _ in req]}, "single": single},
                 copy.deepcopy(u)]
        m = MARK[steps[2]["t"]]
        if m in steps[2].get("vals", {}):
          steps[2]["vals"][m] = [run.mark() for _ in steps[2]["vals"][m]]
        run.bundle(steps)
        ck.count("reuse_freed_id_bundles")


class Gen(object):
  """Random bundles aware of what exists (rows) and what the bundle has allocated so far."""

  def __init__(self, rng, run):
    self.rng, self.run = rng, run

  def bundle(self):
    rng = self.rng
    state = read_state(self.run.base)
    alive = {t: set(state[t]) for t in state}
    known = {"T": [], "U": []}
    style = rng.random()
    # 0: only known temp ids; 1: an unknown negative REFERENCE value somewhere; 2: unknown row ids in update/remove
    mode = 0 if style < 0.72 else (1 if style < 0.9 else 2)
    steps = []
    # upper bound of every id that exists or may have been allocated so far in this bundle: explicit
    # ids are taken above it, so they are fresh and never equal an automatic id (that is C27's subject)
    bound = max([0] + [r for t in alive for r in alive[t]])
    n = rng.choice([1, 2, 2, 3, 3, 4, 5, 6])
    poison = rng.randrange(n) if mode else -1
    for k in range(n):
      t = rng.choice(["T", "T", "U"])
      kinds = ["add", "add", "add"]
      if known[t] or alive[t]:
        kinds += ["update", "update", "remove"]
      kind = rng.choice(kinds)
      if k == 0 and rng.random() < 0.8:
        kind = "add"
      if kind == "add" and rng.random() < 0.04 and len(alive[t]) < 6:
        kind = "replace"
      bad_here = (k == poison)
      if kind in ("add", "replace"):
        m = rng.choice([1, 1, 2, 2, 3])
        req = []
        for _ in range(m):
          roll = rng.random()
          if roll < 0.6 or kind == "replace":
            req.append(rng.choice([-1, -1, -2, -3, -1, None]))
          elif roll < 0.85:
            req.append(None)
          else:
            bound += rng.randint(1, 3)
            req.append(bound)
        bound += m
        newly = [a for a in req if a is not None and a < 0]
        vis = {"T": list(known["T"]), "U": list(known["U"])}
        vis[t] = vis[t] + newly             # values may name the request's own rows
        vals = {MARK[t]: [self.run.mark() for _ in req]}
        self.ref_values(t, m, vis, alive, vals, bad_here and mode == 1)
        st = {"k": kind, "t": t, "req": req, "vals": vals, "single": m == 1 and rng.random() < 0.5}
        if kind == "replace":
          alive[t] = set()
        known[t] = known[t] + newly
        # rows allocated now are alive, under their temp ids (positions unknown to the generator)
      elif kind == "update":
        pool = [a for a in set(known[t])] + sorted(alive[t])[:4]
        m = rng.choice([1, 1, 2])
        rows = [rng.choice(pool) for _ in range(m)]
        if bad_here and mode == 2:
          rows[rng.randrange(m)] = rng.choice([-9, -4] + [a for a in (-1, -2, -3) if a not in known[t]] or [-9])
        vals = {MARK[t]: [self.run.mark() for _ in rows]}
        self.ref_values(t, m, known, alive, vals, bad_here and mode == 1)
        st = {"k": "update", "t": t, "rows": rows, "vals": vals, "single": m == 1 and rng.random() < 0.5}
      else:
        pool = [a for a in set(known[t])] + sorted(alive[t])[:4]
        m = rng.choice([1, 1, 2])
        rows = [rng.choice(pool) for _ in range(m)]
        if bad_here and mode == 2:
          rows[rng.randrange(m)] = rng.choice([-9, -4])
        for r in rows:
          if r > 0:
            alive[t].discard(r)
          else:
            # the row behind a removed temp id is gone: later steps must not update it
            known[t] = [a for a in known[t] if a != r]
        st = {"k": "remove", "t": t, "rows": rows, "single": m == 1 and rng.random() < 0.5}
      steps.append(st)
    return steps

  def ref_values(self, t, m, vis, alive, vals, poison):
    rng = self.rng
    refcols = [c for c, (kind, _) in COLS[t].items() if kind != "int"]
    chosen = [c for c in refcols if rng.random() < 0.55]
    if poison and not chosen:
      chosen = [rng.choice(refcols)]
    pc = rng.choice(chosen) if (poison and chosen) else None
    for c in chosen:
      kind, target = COLS[t][c]
      def one():
        pool = list(vis[target]) * 3 + sorted(alive[target])[:3] + [0, 77]
        return rng.choice(pool)
      out = []
      for _ in range(m):
        if kind == "ref":
          out.append(one())
        else:
          out.append(None if rng.random() < 0.2 else [one() for _ in range(rng.choice([1, 2, 3]))])
      if c == pc:
        unknown = [a for a in (-1, -2, -3, -5, -8) if a not in vis[target]] or [-8]
        i = rng.randrange(m)
        u = rng.choice(unknown)
        if kind == "ref":
          out[i] = u
        else:
          lst = list(out[i] or [])
          lst.insert(rng.randint(0, len(lst)), u)
          out[i] = lst
      if kind == "reflist":
        # no repeated ids inside one list (not this property's business)
        out = [None if v is None else list(dict.fromkeys(v)) for v in out]
      vals[c] = out


def random_histories(ck, run):
  rng = ck.rng
  n_hist = 3 if ck.tier == "quick" else 40
  n_bundles = 200 if ck.tier == "quick" else 300
  for h in range(n_hist):
    run.clear()
    gen = Gen(rng, run)
    for b in range(n_bundles):
      state = read_state(run.base)
      if sum(len(state[t]) for t in state) > 60:
        r = run.doc.apply([["BulkRemoveRecord", "T", sorted(state["T"])[5:]],
                           ["BulkRemoveRecord", "U", sorted(state["U"])[5:]]])
        assert r.ok, r.error
        run.history.append([["BulkRemoveRecord", "T", sorted(state["T"])[5:]],
                            ["BulkRemoveRecord", "U", sorted(state["U"])[5:]]])
        run.base = run.doc.snapshot()
      steps = gen.bundle()
      # generator invariant: updates only name rows that exist (or temp ids); drop steps that the
      # reference would reject for a reason outside this property
      run.bundle(steps, undo=rng.random() < 0.5)


def compare_with_model(ck, cases):
  model = ck.driver([c[0] for c in cases])
  mism = None
  for (op, steps, state0, real, replay), mo in zip(cases, model):
    why = None
    if "error" in mo:
      if real["ok"]:
        why = "model rejects (%s at step %s), engine accepts" % (mo["error"], mo.get("at"))
      elif mo["error"] != real["error"]:
        why = "error class: model %s, engine %s" % (mo["error"], real["error"])
    elif not real["ok"]:
      why = "model accepts, engine rejects with %s" % real["error"]
    else:
      pred, rets = from_model(state0, steps, mo)
      for st, want, got in zip(steps, rets, real["ret"]):
        if st["k"] == "add" and want != got:
          why = "retValues: model %r, engine %r" % (rets, real["ret"])
          break
      if why is None:
        d = first_diff(pred, real["state"])
        if d:
          why = "final state: " + d[1]
        else:
          for t in ("T", "U"):
            if mo["tables"][t] != sorted(real["state"][t]):
              why = "rows of %s: model %r engine %r" % (t, mo["tables"][t], sorted(real["state"][t]))
    if why:
      ck.count("model_impl_disagreements")
      if mism is None:
        mism = {"why": why, "model": mo, "engine": {k: real[k] for k in ("ok", "error", "ret")}, "replay": replay}
  if mism and not ck.has_impl_violation():
    ck.broken("correspondence temp-id translation vs Grist.RowIds.runStep",
              "model and engine differ and the property's clauses hold on all explored inputs", mism)
  return mism


def run(ck):
  ck.rule = ("exhaustive small scope: add to T with ids over {[-1],[-1,-2],[-1,-1],[None,-1],[-2,None]} x Ref value "
             "{absent,-1,-2,1,0} x RefList value {absent,[-1],[-2,-1],[1,-1]}, followed by 0-2 further steps from 22 x 4 "
             "updates/removes/adds by temp id in T and U (quick: 15% sample; bundles whose first step is already rejected are run without followers), on an empty and a populated document; plus "
             "random bundles (1-6 steps, two tables, Ref/RefList to self and to the other table, 28% with an unknown "
             "negative id) on evolving documents; non-trivial = bundle that USES a negative id after or while allocating "
             "(update/remove row id or reference value); distinct by the bundle's steps")
  ck.assumptions = ["tables T(a Int, r Ref:T, rl RefList:T, o Ref:U), U(b Int, t Ref:T, tl RefList:T); no formulas, no two-way references",
                    "explicit ids in C26 bundles are fresh and far above all rows (allocation collisions are C27's subject)",
                    "reference values are ints / lists of distinct ints / None (alt-text and floats are left alone by the code: checked once)",
                    "removal clean-up of references (Ref -> 0, RefList element dropped, empty -> None) is assumed, not proved here"]
  ck.lean(["GristProps.C26"])
  run_ = Runner(ck)
  exhaustive(ck, run_)
  reuse_freed_ids(ck, run_)
  random_histories(ck, run_)
  side_observations(ck, run_.doc)
  compare_with_model(ck, run_.cases)


def side_observations(ck, doc=None):
  """Shapes the model abstracts as `other`: a float or string in a Ref column is alt-text, never an id."""
  doc = doc or c27.new_doc()
  r = doc.apply([["AddRecord", "T", -1, {"r": -1.0, "rl": ["L", -1.0]}]])
  s = doc.snapshot(tables=["T"])["T"]
  ck.count("float_ref_value:%s" % ("alttext" if r.ok and s["cols"]["r"][-1:] == ["s-1.0"] else "other:%r" % (r.error or s["cols"]["r"],)))
  ck.evaluated()
  if r.ok and any(isinstance(v, str) and v.startswith("i-") for v in s["cols"]["r"]):
    ck.violation(SIG_NEG_CELL, "float -1.0 stored as id: %r" % (s["cols"]["r"],), {"history": [], "actions": [["AddRecord", "T", -1, {"r": -1.0}]], "steps": None})


def replay(ck, rp):
  r = rp["replay"]
  if "replay" in r and "why" in r:
    r = r["replay"]
  run_ = Runner(ck)
  for b in r.get("history", []):
    res = run_.doc.apply(b)
    print("replay: history bundle %r -> %s" % (b, "ok" if res.ok else res.error))
  run_.history = list(r.get("history", []))
  run_.base = run_.doc.snapshot()
  if r.get("steps") is None:
    res = run_.doc.apply(r["actions"])
    print("replay: %r -> %s" % (r["actions"], res.ok and res.raw_stored or res.error))
    side_observations(ck)
  else:
    state0 = read_state(run_.base)
    n = len(ck.violations) + len(ck.known)
    res = run_.bundle(r["steps"], undo=False)
    ref = reference(state0, r["steps"], res.ret if res.ok else None)
    print("replay: before %r" % (state0,))
    print("replay: bundle %r" % (r["actions"],))
    print("replay: engine %s ret=%r stored=%r" % ("accepted" if res.ok else "rejected %r" % (res.error,), res.ret, res.raw_stored))
    print("replay: reference says %s" % (ref[0] if ref[0] != "ok" else "accept with %r" % (ref[1],)))
    print("replay: engine state %r" % (read_state(run_.doc.snapshot()),))
    print("replay: model says %r" % (ck.driver([run_.cases[-1][0]])[0],))
    print("replay: %s" % ("property violated" if len(ck.violations) + len(ck.known) > n else "property holds"))
  ck.nontrivial_case(["replay", r["actions"]]); ck.nontrivial_case("replay")
  ck.lean(["GristProps.C26"])
